// probe: run one query against a JSON document with the real engine (development aid).
package main

import (
	"encoding/json"
	"fmt"
	"os"

	"github.com/vedadiyan/genql"
)

func main() {
	doc := map[string]any{}
	if err := json.Unmarshal([]byte(os.Args[1]), &doc); err != nil {
		panic(err)
	}
	opts := []genql.QueryOption{}
	for _, o := range os.Args[3:] {
		switch o {
		case "wrapped":
			opts = append(opts, genql.Wrapped())
		case "pg":
			opts = append(opts, genql.PostgresEscapingDialect())
		case "arr":
			opts = append(opts, genql.IdomaticArrays())
		}
	}
	func() {
		defer func() {
			if r := recover(); r != nil {
				fmt.Println("PANIC:", r)
			}
		}()
		q, err := genql.New(doc, os.Args[2], opts...)
		if err != nil {
			fmt.Println("NEW-ERR:", err)
			return
		}
		rs, err := q.Exec()
		if err != nil {
			fmt.Println("EXEC-ERR:", err)
			return
		}
		b, err := json.Marshal(rs)
		fmt.Println(string(b), err)
	}()
}
