package main

import "time"

type legCfg struct {
	Kind       string // mc | trace | exec
	Name       string
	Module     string // TLA+ module (mc: MC_*, trace: *Trace)
	Cfg        string // file under spec/mc
	Timeout    time.Duration
	TLCWorkers int
	TLCArgs    []string
	Simulate   bool
	NoExport   bool
	Workers    int // replay workers
	WorkerArgs []string
	TraceN     int // generated queries / histories per trace file
	TraceFiles int
	Mode       string // exec legs: worker mode
	Expect     string // mc legs: the named invariant must be VIOLATED by this configuration (a deviation the model can express)
	CallEv     string // name of the event that starts a history (default "call")
	APIKinds   []string
}

func (l legCfg) IsCall(e map[string]any) bool {
	c := l.CallEv
	if c == "" {
		c = "call"
	}
	return e["ev"] == c
}

// which mismatch kinds are observations at the API (violations) as opposed to
// stage-internal disagreements (binding drift)
func (l legCfg) IsAPI(kind string) bool {
	ks := l.APIKinds
	if ks == nil {
		ks = []string{"api", "ret"}
	}
	for _, k := range ks {
		if k == kind {
			return true
		}
	}
	return false
}

type propCfg struct {
	ID          string
	Level       string
	Race        bool
	Rule        string
	Assumptions []string
	Exhaustive  bool
	CaseTimeout time.Duration
	Quick       []legCfg
	Thorough    []legCfg
}

func (p *propCfg) Legs(tier string) []legCfg {
	if tier == "thorough" && p.Thorough != nil {
		return p.Thorough
	}
	return p.Quick
}

// caseTimeout: how long a worker may take to answer one case before the case counts as a hang. Generous on purpose:
// a case is up to a few hundred real executions, the machine may be busy with other checks, and a hang stays a hang
// however long one waits for it (quick 60 s; thorough, whose cases run ten times as many executions, 240 s).
func (p *propCfg) caseTimeout() time.Duration {
	d := p.CaseTimeout
	if d == 0 {
		d = 60 * time.Second
	}
	if tier == "thorough" {
		d *= 4
	}
	return d
}

var baseAssumptions = []string{
	"TLC and the Json community module are correct",
	"the harness renderer (query AST -> SQL text) and value codec are correct; they are table-driven and exercised by every replayed case",
	"behaviour with the verif hooks compiled in equals behaviour without them (hooks are add-only observers)",
}

func mc(name, module, cfg string, timeout time.Duration) legCfg {
	return legCfg{Kind: "mc", Name: name, Module: module, Cfg: cfg, Timeout: timeout, TLCWorkers: 12, Workers: 8}
}

// mix: the clause-combining generator (internal/h gen.go MixQuery) as an extra trace leg
func mix(n, files int) legCfg {
	return legCfg{Kind: "trace", Name: "mix", Module: "EngineTrace", TraceN: n, TraceFiles: files, Timeout: 15 * time.Minute, WorkerArgs: []string{"-gen", "MIX"}}
}

// repo: the repository's own test suite run with the recorder (verif_trace_test.go), every recorded New / Exec call whose
// text translates into the specification's AST validated stage by stage against EngineTrace (internal/h repotests.go)
func repo(filter string) legCfg {
	return legCfg{Kind: "trace", Name: "repotests", Module: "EngineTrace", TraceN: 1, TraceFiles: 1, Timeout: 10 * time.Minute, WorkerArgs: []string{"-gen", "REPO:" + filter}}
}

// wide: select lists of 1100-1300 distinct columns (more distinct selector texts in one statement than a bounded cache holds)
func wide(n, files int) legCfg {
	return legCfg{Kind: "trace", Name: "wide", Module: "EngineTrace", TraceN: n, TraceFiles: files, Timeout: 15 * time.Minute, WorkerArgs: []string{"-gen", "WIDE"}}
}

func tr(name, module string, n, files int) legCfg {
	return legCfg{Kind: "trace", Name: name, Module: module, TraceN: n, TraceFiles: files, Timeout: 10 * time.Minute}
}

var props = map[string]*propCfg{
	"C01": {
		ID: "C01", Level: "model_checking", Exhaustive: true,
		Rule:        "TLC enumerates every table (<= MaxRows rows per column family: numeric, string, boolean/nullable, two numeric columns, IN-subquery) x every predicate of the family's grammar (comparisons, IN / NOT IN lists, BETWEEN, LIKE patterns, IS, NOT / AND / OR combinations, De Morgan pairs); each case is replayed as SELECT * FROM t WHERE p and the row sequence compared. Leg T adds seeded random tables (0-8 rows, 5 typed columns) x predicates to depth 5, validated event by event against EngineTrace. A case is non-trivial when the predicate keeps some but not all rows; distinct = distinct (table, predicate) pairs. Leg T also validates the repository's own test suite: run with the recorder behind the verif tag, each New / Exec call of the tests whose query text translates into the specification's AST (and each recorded input the tests never execute, executed by the harness) is checked stage by stage against EngineTrace. Round 4: every case of the numeric family once more with its numbers renamed in order to float64 neighbours one unit in the last place apart and to the integers just below 2^53 (an order embedding leaves the meaning of comparisons unchanged), compared exactly; NOT IN over a subquery; every case once more with equal parts of the document being one Go value.",
		Assumptions: baseAssumptions,
		Quick:       []legCfg{mc("where", "MC_C01", "C01_quick.cfg", 10*time.Minute), tr("where", "EngineTrace", 400, 4), repo("where")},
		Thorough:    []legCfg{mc("where", "MC_C01", "C01_thorough.cfg", 40*time.Minute), mc("deep", "MC_C01", "C01_deep.cfg", 40*time.Minute), tr("where", "EngineTrace", 2500, 12), repo("where")},
	},
	"C05": {
		ID: "C05", Level: "model_checking", Exhaustive: true,
		Rule:        "TLC enumerates (a) every table of <= MaxRows rows over a numeric, a string and a nullable column x every key list (1 key incl. the nullable one, 2 keys, all ASC/DESC mixes, also on an aliased output column) x three windows, and (b) every table of <= MaxWin position-identified rows x {no order, ASC, DESC} x every (limit, offset) pair from {0,1,2,3,5} x {absent,0,1,2,4,6} in both LIMIT spellings. Each case is replayed: the key-tuple sequence must equal the specification's, the rows must be a permutation, and a windowed result must be exactly the window of the engine's own ordered sequence. Leg T: seeded random tables (0-10 rows, 4 columns), 1-3 keys, limits/offsets 0-11, validated event by event (OrderOK, window). Non-trivial: sorting changes the sequence or the window cuts it; distinct = distinct (table, query) pairs. Leg T also validates the repository's own test suite: run with the recorder behind the verif tag, each New / Exec call of the tests whose query text translates into the specification's AST (and each recorded input the tests never execute, executed by the harness) is checked stage by stage against EngineTrace. Round 4: counts 8-11 on a 12-row table, every windowed case also with zero-padded counts, and every case without arithmetic with its numbers embedded in order into int64 values above 2^53 and float64 neighbours (compared exactly with the embedded result of the plain run).",
		Assumptions: baseAssumptions,
		Quick:       []legCfg{mc("order", "MC_C05", "C05_quick.cfg", 10*time.Minute), tr("order", "EngineTrace", 300, 4), mix(200, 3), repo("order")},
		Thorough:    []legCfg{mc("order", "MC_C05", "C05_thorough.cfg", 40*time.Minute), tr("order", "EngineTrace", 2000, 12), mix(1500, 12), repo("order")},
	},
	"C02": {
		ID: "C02", Level: "model_checking", Exhaustive: true,
		Rule:        "TLC enumerates (a) one aliased expression per case from the grammar: 10 atoms (columns a, b, nested n.p, a missing key, constants 0 1 2 3 -1 1/2), every binary operator (+ - * / DIV % & | ^ << >>) and unary operator (- ~ !) over all atom pairs, depth-2 trees over a core set, CASE WHEN with 1-2 arms with/without ELSE, on every 1-row (thorough: also 2-row) table drawn from 5 rows incl. a NULL operand, keeping only inputs whose meaning the statement fixes (no division by zero etc.); (b) every select list of 1-3 items from 9 items (star, bare / aliased columns, nested path, missing key, expressions, a literal, clashing names) x every table of <= MaxRows rows x {no WHERE, WHERE}. Each case is replayed and the exact row sequence (key sets and values) compared. Leg T: seeded random tables (0-6 rows) x select lists of 1-4 items with trees to depth 5. Non-trivial: at least one output row and not a lone bare column / literal; distinct = distinct (table, query) pairs. Leg T also validates the repository's own test suite: run with the recorder behind the verif tag, each New / Exec call of the tests whose query text translates into the specification's AST (and each recorded input the tests never execute, executed by the harness) is checked stage by stage against EngineTrace. A further trace leg projects 1100-1300 distinct columns in one select list (any number of items: more distinct column selectors than a bounded cache holds). Round 4: CASE arms that would fail if evaluated although not taken; FUSE items (the keys of an object blended into the row, with and without prefix, before and after items of the same name, next to a star); driver bignum evaluates the definitions of Arith with math/big on 22 operand pairs TLC cannot hold (+ - * /: nearest float64; %: exact).",
		Assumptions: append([]string{"numbers are compared exactly when the expected value is dyadic, otherwise within 1e-12 relative (IEEE rounding of the engine's float64 arithmetic against the specification's exact rationals)"}, baseAssumptions...),
		Quick:       []legCfg{mc("proj", "MC_C02", "C02_quick.cfg", 10*time.Minute), tr("proj", "EngineTrace", 300, 4), mix(200, 3), repo("all"), wide(2, 1), {Kind: "exec", Name: "bignum", Mode: "bignum", Timeout: 2 * time.Minute}},
		Thorough:    []legCfg{mc("proj", "MC_C02", "C02_thorough.cfg", 40*time.Minute), tr("proj", "EngineTrace", 2000, 12), mix(1500, 12), repo("all"), wide(3, 3), {Kind: "exec", Name: "bignum", Mode: "bignum", Timeout: 2 * time.Minute}},
	},
	"C03": {
		ID: "C03", Level: "model_checking", Exhaustive: true,
		Rule:        "TLC enumerates every table of <= MaxRows rows drawn from a pool of rows with two plain grouping columns, a grouping column holding NULL and values of different kinds with equal %v text, a numeric column and a numeric column with NULLs x 5 grouping column sets x 7 select lists (COUNT(*), SUM on two columns, MIN/MAX, AVG/COUNT(col), aggregates only, star, aggregates before columns) x 5 WHERE/HAVING combinations, plus the no-GROUP-BY family: 4 all-aggregate select lists x 5 WHERE predicates incl. one no row passes. Each case is replayed several times in fresh queries and the exact output sequence compared. Leg T: seeded random tables (0-10 rows) x 1-3 grouping columns x 1-4 aggregates x WHERE/HAVING. Non-trivial: >= 2 groups (grouped) or a WHERE that keeps some but not all rows (whole-table); distinct = distinct (table, query) pairs. Leg T also validates the repository's own test suite: run with the recorder behind the verif tag, each New / Exec call of the tests whose query text translates into the specification's AST (and each recorded input the tests never execute, executed by the harness) is checked stage by stage against EngineTrace.",
		Assumptions: baseAssumptions,
		Quick:       []legCfg{mc("group", "MC_C03", "C03_quick.cfg", 10*time.Minute), tr("group", "EngineTrace", 300, 4), mix(200, 3), repo("group")},
		Thorough:    []legCfg{mc("group", "MC_C03", "C03_thorough.cfg", 60*time.Minute), tr("group", "EngineTrace", 2000, 12), mix(1500, 12), repo("group")},
	},
	"C06": {
		ID: "C06", Level: "model_checking", Exhaustive: true,
		Rule:        "TLC enumerates (a) SELECT DISTINCT over every table of <= MaxRows rows from a pool of 7 rows whose textual fingerprints coincide although the rows differ ({a:'x b:y'} / {a:'x',b:'y'}, 1 / '1', missing / NULL) x 4 select lists x 3 windows; (b) two-branch unions over every pair of tables of <= MaxBranch rows x {UNION, UNION ALL} x 4 windows x {plain, filtered right branch}; (c) three-branch chains over every triple of tables x all four UNION / UNION ALL mixes x 2 windows. Each case is replayed and the exact row sequence compared. Leg T: seeded random 1-4 branch chains over tables of 0-6 rows, DISTINCT branches, LIMIT/OFFSET. Non-trivial: the un-deduplicated result contains a duplicate row; distinct = distinct (document, query) pairs. Round 4: the largest counts behind an offset on unions; rows reaching one array / object by two routes under DISTINCT.",
		Assumptions: baseAssumptions,
		Quick:       []legCfg{mc("distinct", "MC_C06", "C06_quick.cfg", 10*time.Minute), tr("distinct", "EngineTrace", 300, 4), mix(200, 3), {Kind: "exec", Name: "volume", Mode: "volume", Timeout: 20 * time.Minute}},
		Thorough:    []legCfg{mc("distinct", "MC_C06", "C06_thorough.cfg", 40*time.Minute), tr("distinct", "EngineTrace", 2000, 12), mix(1500, 12), {Kind: "exec", Name: "volume", Mode: "volume", Timeout: 20 * time.Minute}},
	},
	"C15": {
		ID: "C15", Level: "model_checking", Exhaustive: true,
		Rule:        "TLC enumerates every ordered pair over the domain: every Go numeric kind of the run x every one of 31 boundary points it represents exactly (-2^53 .. 2^53: negatives, zero, halves, min/max of the narrow kinds and their neighbours) plus 13 strings (empty, numeric-looking, prefixes of each other, the %v text of 2147483647 as an integer kind and as a float kind); triples by quantifying over the third value in the invariants. Every pair is exported; the harness builds the real Go values, checks the specification's %v text against fmt, calls compare.Compare, runs the six comparison operators of WHERE on a natively typed row, ORDER BY in both directions on the two values (pairs that are not equal), IN over the other value and an equi-join of two one-row tables (joined iff cmp = 0). Non-trivial: operands of different numeric kinds, or a string operand; distinct = distinct ordered pairs. Round 4: points 2^63, 2^64 - 2048 and the largest float32.",
		Assumptions: append([]string{"float64 holds every point of the domain exactly (|x| <= 2^53): 'within the exactly-representable range' of the statement"}, baseAssumptions...),
		Quick:       []legCfg{mc("pairs", "MC_C15", "C15_quick.cfg", 10*time.Minute), {Kind: "exec", Name: "floats", Mode: "floats", Timeout: 5 * time.Minute}},
		Thorough:    []legCfg{mc("pairs", "MC_C15", "C15_thorough.cfg", 30*time.Minute), {Kind: "exec", Name: "floats", Mode: "floats", Timeout: 5 * time.Minute}},
	},
	"C18": {
		ID: "C18", Level: "model_checking", Exhaustive: true,
		Rule:        "TLC enumerates call expressions over a value domain of 16 scalars (NULL, booleans, integers, a fraction, strings incl. empty, numeric-looking and non-ASCII) and 7 arrays (empty, flat, nested two and three levels, with NULLs): every unary function x every value; ELEMENTAT x arrays x indices -1..4 and non-numeric indices; ARRAY / CONCAT x all argument tuples of length 0-2 (thorough 0-3); IF x {true,false,NULL} x value pairs; CHANGETYPE x scalars x 6 type names incl. upper-case and unknown, plus string->double/integer round trips; DATERANGE; CONSTANT x known/unknown keys x configured/not; ENCODE x 5 base names; DECODE(ENCODE(v,b),b') x same / unknown base; DECODE of garbage; HASH x 6 algorithm names; every fixed-arity function x 0-3 arguments. Each case is executed FROM dual, FROM a one-row table, (scalar arguments) with literal arguments, inside a CTE body, a derived table and both sides of a UNION ALL, and FROM a two-row table whose second row holds the rotated arguments (the specification exports that row's value too: a call is a function of its own row's arguments); values, errors, opaque-text shape (hex length) and purity (same specification value -> same text, across cases) are compared. Every case counts as non-trivial; distinct = distinct (expression, arguments, constants).",
		Assumptions: append([]string{"ENCODE / HASH are uninterpreted in the specification: bit patterns of base64 / base32 / hex / SHA are not modelled, only round trip, purity and length"}, baseAssumptions...),
		Quick:       []legCfg{mc("builtins", "MC_C18", "C18_quick.cfg", 10*time.Minute), {Kind: "exec", Name: "bigroundtrip", Mode: "bigroundtrip", Timeout: 5 * time.Minute}},
		Thorough:    []legCfg{mc("builtins", "MC_C18", "C18_thorough.cfg", 30*time.Minute), {Kind: "exec", Name: "bigroundtrip", Mode: "bigroundtrip", Timeout: 5 * time.Minute}},
	},
	"C20": {
		ID: "C20", Level: "model_checking", Exhaustive: true,
		Rule:        "TLC explores the SETVAR / GETVAR state machine (Vars.tla, one action per call) for every select list of 1..MaxItems items drawn from 11 items (SETVAR of a column / a literal / GETVAR(k')+column for 2 keys, GETVAR of each key, a plain column) x every table of 0..MaxRows rows x {empty map, map with k1 preset}, alone and followed by one of 3 second queries sharing the map; the register law is checked on the call history in every state. Every terminal behaviour is exported and replayed: rows and the caller's map are compared after every query. Leg T: seeded histories of 1-4 queries x 1-6 items x 0-6 rows over 3 keys with wrappers around the real SETVAR / GETVAR logging one event per call, validated against VarsTrace. Non-trivial: at least two calls; distinct = distinct (program, initial map). Round 4: every history once more with the registers named by numbers whose %v text is in exponent form.",
		Assumptions: append([]string{"the trace leg re-registers setvar / getvar as logging wrappers around the library's exported SetVarFunc / GetVarFunc; the replay leg uses the library's own registration"}, baseAssumptions...),
		Quick:       []legCfg{mc("vars", "MC_C20", "C20_quick.cfg", 10*time.Minute), {Kind: "trace", Name: "vars", Module: "VarsTrace", TraceN: 150, TraceFiles: 4, Timeout: 10 * time.Minute, CallEv: "start", APIKinds: []string{"api", "vars", "set", "get"}}},
		Thorough:    []legCfg{mc("vars", "MC_C20", "C20_thorough.cfg", 40*time.Minute), {Kind: "trace", Name: "vars", Module: "VarsTrace", TraceN: 800, TraceFiles: 12, Timeout: 20 * time.Minute, CallEv: "start", APIKinds: []string{"api", "vars", "set", "get"}}},
	},
	"C09": {
		ID: "C09", Level: "model_checking", Exhaustive: true,
		Rule:        "TLC enumerates documents {a: V, 'c.d': W} for 12 values V (scalars, NULL, objects, empty / flat / object / 2-D ragged / 3-D ragged / mixed arrays) x selectors `a` followed by up to Depth-1 (plus a reduced set of Depth) steps from 39 steps (keys incl. missing, 23 index lists with each / indices in and out of range / ranges with begin, end, inverted and overlong bounds, 7 keep=> lists, 5 pipes incl. conversions and an unknown type), with mix=> / distinct=> / an unknown function, with :: continuation, and through a quoted key and a missing root key. Every case: ExecReader on a fresh copy - value or error as the specification says, no panic, document deep-equal afterwards; object-array results also as the FROM path of a query; plus two byte-level mutations of the text (no panic, document untouched only). Non-trivial: a non-NULL value; distinct = distinct (document, selector). Round 4: indices and range bounds in 2^63 .. 2^64 directly on the value of the case: an error, never a value or a panic.",
		Assumptions: baseAssumptions,
		Quick:       []legCfg{mc("selectors", "MC_C09", "C09_quick.cfg", 10*time.Minute)},
		Thorough:    []legCfg{mc("selectors", "MC_C09", "C09_thorough.cfg", 30*time.Minute)},
	},
	"C07": {
		ID: "C07", Level: "model_checking", Exhaustive: true,
		Rule:        "TLC enumerates documents (t: <= MaxRows rows with a numeric, a grouping column and a nested array of <= MaxNest objects; u: 0-2 rows) x query families: 7 inner queries (star, filter, GROUP BY with aggregates, ORDER BY + LIMIT, DISTINCT, computed column, empty) x 7 outer queries over the CTE; the same inners as aliased derived tables x 6 alias-qualified outers; CTE chains c -> d -> outer; a CTE referenced twice (source and <- IN subquery); a CTE read through a path selector c[0].n; 10 subquery shapes (select-list subquery plain / filtered / aggregate / rooted at <- / correlated through <-, IN subquery, EXISTS with and without an outer-column reference, NOT EXISTS, EXISTS AND ...). The invariant ComposedIsStaged compares RunQ with explicit materialise-then-run on the specification. Each case is replayed three ways: composed (= exported result), staged with the real engine (every CTE / derived table executed alone, result deep-copied into a plain document, outer query run over it), and select-list subqueries standalone on each kept row. Non-trivial: non-empty result; distinct = distinct (document, query). Round 4: every case with CTEs once more with the CTEs renamed to keyword-like words; EXISTS reaching the outer row through the outer table alias; CTEs, derived tables and row-scoped subqueries over dual.",
		Assumptions: baseAssumptions,
		Quick:       []legCfg{mc("compose", "MC_C07", "C07_quick.cfg", 10*time.Minute), tr("compose", "EngineTrace", 250, 4), mix(200, 3)},
		Thorough:    []legCfg{mc("compose", "MC_C07", "C07_thorough.cfg", 40*time.Minute), tr("compose", "EngineTrace", 1500, 12), mix(1500, 12)},
	},
	"C08": {
		ID: "C08", Level: "model_checking", Exhaustive: true,
		Rule:        "TLC enumerates documents {m: array of arrays}: depth 2 with 1..MaxOuter inner arrays of 0..MaxLeaf rows each (ragged, empty inner arrays) and depth 3 (arrays of arrays of 0-1-row arrays), rows from LeafVals values, x 4 WHERE predicates x 4 select lists (star, column, a+1 AS b which would reveal a second projection, alias + missing column) x {FROM m, FROM mix=>m}. The invariants state the nested result as 'the flat query inside every innermost array' and the mix=> result as the concatenation. Each case is replayed: nested result = exported; the flat query is run for real on every innermost array alone and compared with the corresponding part; mix=> = concatenation of those runs. Non-trivial: at least two innermost arrays and a non-empty overall result; distinct = distinct (document, query). Round 4: a column written with the table name in front, the direct run also under the table name itself, equal inner arrays as one Go slice.",
		Assumptions: baseAssumptions,
		Quick:       []legCfg{mc("nested", "MC_C08", "C08_quick.cfg", 10*time.Minute), tr("nested", "EngineTrace", 250, 4)},
		Thorough:    []legCfg{mc("nested", "MC_C08", "C08_thorough.cfg", 40*time.Minute), tr("nested", "EngineTrace", 1500, 12)},
	},
	"C19": {
		ID: "C19", Level: "fault_enumeration", Exhaustive: true,
		Rule:        "TLC enumerates 31 query shapes - the fault-injecting function boom(x) (identity unless told to fail) in WHERE, select list, both, a CASE arm, HAVING, a CTE body, a derived table, a derived table used as a join side, a row-scoped select-list subquery, an IN subquery, EXISTS, the left / right UNION branch, an inner dimension of a multi-dimensional FROM, two levels deep (subquery inside a CTE body), an IN list, BETWEEN bounds, a function argument, a grouped select list, DISTINCT + ORDER BY + LIMIT, a boolean probe in the ON of an inner and of a left join; RAISE_WHEN / RAISE firing on some row; type errors in select list, WHERE, a CTE body and a subquery; panicking, ill-typed and raising operands of a comparison - x every table of 1..MaxRows rows (with nested arrays), and gives the fault-free meaning. Per case and per option setting (plain / Wrapped) the harness runs fault-free (result must equal the exported one; the number N of boom invocations is measured), then once for every k in 1..N with the k-th invocation failing: New/Exec must report an error and return no rows, the same statement re-run on the same document object must return the fault-free result and SELECT * FROM t x must return the untouched rows; self-failing shapes must fail and leave a follow-up query correct. Non-trivial: at least one boom invocation; distinct = distinct (document, shape).",
		Assumptions: append([]string{"inside a join's ON only a bare boolean function call can be placed next to the column comparisons (a comparison with a function operand is rejected by the engine); that and a failing derived table used as a join side cover the join position"}, baseAssumptions...),
		Quick:       []legCfg{mc("faults", "MC_C19", "C19_quick.cfg", 10*time.Minute)},
		Thorough:    []legCfg{mc("faults", "MC_C19", "C19_thorough.cfg", 30*time.Minute)},
	},
	"C11": {
		ID: "C11", Level: "model_checking", Exhaustive: true,
		Rule:        "Markers.tla models what a query writes into the caller's document (the <- back-reference per row with nesting, CTE entries, the EXISTS row extension) with a failure possible at every step; TLC checks DocRestored on all behaviours (3 rows, nesting depth 3) and, as a non-vacuity audit, that each of the four repaired deviations of the pinned tree violates it or RowsUntouched. Binding: every case of the fault-shape module MC_C19 (26 shapes with the fault-injecting function in every clause position x tables) is run fault-free and with the k-th invocation failing for every k, plain and Wrapped, and reduced configurations of the families of C01 (filters, IN subquery), C03 (GROUP BY), C05 (ORDER BY / LIMIT), C06 (DISTINCT / UNION), C07 (CTEs, derived tables, subqueries, EXISTS) and C08 (multi-dimensional FROM) are run plain and Wrapped; after every New + Exec - successful or failed, and after a follow-up statement - the caller's document is compared with a deep copy taken before (cycle-safe: no added / removed key at any depth, no changed array element). Non-trivial: the query contains a subquery, EXISTS, CTE, derived table, join, ORDER BY, aggregate or an injected fault; distinct = distinct (document, query). A driver runs 51 statement texts the query AST does not cover (FUSE, DEFAULTKEY, GROUP BY on nested paths, aliased dual, selectors with ranges / pipes / keep / mix in FROM, INTO and USING joins, outer joins over unaliased tables, UNION with ORDER BY, ASYNC / ONCE calls ...) on one rich document, as built, as decoded by encoding/json and with a second Exec of the same Query, and compares the document afterwards: the invariant needs no model of their results.",
		Assumptions: baseAssumptions,
		Quick: []legCfg{
			{Kind: "mc", Name: "markers", Module: "Markers", Cfg: "Markers_ok.cfg", Timeout: 5 * time.Minute, TLCWorkers: 4, NoExport: true},
			{Kind: "mc", Name: "dev-row", Module: "Markers", Cfg: "Markers_dev_MarkerInCallerRow.cfg", Timeout: 5 * time.Minute, TLCWorkers: 1, NoExport: true, Expect: "RowsUntouched"},
			{Kind: "mc", Name: "dev-post", Module: "Markers", Cfg: "Markers_dev_PostProcessorCleanup.cfg", Timeout: 5 * time.Minute, TLCWorkers: 1, NoExport: true, Expect: "DocRestored"},
			{Kind: "mc", Name: "dev-cte", Module: "Markers", Cfg: "Markers_dev_CteInCallerMap.cfg", Timeout: 5 * time.Minute, TLCWorkers: 1, NoExport: true, Expect: "DocRestored"},
			{Kind: "mc", Name: "dev-exists", Module: "Markers", Cfg: "Markers_dev_ExistsInPlace.cfg", Timeout: 5 * time.Minute, TLCWorkers: 1, NoExport: true, Expect: "DocRestored"},
			mc("faults", "MC_C19", "C19_quick.cfg", 10*time.Minute),
			mc("compose", "MC_C07", "C11_C07.cfg", 10*time.Minute),
			mc("where", "MC_C01", "C11_C01.cfg", 10*time.Minute),
			mc("group", "MC_C03", "C11_C03.cfg", 10*time.Minute),
			mc("order", "MC_C05", "C11_C05.cfg", 10*time.Minute),
			mc("distinct", "MC_C06", "C11_C06.cfg", 10*time.Minute),
			mc("nested", "MC_C08", "C11_C08.cfg", 10*time.Minute),
			mc("project", "MC_C02", "C11_C02.cfg", 10*time.Minute),
			{Kind: "exec", Name: "texts", Mode: "texts", Timeout: 5 * time.Minute},
		},
	},
	"C12": {
		ID: "C12", Level: "model_checking", Exhaustive: true,
		Rule:        "TLC enumerates the matrix of 27 expression forms (column, nested path, missing key, number / string / boolean / NULL literals, + / % ~ -, CASE with and without ELSE, CONCAT, ARRAY, IF, FIRST, TO_UPPER, UNWIND, object and array columns, select-list subquery plain and aggregate, ASYNC and SCOPED calls, nested calls) x 8-11 clause positions (select item, next to *, WHERE operand, CASE arm, function argument, IF argument, HAVING, DISTINCT, ORDER BY key, comparison operand, IN list) plus 17 statement-level forms (GROUP BY aggregates, group star, whole-table aggregates, CTE, derived table, UNION, EXISTS, IN subquery, ORDER BY + LIMIT/OFFSET, SPIN / SPINASYNC, several ASYNC items) x tables of 1..MaxRows rows, and checks that the specification's results are plain values and a function of (query, document). Each case is executed: reflection walk of the real result (only maps, slices, strings, booleans, nil, Go numbers that are finite; no pointer, func, named engine type, cycle, \"<-\" key), encoding/json round trip, and repetitions on equal inputs (2; 5 when ORDER BY leaves ties; 8 with ASYNC calls or NULL join keys): the identical sequence, or - only when grouping or a join is involved and ORDER BY does not determine a total order - the equal multiset. Statement forms include DISTINCT + ORDER BY with ties (with and without LIMIT) and joins on a table whose key is NULL / missing in some rows. Non-trivial: a non-empty successful result; distinct = distinct (document, query). Round 4: joins cut by a LIMIT without ORDER BY (the same rows on every evaluation), FROM dual at the top and in row-scoped subqueries, and driver texts: 42 statement texts outside the AST (dual under a WITH, derived tables with ASYNC items on both sides of a join, tuples, FUSE, arithmetic beyond the largest float64, CHANGETYPE of NaN / Inf ...) as built and as decoded by encoding/json - plain by reflection and JSON round trip (or an error where the text says so), equal on six repetitions and on a second Exec of the same Query.",
		Assumptions: baseAssumptions,
		Quick:       []legCfg{mc("matrix", "MC_C12", "C12_quick.cfg", 10*time.Minute), {Kind: "exec", Name: "texts", Mode: "texts", Timeout: 5 * time.Minute}},
		Thorough:    []legCfg{mc("matrix", "MC_C12", "C12_thorough.cfg", 30*time.Minute), mc("compose", "MC_C07", "C11_C07.cfg", 10*time.Minute), mc("group", "MC_C03", "C11_C03.cfg", 10*time.Minute), {Kind: "exec", Name: "texts", Mode: "texts", Timeout: 5 * time.Minute}},
	},
	"C04": {
		ID: "C04", Level: "model_checking", Exhaustive: true,
		Rule:        "TLC enumerates every pair of tables of 0..MaxRows rows (quick: <= 1 row per side with all 50 ON expressions and <= 2 rows with a core of 7; thorough: <= 2 rows with all 50 and <= 3 rows with the core) (two join columns per side - a number and a string - whose names sort differently on the two sides, duplicate keys, with Wide strings containing the key-text separator, with Big the numeric keys 2^24 and 2^24 + 1; Many: two pairs of fixed long tables with 37 / 40 against 35 / 33 partly overlapping keys) x 50 ON expressions (every comparison operator in both orientations on the numeric pair, =, !=, < on the string pair, AND / OR of two comparisons in either order and orientation, one column compared twice) x {INNER, LEFT, RIGHT}, and checks that the operational models of the hash join and of the nested loop (Joins.tla) are bag-equal to the textbook join for every strategy Join.Exec can choose. Each case is executed under every spelling of the strategy (JOIN, INNER JOIN, HASH_JOIN, STRAIGHT_JOIN, PARALLEL JOIN, PARALLEL HASH_JOIN, PARALLEL STRAIGHT_JOIN; LEFT / RIGHT x {JOIN, HASH_JOIN, PARALLEL JOIN, PARALLEL HASH_JOIN}; PARALLEL ones three times; every run once more with the left side's numeric keys held as Go ints against float64 on the right - and every other right row an int as well, so that one side holds the same number under two Go types) and the result compared as a multiset with the exported textbook result. Non-trivial: non-empty join result; distinct = distinct (tables, ON, type). Round 4: every case also with the aliases renamed to t / t2, t2 / t, orders / ord; driver volume instantiates HashCore on two tables of 560 000 (thorough 1 100 000) rows with pairwise distinct keys per side (closed-form result: one pair per common key, plus one NULL-extended row per other left key in a left join) with float64, int and (thorough) string keys.",
		Assumptions: baseAssumptions,
		Quick:       []legCfg{mc("allons", "MC_C04", "C04_quick.cfg", 15*time.Minute), mc("rows2", "MC_C04", "C04_quick2.cfg", 15*time.Minute), mc("wide", "MC_C04", "C04_wide.cfg", 15*time.Minute), mc("big2", "MC_C04", "C04_big2.cfg", 15*time.Minute), mc("many", "MC_C04", "C04_many.cfg", 15*time.Minute), tr("joins", "EngineTrace", 250, 4), {Kind: "exec", Name: "volume", Mode: "volume", Timeout: 20 * time.Minute}, {Kind: "exec", Name: "keytext", Mode: "keytext", Timeout: 10 * time.Minute}},
		Thorough:    []legCfg{mc("joins", "MC_C04", "C04_full2.cfg", 30*time.Minute), mc("wide", "MC_C04", "C04_wide.cfg", 15*time.Minute), mc("big", "MC_C04", "C04_big.cfg", 15*time.Minute), mc("big2", "MC_C04", "C04_big2.cfg", 15*time.Minute), mc("many", "MC_C04", "C04_many.cfg", 15*time.Minute), mc("rows3", "MC_C04", "C04_thorough.cfg", 90*time.Minute), tr("joins", "EngineTrace", 1500, 12), {Kind: "exec", Name: "volume", Mode: "volume", Timeout: 20 * time.Minute}, {Kind: "exec", Name: "keytext", Mode: "keytext", Timeout: 10 * time.Minute}},
	},
	"C14": {
		ID: "C14", Level: "model_checking", Exhaustive: true,
		Rule:        "TLC explores every interleaving of the main goroutine (one step per row) with the start / finish steps of every ASYNC, SPINASYNC and SPIN call for seven configurations (col+async on 3 rows; async+spinasync+sync, once+async+spin, async+col+async, a NULL-returning ONCE + async on 2 rows; spinasync+col and col+async inside a nested query whose wait group is chained to the outer one - replayed as a derived table, as a CTE body, as a derived table on the left and on the right side of a join, and as the left side of a join below the top level whose right side has ASYNC calls of its own; the top-level configurations also over a two-dimensional table; async+failing call+spinasync on 3 rows and spinasync+async+failing call on 2 rows, where an unqualified call fails the query at row 2; async+spinasync+once on 2 rows with an empty window, replayed as LIMIT 0 and as an OFFSET past the last row), checking at Return that every ASYNC / SPINASYNC call was invoked exactly once and completed, that values sit in their columns, that SPIN / SPINASYNC add no column and that ONCE ran once - and termination under fairness; after a failing row that every call the query got to has completed and none ran twice; four deviation configurations (wait group incremented inside the goroutine; outer query not chained to the nested wait group; a failed Exec returning without waiting; an Exec with an empty window returning without waiting) must violate AllCompleted. Every terminal behaviour is exported as a schedule and forced onto the real engine with gates inside the harness's own functions (the main goroutine is gated by an unqualified mark(a) placed first in the select list): Exec returning while a gated ASYNC / SPINASYNC call is still held is a violation, as are wrong invocation counts, rows or columns. Leg T: free-running goroutines with zero / skewed / random latencies on 2-6 rows, events recorded with a sequence number under one lock and validated against AsyncTrace (a 'ret' event is only enabled once the wait group has drained). Immediate functions under ASYNC / SPIN / SPINASYNC must be rejected: Registry.tla enumerates every history of <= 4 (thorough 6) registrations of two names as ordinary / immediate functions (ImmediateRejects, OrdinaryRuns, LatestWins; toggling on re-registration must violate ImmediateRejects) and each history is replayed on the process-wide registry, asking the engine after every registration (rejected without running the function / accepted with the unqualified call's value); the built-in immediate functions are driven directly. A driver executes a Query whose first Exec fails (a function failing on its first call) a second time: every ASYNC value of the second run in place. Non-trivial: every schedule and history; distinct = distinct schedules. Round 4: item kind oncearg - a ONCE call whose argument has a value on the first row only.",
		Assumptions: append([]string{"gates synchronise the goroutines, so forced schedules expose logical outcomes only; memory races are the race detector's job (C13)"}, baseAssumptions...),
		CaseTimeout: 60 * time.Second,
		Quick: []legCfg{
			{Kind: "mc", Name: "dev", Module: "MC_C14", Cfg: "C14_dev.cfg", Timeout: 5 * time.Minute, TLCWorkers: 1, NoExport: true, Expect: "AllCompleted"},
			{Kind: "mc", Name: "a", Module: "MC_C14", Cfg: "C14_a.cfg", Timeout: 10 * time.Minute, TLCWorkers: 4, Workers: 8},
			{Kind: "mc", Name: "d", Module: "MC_C14", Cfg: "C14_d.cfg", Timeout: 10 * time.Minute, TLCWorkers: 4, Workers: 8},
			{Kind: "mc", Name: "e", Module: "MC_C14", Cfg: "C14_e.cfg", Timeout: 10 * time.Minute, TLCWorkers: 4, Workers: 4},
			{Kind: "mc", Name: "f", Module: "MC_C14", Cfg: "C14_f.cfg", Timeout: 10 * time.Minute, TLCWorkers: 4, Workers: 4},
			{Kind: "mc", Name: "g", Module: "MC_C14", Cfg: "C14_g.cfg", Timeout: 10 * time.Minute, TLCWorkers: 4, Workers: 4},
			{Kind: "mc", Name: "h", Module: "MC_C14", Cfg: "C14_h.cfg", Timeout: 10 * time.Minute, TLCWorkers: 4, Workers: 8},
			{Kind: "mc", Name: "dev-nowait", Module: "MC_C14", Cfg: "C14_dev_nowait.cfg", Timeout: 5 * time.Minute, TLCWorkers: 1, NoExport: true, Expect: "AllCompleted"},
			{Kind: "mc", Name: "j", Module: "MC_C14", Cfg: "C14_j.cfg", Timeout: 10 * time.Minute, TLCWorkers: 4, Workers: 8},
			{Kind: "mc", Name: "k", Module: "MC_C14", Cfg: "C14_k.cfg", Timeout: 10 * time.Minute, TLCWorkers: 4, Workers: 8},
			{Kind: "mc", Name: "dev-empty", Module: "MC_C14", Cfg: "C14_dev_empty.cfg", Timeout: 5 * time.Minute, TLCWorkers: 1, NoExport: true, Expect: "AllCompleted"},
			{Kind: "mc", Name: "dev-nochain", Module: "MC_C14", Cfg: "C14_dev_nochain.cfg", Timeout: 5 * time.Minute, TLCWorkers: 1, NoExport: true, Expect: "AllCompleted"},
			{Kind: "mc", Name: "registry", Module: "Registry", Cfg: "Registry_quick.cfg", Timeout: 5 * time.Minute, TLCWorkers: 4, Workers: 4},
			{Kind: "mc", Name: "registry-dev", Module: "Registry", Cfg: "Registry_dev.cfg", Timeout: 5 * time.Minute, TLCWorkers: 1, NoExport: true, Expect: "ImmediateRejects"},
			{Kind: "exec", Name: "immediate", Mode: "immediate", Timeout: 2 * time.Minute},
			{Kind: "exec", Name: "retry", Mode: "retry", Timeout: 2 * time.Minute},
			{Kind: "exec", Name: "qualify", Mode: "qualify", Timeout: 5 * time.Minute},
			{Kind: "trace", Name: "latency", Module: "AsyncTrace", TraceN: 120, TraceFiles: 7, Timeout: 10 * time.Minute, CallEv: "begin"},
		},
		Thorough: []legCfg{
			{Kind: "mc", Name: "dev", Module: "MC_C14", Cfg: "C14_dev.cfg", Timeout: 5 * time.Minute, TLCWorkers: 1, NoExport: true, Expect: "AllCompleted"},
			{Kind: "mc", Name: "a", Module: "MC_C14", Cfg: "C14_a.cfg", Timeout: 10 * time.Minute, TLCWorkers: 4, Workers: 8},
			{Kind: "mc", Name: "b", Module: "MC_C14", Cfg: "C14_b.cfg", Timeout: 10 * time.Minute, TLCWorkers: 4, Workers: 8},
			{Kind: "mc", Name: "c", Module: "MC_C14", Cfg: "C14_c.cfg", Timeout: 10 * time.Minute, TLCWorkers: 4, Workers: 8},
			{Kind: "mc", Name: "d", Module: "MC_C14", Cfg: "C14_d.cfg", Timeout: 10 * time.Minute, TLCWorkers: 4, Workers: 8},
			{Kind: "mc", Name: "e", Module: "MC_C14", Cfg: "C14_e.cfg", Timeout: 10 * time.Minute, TLCWorkers: 4, Workers: 4},
			{Kind: "mc", Name: "f", Module: "MC_C14", Cfg: "C14_f.cfg", Timeout: 10 * time.Minute, TLCWorkers: 4, Workers: 4},
			{Kind: "mc", Name: "g", Module: "MC_C14", Cfg: "C14_g.cfg", Timeout: 10 * time.Minute, TLCWorkers: 4, Workers: 4},
			{Kind: "mc", Name: "h", Module: "MC_C14", Cfg: "C14_h.cfg", Timeout: 10 * time.Minute, TLCWorkers: 4, Workers: 8},
			{Kind: "mc", Name: "i", Module: "MC_C14", Cfg: "C14_i.cfg", Timeout: 20 * time.Minute, TLCWorkers: 4, Workers: 8},
			{Kind: "mc", Name: "dev-nowait", Module: "MC_C14", Cfg: "C14_dev_nowait.cfg", Timeout: 5 * time.Minute, TLCWorkers: 1, NoExport: true, Expect: "AllCompleted"},
			{Kind: "mc", Name: "j", Module: "MC_C14", Cfg: "C14_j.cfg", Timeout: 10 * time.Minute, TLCWorkers: 4, Workers: 8},
			{Kind: "mc", Name: "k", Module: "MC_C14", Cfg: "C14_k.cfg", Timeout: 10 * time.Minute, TLCWorkers: 4, Workers: 8},
			{Kind: "mc", Name: "dev-empty", Module: "MC_C14", Cfg: "C14_dev_empty.cfg", Timeout: 5 * time.Minute, TLCWorkers: 1, NoExport: true, Expect: "AllCompleted"},
			{Kind: "mc", Name: "dev-nochain", Module: "MC_C14", Cfg: "C14_dev_nochain.cfg", Timeout: 5 * time.Minute, TLCWorkers: 1, NoExport: true, Expect: "AllCompleted"},
			{Kind: "mc", Name: "registry", Module: "Registry", Cfg: "Registry_thorough.cfg", Timeout: 10 * time.Minute, TLCWorkers: 4, Workers: 4},
			{Kind: "mc", Name: "registry-dev", Module: "Registry", Cfg: "Registry_dev.cfg", Timeout: 5 * time.Minute, TLCWorkers: 1, NoExport: true, Expect: "ImmediateRejects"},
			{Kind: "exec", Name: "immediate", Mode: "immediate", Timeout: 2 * time.Minute},
			{Kind: "exec", Name: "retry", Mode: "retry", Timeout: 2 * time.Minute},
			{Kind: "exec", Name: "qualify", Mode: "qualify", Timeout: 5 * time.Minute},
			{Kind: "trace", Name: "latency", Module: "AsyncTrace", TraceN: 600, TraceFiles: 15, Timeout: 20 * time.Minute, CallEv: "begin"},
		},
	},
	"C13": {
		ID: "C13", Level: "model_checking", Race: true,
		Rule:        "Cache.tla: all interleavings of 3 goroutines x 2 selector texts (and of 4 goroutines x 3 texts with two re-entrant ones, 104 301 states; thorough: 5 goroutines, 1 158 564 states) through the cache protocol of ExecReader with map accesses as begin / end pairs (NoOverlap, OwnEntry, UnderLock, NoSelfDeadlock with a goroutine whose evaluation re-enters ExecReader to resolve a CTE, termination under fairness); the pinned read-after-unlock protocol must violate NoOverlap and holding the mutex during evaluation NoSelfDeadlock. CacheInd.tla: an inductive invariant of the protocol as coded (mutex held exactly between Lock and Unlock, open accesses = goroutines inside one, entries stay, nested calls only after Unlock) discharged by Apalache for 6 goroutines x 3 texts x every set of re-entrant goroutines - initiation, consecution over all IndInv states (reachable or not), and IndInv => the five invariants. Markers.tla (C11) adds RowsUntouched: a query writes nothing into the caller's rows at any time, which is what makes one document shareable. Binding: (T) the guarded hook in ExecReader reports every protocol step of every goroutine with the fact whether the cache mutex is held (TryLock); 2-8 free-running goroutines evaluate fresh and shared selector texts and the recorded sequence is validated against CacheTrace (lock only a free mutex, store / read only as holder, fact = held at every step). (X) 40 scenario classes - separate documents / one shared document; fresh / cached selector texts; filter, projection, select-list subquery, EXISTS, IN subquery, CTE, GROUP BY, ORDER BY, Wrapped, PARALLEL joins, ASYNC / SPINASYNC at top level, in a subquery and in a derived table, CTEs read through a path, one open-range selector text over arrays of different lengths, a lone * with and without ORDER BY / LIMIT / DISTINCT and an unaliased join on the shared document, and two cold classes (rounds of a RegisterImmediateFunction that has returned followed by concurrent first function calls, with the expectation written down instead of obtained from the library) - x 2..8 (thorough 2..16) goroutines x 60 (300) queries each, in a child process built with the race detector: every goroutine's result must equal the query's result when run alone, and a race report, a 'concurrent map' fatal error, a crash, a hang or a modified shared document is a violation. Non-trivial: every scenario run; distinct = distinct (scenario, goroutine count). Round 4 classes: one new statement text in every goroutine at the same time (USING joins, a WITH in front of a UNION), ASYNC / SPINASYNC calls whose arguments are subqueries, EXISTS inside the ON of PARALLEL joins.",
		Assumptions: append([]string{"the Go race detector and the process exit status are observation channels on the executions the scenario driver produces; races in code no scenario exercises are not seen", "goroutine schedules are those the Go scheduler produces during the runs (not enumerated)"}, baseAssumptions...),
		Quick: []legCfg{
			{Kind: "mc", Name: "cache", Module: "Cache", Cfg: "Cache_ok.cfg", Timeout: 5 * time.Minute, TLCWorkers: 4, NoExport: true},
			{Kind: "mc", Name: "cache-dev", Module: "Cache", Cfg: "Cache_dev.cfg", Timeout: 5 * time.Minute, TLCWorkers: 1, NoExport: true, Expect: "NoOverlap"},
			{Kind: "mc", Name: "cache-dev-eval", Module: "Cache", Cfg: "Cache_dev_evalunderlock.cfg", Timeout: 5 * time.Minute, TLCWorkers: 1, NoExport: true, Expect: "NoSelfDeadlock"},
			{Kind: "mc", Name: "cache-big", Module: "Cache", Cfg: "Cache_big.cfg", Timeout: 5 * time.Minute, TLCWorkers: 8, NoExport: true},
			{Kind: "apalache", Name: "cache-ind", Module: "CacheInd", TLCArgs: []string{"CInit", "CNext"}, Timeout: 5 * time.Minute},
			{Kind: "mc", Name: "rows", Module: "Markers", Cfg: "Markers_ok.cfg", Timeout: 5 * time.Minute, TLCWorkers: 4, NoExport: true},
			{Kind: "mc", Name: "rows-dev", Module: "Markers", Cfg: "Markers_dev_MarkerInCallerRow.cfg", Timeout: 5 * time.Minute, TLCWorkers: 1, NoExport: true, Expect: "RowsUntouched"},
			{Kind: "trace", Name: "cache", Module: "CacheTrace", TraceN: 40, TraceFiles: 4, Timeout: 10 * time.Minute, CallEv: "begin", APIKinds: []string{"lockfact", "protocol"}},
			{Kind: "exec", Name: "race", Mode: "race", Timeout: 20 * time.Minute},
		},
		Thorough: []legCfg{
			{Kind: "mc", Name: "cache", Module: "Cache", Cfg: "Cache_ok.cfg", Timeout: 5 * time.Minute, TLCWorkers: 4, NoExport: true},
			{Kind: "mc", Name: "cache-dev", Module: "Cache", Cfg: "Cache_dev.cfg", Timeout: 5 * time.Minute, TLCWorkers: 1, NoExport: true, Expect: "NoOverlap"},
			{Kind: "mc", Name: "cache-dev-eval", Module: "Cache", Cfg: "Cache_dev_evalunderlock.cfg", Timeout: 5 * time.Minute, TLCWorkers: 1, NoExport: true, Expect: "NoSelfDeadlock"},
			{Kind: "mc", Name: "cache-big", Module: "Cache", Cfg: "Cache_big.cfg", Timeout: 5 * time.Minute, TLCWorkers: 8, NoExport: true},
			{Kind: "mc", Name: "cache-huge", Module: "Cache", Cfg: "Cache_huge.cfg", Timeout: 15 * time.Minute, TLCWorkers: 12, NoExport: true},
			{Kind: "apalache", Name: "cache-ind", Module: "CacheInd", TLCArgs: []string{"CInit", "CNext"}, Timeout: 5 * time.Minute},
			{Kind: "mc", Name: "rows", Module: "Markers", Cfg: "Markers_ok.cfg", Timeout: 5 * time.Minute, TLCWorkers: 4, NoExport: true},
			{Kind: "mc", Name: "rows-dev", Module: "Markers", Cfg: "Markers_dev_MarkerInCallerRow.cfg", Timeout: 5 * time.Minute, TLCWorkers: 1, NoExport: true, Expect: "RowsUntouched"},
			{Kind: "trace", Name: "cache", Module: "CacheTrace", TraceN: 200, TraceFiles: 12, Timeout: 20 * time.Minute, CallEv: "begin", APIKinds: []string{"lockfact", "protocol"}},
			{Kind: "exec", Name: "race", Mode: "race", Timeout: 40 * time.Minute},
		},
	},
	"C16": {
		ID: "C16", Level: "model_checking", Exhaustive: true,
		Rule:        "Lexers.tla models the sanitizer (its lexer state by state, QuoteString) and the string / quoted-identifier / comment scanning of the MySQL-dialect tokenizer (backslash decoding as in scanStringSlow). TLC enumerates every argument string of length <= MaxLen over an adversarial alphabet (quote, backslash, double quote, dash, hash, star, slash, space, a letter, percent, NUL, a two-byte rune, newline, back quote) x templates with placeholders in literal positions - also next to $n inside a string literal containing an escaped quote, a back-quoted identifier, a back-quoted identifier ending in a backslash followed by a literal holding a back quote, a block comment, a # comment and a -- comment - and checks that the tokens of the sanitized text are the template's tokens with one string literal per placeholder whose decoded content is exactly the argument (Safe), that QuoteString followed by the tokenizer's scanning is the identity, that $0 / missing / unused arguments are errors. Every case is replayed: the real SanitizeSQL output must equal the specification's text, the real parser's AST of the sanitized text must have the shape of the template with a plain literal, and executing it must echo the argument. A driver adds int64, float64, bool and nil arguments and the arity errors. Non-trivial: the argument contains a character that is special for the sanitizer or the tokenizer; distinct = distinct (template, argument). Round 4: a template holding the replacement character U+FFFD itself.",
		Assumptions: append([]string{"non-finite floats (NaN, Inf) are outside the claim; []byte and time.Time arguments are not covered"}, baseAssumptions...),
		Quick:       []legCfg{mc("strings", "MC_C16", "C16_quick.cfg", 15*time.Minute), {Kind: "exec", Name: "kinds", Mode: "kinds", Timeout: 2 * time.Minute}},
		Thorough:    []legCfg{mc("strings", "MC_C16", "C16_thorough.cfg", 120*time.Minute), mc("deep", "MC_C16", "C16_deep.cfg", 120*time.Minute), mc("deep9", "MC_C16", "C16_deep9.cfg", 30*time.Minute), {Kind: "exec", Name: "kinds", Mode: "kinds", Timeout: 2 * time.Minute}},
	},
	"C17": {
		ID: "C17", Level: "model_checking", Exhaustive: true,
		Rule:        "Lexers.tla models DoubleQuotesToBackTick and FindArrayIndex / FixIdiomaticArray as coded next to the tokenizer model. TLC enumerates (a) token sequences of one to two quoted identifiers / single-quoted literals with every content of length <= MaxContent over {a, double quote, quote, back quote, backslash (literals only), [, ], space} in the double-quoted spelling and checks that the rewritten text is read by the tokenizer exactly like the back-quoted spelling (identifier and literal contents untouched); (b) every sequence of <= MaxBrTokens tokens over {[, ], a character, literals and identifiers containing brackets, quotes and a backslash} in the bracket spelling and checks that balanced ones become the ARRAY( ) spelling verbatim and unbalanced ones an error. Every text is replayed: the real rewriter's output must equal the specification's text (an error for unbalanced brackets, also through New: never a panic). End to end: reduced configurations of the C02 (projection), C12 (form x position matrix incl. ARRAY calls), C07 (CTEs / subqueries) and C01 families are executed under all 8 combinations of PostgresEscapingDialect / IdiomaticArrays / Wrapped, each rendered in the matching spelling (every identifier double-quoted, ARRAY as [ ], paths under root), and must return the exported result; Wrapped() is also compared with passing {root: input} explicitly. Non-trivial: every scanner case; engine cases with a non-empty result; distinct = distinct texts / (document, query). Round 4: double-quoted identifiers holding backslashes, statements with 15-33 brackets.",
		Assumptions: append([]string{"identifier contents containing a backslash are outside the claim: the double-quoted spelling has no unambiguous way to write them for DoubleQuotesToBackTick"}, baseAssumptions...),
		Quick: []legCfg{mc("scanners", "MC_C17", "C17_quick.cfg", 10*time.Minute), mc("proj", "MC_C02", "C17_C02.cfg", 10*time.Minute), mc("matrix", "MC_C12", "C12_quick.cfg", 10*time.Minute),
			mc("compose", "MC_C07", "C11_C07.cfg", 10*time.Minute)},
		Thorough: []legCfg{mc("scanners", "MC_C17", "C17_thorough.cfg", 30*time.Minute), mc("proj", "MC_C02", "C17_C02.cfg", 10*time.Minute), mc("matrix", "MC_C12", "C12_thorough.cfg", 10*time.Minute),
			mc("compose", "MC_C07", "C11_C07.cfg", 10*time.Minute), mc("where", "MC_C01", "C11_C01.cfg", 10*time.Minute)},
	},
	"C10": {
		ID: "C10", Level: "exploration",
		Rule:        "Contain.tla models one New + Exec call passing through its regions with a panic possible at every step in the API goroutine and in every background goroutine (strategy calls, PARALLEL join workers) and a re-entrant CTE resolution; TLC checks that the process survives, nothing escapes the API and the call returns, and that removing any one recover (or the CTE guard) violates that - the five deviation configurations are the pinned tree's gaps. Binding by exploration: TLC enumerates the matrix of 138 constructs (every unsupported / malformed / failing construct the property names and many more: joins without condition, chained unions, self- and mutually-referencing CTEs, unbalanced brackets, out-of-range FROM paths, PARALLEL joins and ASYNC / SPIN / SPINASYNC / ONCE calls whose function fails or panics with an error or a non-error value, panics inside CTE bodies / derived tables / subqueries, DISTINCT over a subquery plus *, CTEs over dual read with DISTINCT / UNION / ORDER BY, deep nesting, malformed and non-SELECT statements, NUL bytes, invalid UTF-8, ...) x all 8 combinations of Wrapped / PostgresEscapingDialect / IdiomaticArrays x {well-shaped, empty, wrong-shaped, wide (40 rows), grid (rows that are arrays)} documents; every cell is executed, followed by 6 (thorough: 60) seeded byte-level mutations of its text: New / Exec must return. A panic escaping the API is caught by the worker; a dying process (goroutine panic, fatal error, stack overflow) or a case exceeding its time limit is attributed to the cell by the orchestrator. Non-trivial: every cell; distinct = distinct (construct, options, document). Round 4: a value that contains itself (a CTE row that selected the <- back-reference) in every place that prints a value - WHERE / IN / BETWEEN / LIKE / CASE comparisons, join keys, CONCAT, CHANGETYPE, SUM, SETVAR keys, RAISE, a second ORDER BY key, GROUP BY.",
		Assumptions: append([]string{"'for all byte strings' is sampled: the exact matrix cells plus seeded mutations around them; inputs the harness does not run are not decided", "a hang is a case (the exact text and its mutations) that does not answer within 60 s (thorough: 240 s)"}, baseAssumptions...),
		Quick: []legCfg{
			{Kind: "mc", Name: "contain", Module: "Contain", Cfg: "Contain_ok.cfg", Timeout: 5 * time.Minute, TLCWorkers: 2, NoExport: true},
			{Kind: "mc", Name: "dev_new", Module: "Contain", Cfg: "Contain_dev_new.cfg", Timeout: 5 * time.Minute, TLCWorkers: 1, NoExport: true, Expect: "NothingEscapes"},
			{Kind: "mc", Name: "dev_post", Module: "Contain", Cfg: "Contain_dev_post.cfg", Timeout: 5 * time.Minute, TLCWorkers: 1, NoExport: true, Expect: "NothingEscapes"},
			{Kind: "mc", Name: "dev_strategy", Module: "Contain", Cfg: "Contain_dev_strategy.cfg", Timeout: 5 * time.Minute, TLCWorkers: 1, NoExport: true, Expect: "ProcessSurvives"},
			{Kind: "mc", Name: "dev_join", Module: "Contain", Cfg: "Contain_dev_join.cfg", Timeout: 5 * time.Minute, TLCWorkers: 1, NoExport: true, Expect: "ProcessSurvives"},
			{Kind: "mc", Name: "dev_cte", Module: "Contain", Cfg: "Contain_dev_cte.cfg", Timeout: 5 * time.Minute, TLCWorkers: 1, NoExport: true, Expect: "ProcessSurvives"},
			mc("matrix", "MC_C10", "C10_matrix.cfg", 30*time.Minute),
		},
	},
}
