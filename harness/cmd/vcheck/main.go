// vcheck: orchestrator of the model-based checks.
//
//	vcheck -p C01 -tier quick|thorough        run the check of one property
//	vcheck -p C01 -replay <file>              re-run one recorded failing case
//
// For a property it (1) rebuilds the worker from /repo's working tree with
// -tags verif, (2) runs TLC on the property's MC module: TLC checks the
// invariants on the specification and prints every terminal behaviour as a JSON
// line, which is streamed into worker processes that replay it against the real
// library (Leg M + Leg R), (3) lets the worker drive the real library on seeded
// random inputs beyond the exhaustive bounds while recording one event per
// specification action, and has TLC validate the recorded traces against the
// trace specification (Leg T), (4) applies KNOWN_FINDINGS, writes the evidence
// file and prints VIOLATION / KNOWN-FINDING lines.
//
// exit 0: everything explored conformed; 1: a reproduced real-code violation;
// 2: infrastructure trouble (never a verdict about the code).
package main

import (
	"bufio"
	"bytes"
	"encoding/json"
	"flag"
	"fmt"
	"io"
	"os"
	"os/exec"
	"path/filepath"
	"regexp"
	"sort"
	"strconv"
	"strings"
	"sync"
	"time"
)

// root of the verification tree: the directory above the one holding this binary
// (/verif for the registered checks; a snapshot directory under `vp run`)
var verifDir = "/verif"

type verdict struct {
	OK         bool     `json:"ok"`
	Kind       string   `json:"kind,omitempty"`
	Detail     string   `json:"detail,omitempty"`
	SQL        string   `json:"sql,omitempty"`
	Sig        []string `json:"sig,omitempty"`
	Nontrivial bool     `json:"nt,omitempty"`
	Key        string   `json:"key,omitempty"`
	Drift      string   `json:"drift,omitempty"`
	Execs      int      `json:"execs,omitempty"`
	Case       any      `json:"case,omitempty"`
	Leg        string   `json:"leg,omitempty"`
}

type finding struct {
	Property string
	ID       string
	Kinds    []string
	All      []string
	What     string
	hits     int
}

type result struct {
	mu          sync.Mutex
	evaluations int
	execs       int
	keys        map[string]bool // distinct non-trivial cases
	samples     []any
	failures    []verdict
	drift       []string
	driftN      int
	infra       []string
	states      int64
	transitions int64
	tlcRuns     []string
	traces      int
	traceEvents int
	traceSample []string
}

func (r *result) infraf(format string, a ...any) {
	r.mu.Lock()
	r.infra = append(r.infra, fmt.Sprintf(format, a...))
	r.mu.Unlock()
}

var (
	seed    int64 = 1
	tier          = "quick"
	scratch string
	workerB string
)

func env() []string {
	e := os.Environ()
	return append(e, "GOFLAGS=-mod=mod", "GOPROXY=off", "GOSUMDB=off", "GOTOOLCHAIN=local", "CGO_ENABLED="+cgo(), "VERIF_DIR="+verifDir)
}

var needRace bool

func cgo() string {
	if needRace {
		return "1"
	}
	return "0"
}

func main() {
	if exe, err := os.Executable(); err == nil {
		if d := filepath.Dir(filepath.Dir(exe)); fileExists(filepath.Join(d, "spec")) {
			verifDir = d
		}
	}
	prop := flag.String("p", "", "property id")
	tierF := flag.String("tier", "", "quick | thorough (default $VERIF_TIER or quick)")
	replay := flag.String("replay", "", "replay one recorded case file")
	flag.Parse()
	if s := os.Getenv("VERIF_SEED"); s != "" {
		if v, err := strconv.ParseInt(s, 10, 64); err == nil {
			seed = v
		}
	}
	if t := os.Getenv("VERIF_TIER"); t != "" {
		tier = t
	}
	if *tierF != "" {
		tier = *tierF
	}
	if tier != "quick" && tier != "thorough" {
		fmt.Println("unknown tier", tier)
		os.Exit(2)
	}
	cfg, ok := props[*prop]
	if !ok {
		fmt.Println("unknown property", *prop)
		os.Exit(2)
	}
	needRace = cfg.Race
	var err error
	scratch, err = os.MkdirTemp("", "vcheck-"+*prop+"-")
	if err != nil {
		fmt.Println(err)
		os.Exit(2)
	}
	code := 2
	defer func() {
		os.RemoveAll(scratch)
		os.Exit(code)
	}()
	start := time.Now()
	if err := buildWorker(cfg); err != nil {
		fmt.Println("INFRA: cannot build the worker from /repo:", err)
		return
	}
	res := &result{keys: map[string]bool{}}
	if *replay != "" {
		code = doReplay(cfg, *replay)
		return
	}
	for _, leg := range cfg.Legs(tier) {
		switch leg.Kind {
		case "mc":
			runMC(cfg, leg, res)
		case "apalache":
			runApalache(cfg, leg, res)
		case "trace":
			runTrace(cfg, leg, res)
		case "exec":
			runExec(cfg, leg, res)
		}
	}
	code = conclude(cfg, res, time.Since(start))
}

func fileExists(p string) bool {
	_, err := os.Stat(p)
	return err == nil
}

func buildWorker(cfg *propCfg) error {
	workerB = filepath.Join(scratch, "worker")
	args := []string{"build", "-tags", "verif", "-o", workerB}
	if cfg.Race {
		args = append(args, "-race")
	}
	args = append(args, "./cmd/worker")
	cmd := exec.Command("go", args...)
	cmd.Dir = filepath.Join(verifDir, "harness")
	cmd.Env = env()
	out, err := cmd.CombinedOutput()
	if err != nil {
		return fmt.Errorf("%v\n%s", err, out)
	}
	return nil
}

// ---- worker pool ---------------------------------------------------------------

type workerProc struct {
	cmd    *exec.Cmd
	in     io.WriteCloser
	out    *bufio.Reader
	stderr *bytes.Buffer
}

func startWorker(prop string, extra ...string) (*workerProc, error) {
	args := append([]string{"-p", prop, "-mode", "replay", "-tier", tier, "-seed", fmt.Sprint(seed)}, extra...)
	cmd := exec.Command(workerB, args...)
	cmd.Env = append(env(), "GORACE=halt_on_error=1 exitcode=66")
	in, _ := cmd.StdinPipe()
	outp, _ := cmd.StdoutPipe()
	w := &workerProc{cmd: cmd, in: in, out: bufio.NewReaderSize(outp, 1<<20), stderr: &bytes.Buffer{}}
	cmd.Stderr = w.stderr
	if err := cmd.Start(); err != nil {
		return nil, err
	}
	return w, nil
}

func (w *workerProc) stop() {
	w.in.Close()
	done := make(chan struct{})
	go func() { w.cmd.Wait(); close(done) }()
	select {
	case <-done:
	case <-time.After(5 * time.Second):
		w.cmd.Process.Kill()
		<-done
	}
}

// ask sends one case and waits for its verdict; a dead or silent worker yields a
// crash / hang verdict for exactly this case.
func (w *workerProc) ask(line []byte, timeout time.Duration) (verdict, bool) {
	if _, err := w.in.Write(append(line, '\n')); err != nil {
		return verdict{OK: false, Kind: "crash", Detail: "worker died: " + tail(w.stderr.String(), 1500)}, false
	}
	type rd struct {
		b   []byte
		err error
	}
	ch := make(chan rd, 1)
	go func() {
		b, err := w.out.ReadBytes('\n')
		ch <- rd{b, err}
	}()
	select {
	case r := <-ch:
		if r.err != nil {
			w.cmd.Wait()
			return verdict{OK: false, Kind: "crash", Detail: "process died while executing this case: " + tail(w.stderr.String(), 1500)}, false
		}
		var v verdict
		if err := json.Unmarshal(r.b, &v); err != nil {
			return verdict{OK: false, Kind: "harness", Detail: "bad verdict line: " + string(r.b)}, true
		}
		return v, true
	case <-time.After(timeout):
		w.cmd.Process.Kill()
		w.cmd.Wait()
		return verdict{OK: false, Kind: "hang", Detail: fmt.Sprintf("no answer within %v", timeout)}, false
	}
}

func tail(s string, n int) string {
	if len(s) > n {
		return "..." + s[len(s)-n:]
	}
	return s
}

// pool consumes case lines from ch with n workers.
func pool(cfg *propCfg, n int, ch <-chan []byte, res *result, leg string, extra ...string) {
	var wg sync.WaitGroup
	for i := 0; i < n; i++ {
		wg.Add(1)
		go func() {
			defer wg.Done()
			var w *workerProc
			defer func() {
				if w != nil {
					w.stop()
				}
			}()
			for line := range ch {
				if w == nil {
					var err error
					w, err = startWorker(cfg.ID, extra...)
					if err != nil {
						res.infraf("cannot start worker: %v", err)
						return
					}
				}
				v, alive := w.ask(line, cfg.caseTimeout())
				v.Leg = leg
				if !alive {
					w = nil
					if v.Case == nil {
						var c any
						json.Unmarshal(line, &c)
						v.Case = c
					}
				}
				res.add(v, line)
			}
		}()
	}
	wg.Wait()
}

func (r *result) add(v verdict, line []byte) {
	r.mu.Lock()
	defer r.mu.Unlock()
	r.evaluations++
	r.execs += v.Execs
	if v.Nontrivial && v.Key != "" {
		r.keys[v.Key] = true
	}
	if len(r.samples) < 3 && v.OK && v.Nontrivial && line != nil {
		var c map[string]any
		json.Unmarshal(line, &c)
		delete(c, "hist") // keep samples readable: input and expected output
		r.samples = append(r.samples, map[string]any{"sql": v.SQL, "case": c})
	}
	if v.Drift != "" {
		r.driftN++
		if len(r.drift) < 5 {
			r.drift = append(r.drift, v.SQL+" :: "+v.Drift)
		}
	}
	if !v.OK {
		if v.Kind == "harness" {
			r.infra = append(r.infra, v.Detail)
			return
		}
		if len(r.failures) < 2000 {
			r.failures = append(r.failures, v)
		}
	}
}

// ---- Leg M + R: TLC on the MC module, cases streamed to the workers -----------------

var statesRe = regexp.MustCompile(`^(\d+) states generated, (\d+) distinct states found`)

func prepSpecDir(name string) (string, error) {
	dir := filepath.Join(scratch, name)
	if err := os.MkdirAll(dir, 0o755); err != nil {
		return "", err
	}
	files, _ := filepath.Glob(filepath.Join(verifDir, "spec", "*.tla"))
	for _, f := range files {
		b, err := os.ReadFile(f)
		if err != nil {
			return "", err
		}
		os.WriteFile(filepath.Join(dir, filepath.Base(f)), b, 0o644)
	}
	return dir, nil
}

// runApalache discharges the three obligations of an inductive invariant (module leg.Module: ConstInit, IndInv, Safety over
// the protocol named by TLCArgs[0] = Init and TLCArgs[1] = Next) with the symbolic checker. Like every model-only leg its
// failure is a failure of the model, never a verdict about the code.
func runApalache(cfg *propCfg, leg legCfg, res *result) {
	dir, err := prepSpecDir("apa-" + leg.Name)
	if err != nil {
		res.infraf("%v", err)
		return
	}
	obligations := [][]string{
		{"Init => IndInv", "--init=" + leg.TLCArgs[0], "--inv=IndInv", "--length=0"},
		{"IndInv /\\ Next => IndInv'", "--init=IndInv", "--inv=IndInv", "--length=1"},
		{"IndInv => Safety", "--init=IndInv", "--inv=Safety", "--length=0"},
	}
	for i, ob := range obligations {
		args := []string{fmt.Sprint(int(leg.Timeout.Seconds())), "apalache-mc", "check", "--out-dir=" + filepath.Join(dir, fmt.Sprint("out", i)), "--cinit=ConstInit", "--next=" + leg.TLCArgs[1]}
		args = append(args, ob[1:]...)
		args = append(args, leg.Module+".tla")
		cmd := exec.Command("timeout", args...)
		cmd.Dir = dir
		out, werr := cmd.CombinedOutput()
		ok := werr == nil && bytes.Contains(out, []byte("The outcome is: NoError"))
		res.mu.Lock()
		res.tlcRuns = append(res.tlcRuns, fmt.Sprintf("apalache %s: %s: %v", leg.Module, ob[0], map[bool]string{true: "discharged", false: "NOT discharged"}[ok]))
		res.mu.Unlock()
		if !ok {
			res.infraf("apalache obligation %q of %s was not discharged (%v)\n%s", ob[0], leg.Module, werr, tail(string(out), 2000))
		}
	}
}

func runMC(cfg *propCfg, leg legCfg, res *result) {
	dir, err := prepSpecDir("mc-" + leg.Name)
	if err != nil {
		res.infraf("%v", err)
		return
	}
	cfgText, err := os.ReadFile(filepath.Join(verifDir, "spec", "mc", leg.Cfg))
	if err != nil {
		res.infraf("%v", err)
		return
	}
	os.WriteFile(filepath.Join(dir, leg.Module+".cfg"), cfgText, 0o644)
	tw := leg.TLCWorkers
	if tw == 0 {
		tw = 8
	}
	args := []string{fmt.Sprint(int(leg.Timeout.Seconds())), "tlc", "-workers", fmt.Sprint(tw), "-metadir", filepath.Join(dir, "md"), "-seed", fmt.Sprint(seed)}
	args = append(args, leg.TLCArgs...)
	args = append(args, leg.Module+".tla")
	cmd := exec.Command("timeout", args...)
	cmd.Dir = dir
	cmd.Env = append(os.Environ(), "JAVA_TOOL_OPTIONS=-Xss256m")
	stdout, _ := cmd.StdoutPipe()
	cmd.Stderr = cmd.Stdout
	if err := cmd.Start(); err != nil {
		res.infraf("cannot start tlc: %v", err)
		return
	}
	ch := make(chan []byte, 256)
	done := make(chan struct{})
	nw := leg.Workers
	if nw == 0 {
		nw = 8
	}
	go func() {
		pool(cfg, nw, ch, res, "R:"+leg.Name, leg.WorkerArgs...)
		close(done)
	}()
	rd := bufio.NewReaderSize(stdout, 4<<20)
	var log []string
	completed := false
	modelErr := ""
	exported := 0
	for {
		line, err := rd.ReadBytes('\n')
		line = bytes.TrimRight(line, "\r\n")
		if len(line) > 0 {
			if line[0] == '"' {
				var s string
				if e := json.Unmarshal(line, &s); e == nil && len(s) > 0 && s[0] == '{' && !leg.NoExport {
					exported++
					ch <- []byte(s)
				}
			} else {
				t := string(line)
				if m := statesRe.FindStringSubmatch(t); m != nil {
					g, _ := strconv.ParseInt(m[1], 10, 64)
					d, _ := strconv.ParseInt(m[2], 10, 64)
					res.mu.Lock()
					res.transitions += g
					res.states += d
					res.mu.Unlock()
				}
				if strings.Contains(t, "Model checking completed. No error has been found") || strings.Contains(t, "Finished in") && leg.Simulate {
					completed = true
				}
				if strings.HasPrefix(t, "Error:") && modelErr == "" {
					modelErr = t
				}
				if len(log) < 400 && !strings.HasPrefix(t, "Semantic processing") && !strings.HasPrefix(t, "Parsing file") && !strings.HasPrefix(t, "Linting of") {
					log = append(log, t)
				}
			}
		}
		if err != nil {
			break
		}
	}
	close(ch)
	werr := cmd.Wait()
	<-done
	res.mu.Lock()
	res.tlcRuns = append(res.tlcRuns, fmt.Sprintf("%s/%s: %d cases exported", leg.Module, leg.Cfg, exported))
	res.mu.Unlock()
	if leg.Expect != "" {
		// a deviation configuration: the model must be able to express the defect
		want := "Invariant " + leg.Expect + " is violated"
		found := false
		for _, l := range log {
			if strings.Contains(l, want) {
				found = true
			}
		}
		if !found {
			res.infraf("TLC run %s/%s was expected to violate %s and did not\n%s", leg.Module, leg.Cfg, leg.Expect, strings.Join(lastN(log, 15), "\n"))
		}
		res.mu.Lock()
		res.tlcRuns[len(res.tlcRuns)-1] += " (deviation: violates " + leg.Expect + " as expected)"
		res.mu.Unlock()
		return
	}
	if modelErr != "" || !completed || werr != nil {
		// a failure of the model (or of TLC) is never a verdict about the code
		res.infraf("TLC run %s/%s did not complete cleanly (%v) %s\n%s", leg.Module, leg.Cfg, werr, modelErr, strings.Join(lastN(log, 25), "\n"))
	}
	if exported == 0 && !leg.NoExport {
		res.infraf("TLC run %s/%s exported no case", leg.Module, leg.Cfg)
	}
}

func lastN(s []string, n int) []string {
	if len(s) > n {
		return s[len(s)-n:]
	}
	return s
}

// ---- Leg T: recorded traces validated by TLC ---------------------------------------

type traceInfo struct {
	Queries int      `json:"queries"`
	Events  int      `json:"events"`
	Samples []string `json:"samples"`
	Cfg     string   `json:"cfg"`
}

var summaryRe = regexp.MustCompile(`<<"TRACE-SUMMARY", (\d+), (\d+), (\d+)>>`)

func runTrace(cfg *propCfg, leg legCfg, res *result) {
	files := leg.TraceFiles
	if files == 0 {
		files = 4
	}
	var wg sync.WaitGroup
	sem := make(chan struct{}, 12)
	for i := 0; i < files; i++ {
		wg.Add(1)
		go func(i int) {
			defer wg.Done()
			sem <- struct{}{}
			defer func() { <-sem }()
			dir, err := prepSpecDir(fmt.Sprintf("trace-%s-%d", leg.Name, i))
			if err != nil {
				res.infraf("%v", err)
				return
			}
			tf := filepath.Join(dir, "trace.ndjson")
			args := []string{"-p", cfg.ID, "-mode", "trace", "-tier", tier, "-seed", fmt.Sprint(seed*1000 + int64(i)), "-n", fmt.Sprint(leg.TraceN), "-out", tf}
			args = append(args, leg.WorkerArgs...)
			gen := exec.Command("timeout", append([]string{"600", workerB}, args...)...)
			gen.Env = append(env(), "GORACE=halt_on_error=1 exitcode=66")
			var gerr bytes.Buffer
			gen.Stderr = &gerr
			out, err := gen.Output()
			if err != nil {
				// the driver died: with the real library inside, that is an observation
				v := verdict{OK: false, Kind: "crash", Leg: "T:" + leg.Name, Detail: "trace driver died: " + err.Error() + " " + tail(gerr.String(), 2000),
					Sig: []string{"tracedriver"}}
				if strings.Contains(gerr.String(), "DATA RACE") {
					v.Kind = "race"
				}
				res.add(v, nil)
				return
			}
			var info traceInfo
			json.Unmarshal(out, &info)
			cfgText := "SPECIFICATION TraceSpec\nPOSTCONDITION Summary\nCHECK_DEADLOCK FALSE\n"
			if info.Cfg != "" {
				cfgText = info.Cfg
			}
			os.WriteFile(filepath.Join(dir, leg.Module+".cfg"), []byte(cfgText), 0o644)
			cmd := exec.Command("timeout", fmt.Sprint(int(leg.Timeout.Seconds())), "tlc", "-workers", "1", "-metadir", filepath.Join(dir, "md"), leg.Module+".tla")
			cmd.Dir = dir
			cmd.Env = append(os.Environ(), "JAVA_TOOL_OPTIONS=-Xss256m")
			tout, terr := cmd.CombinedOutput()
			m := summaryRe.FindSubmatch(tout)
			if m == nil {
				res.infraf("trace validation %s #%d: TLC gave no summary (%v)\n%s", leg.Module, i, terr, strings.Join(lastN(nonNoise(string(tout)), 25), "\n"))
				return
			}
			mism, _ := strconv.Atoi(string(m[1]))
			hw, _ := strconv.Atoi(string(m[2]))
			total, _ := strconv.Atoi(string(m[3]))
			if hw != total {
				res.infraf("trace validation %s #%d consumed %d of %d events\n%s", leg.Module, i, hw, total, strings.Join(lastN(nonNoise(string(tout)), 25), "\n"))
				return
			}
			res.mu.Lock()
			res.traces += info.Queries
			res.traceEvents += total
			res.evaluations += info.Queries
			res.execs += info.Queries
			if len(res.traceSample) < 3 {
				res.traceSample = append(res.traceSample, info.Samples...)
			}
			res.mu.Unlock()
			if mism > 0 {
				collectTraceMismatches(cfg, leg, tf, string(tout), res)
			}
		}(i)
	}
	wg.Wait()
}

func nonNoise(s string) []string {
	out := []string{}
	for _, l := range strings.Split(s, "\n") {
		if strings.HasPrefix(l, "Semantic processing") || strings.HasPrefix(l, "Parsing file") || strings.HasPrefix(l, "Linting of") || l == "" {
			continue
		}
		if len(l) > 600 {
			l = l[:600] + "..."
		}
		out = append(out, l)
	}
	return out
}

// a mismatch line refers to an event index; the enclosing query is the last
// call event before it. API-level mismatches are violations, stage-only ones drift.
func collectTraceMismatches(cfg *propCfg, leg legCfg, traceFile, tlcOut string, res *result) {
	b, err := os.ReadFile(traceFile)
	if err != nil {
		res.infraf("%v", err)
		return
	}
	lines := bytes.Split(bytes.TrimSpace(b), []byte("\n"))
	type mm struct {
		What     string `json:"mismatch"`
		Event    int    `json:"event"`
		Expected any    `json:"expected"`
	}
	byCall := map[int][]mm{}
	order := []int{}
	for _, l := range strings.Split(tlcOut, "\n") {
		if !strings.HasPrefix(l, `"{\"mismatch\"`) {
			continue
		}
		var s string
		if json.Unmarshal([]byte(l), &s) != nil {
			continue
		}
		var m mm
		if json.Unmarshal([]byte(s), &m) != nil {
			continue
		}
		ci := m.Event - 1
		for ci >= 0 {
			var e map[string]any
			json.Unmarshal(lines[ci], &e)
			if leg.IsCall(e) {
				break
			}
			ci--
		}
		if _, ok := byCall[ci]; !ok {
			order = append(order, ci)
		}
		byCall[ci] = append(byCall[ci], m)
	}
	for _, ci := range order {
		ms := byCall[ci]
		api := false
		kinds := []string{}
		for _, m := range ms {
			kinds = append(kinds, m.What)
			if leg.IsAPI(m.What) {
				api = true
			}
		}
		// the events of this history
		end := ci + 1
		for end < len(lines) {
			var e map[string]any
			json.Unmarshal(lines[end], &e)
			if leg.IsCall(e) {
				break
			}
			end++
		}
		hist := []any{}
		for _, l := range lines[max(ci, 0):end] {
			var e any
			json.Unmarshal(l, &e)
			hist = append(hist, e)
		}
		exp, _ := json.Marshal(ms)
		detail := fmt.Sprintf("recorded execution is not a behaviour of %s: mismatching events %v; specification expects %s", leg.Module, kinds, tail(string(exp), 1200))
		// a history that uses constructs no listed property makes a claim about (the worker marks them): the
		// specification models them as coded and the disagreement is reported, but not as a violation
		if len(hist) > 0 {
			if call, ok := hist[0].(map[string]any); ok {
				if b, _ := call["beyond"].([]any); len(b) > 0 {
					api = false
					detail = fmt.Sprintf("[beyond the listed properties: %v] ", b) + detail
					if sql, _ := call["sql"].(string); sql != "" {
						detail += " :: " + sql
					}
				}
			}
		}
		if !api {
			res.mu.Lock()
			res.driftN++
			if len(res.drift) < 5 {
				res.drift = append(res.drift, detail)
			}
			res.mu.Unlock()
			continue
		}
		v := verdict{OK: false, Kind: "trace", Leg: "T:" + leg.Name, Detail: detail, Case: map[string]any{"trace": hist}}
		v.Sig, v.SQL = traceFeatures(cfg, hist)
		res.add(v, nil)
	}
}

// traceFeatures asks the worker for the feature signature of a recorded history.
func traceFeatures(cfg *propCfg, hist []any) ([]string, string) {
	b, _ := json.Marshal(map[string]any{"trace": hist})
	cmd := exec.Command(workerB, "-p", cfg.ID, "-mode", "features")
	cmd.Stdin = bytes.NewReader(append(b, '\n'))
	cmd.Env = env()
	out, err := cmd.Output()
	if err != nil {
		return []string{"trace"}, ""
	}
	var r struct {
		Sig []string `json:"sig"`
		SQL string   `json:"sql"`
	}
	json.Unmarshal(out, &r)
	return append(r.Sig, "trace"), r.SQL
}

// ---- exec legs: the worker runs a self-contained driver (schedules, faults...) -------

func runExec(cfg *propCfg, leg legCfg, res *result) {
	// the worker prints one verdict line per explored case
	args := append([]string{"-p", cfg.ID, "-mode", leg.Mode, "-tier", tier, "-seed", fmt.Sprint(seed)}, leg.WorkerArgs...)
	cmd := exec.Command("timeout", append([]string{fmt.Sprint(int(leg.Timeout.Seconds())), workerB}, args...)...)
	cmd.Env = append(env(), "GORACE=halt_on_error=1 exitcode=66")
	var stderr bytes.Buffer
	cmd.Stderr = &stderr
	stdout, _ := cmd.StdoutPipe()
	if err := cmd.Start(); err != nil {
		res.infraf("%v", err)
		return
	}
	rd := bufio.NewReaderSize(stdout, 4<<20)
	for {
		line, err := rd.ReadBytes('\n')
		if len(bytes.TrimSpace(line)) > 0 {
			var v verdict
			if e := json.Unmarshal(line, &v); e == nil {
				v.Leg = "X:" + leg.Name
				var c any
				if v.Case != nil {
					c = v.Case
				}
				cb, _ := json.Marshal(c)
				res.add(v, cb)
			}
		}
		if err != nil {
			break
		}
	}
	if err := cmd.Wait(); err != nil {
		res.infraf("driver %s %s ended abnormally: %v %s", cfg.ID, leg.Mode, err, tail(stderr.String(), 1500))
	}
}

// ---- replay of one recorded case --------------------------------------------------------

func doReplay(cfg *propCfg, file string) int {
	b, err := os.ReadFile(file)
	if err != nil {
		fmt.Println(err)
		return 2
	}
	var rec struct {
		Leg  string          `json:"leg"`
		Case json.RawMessage `json:"case"`
	}
	if err := json.Unmarshal(b, &rec); err != nil {
		fmt.Println(err)
		return 2
	}
	var line bytes.Buffer
	json.Compact(&line, rec.Case)
	if strings.HasPrefix(rec.Leg, "T:") {
		return replayTrace(cfg, strings.TrimPrefix(rec.Leg, "T:"), line.Bytes(), file)
	}
	w, err := startWorker(cfg.ID, "-replaying")
	if err != nil {
		fmt.Println(err)
		return 2
	}
	v, alive := w.ask(line.Bytes(), 60*time.Second)
	if alive {
		w.stop()
	}
	out, _ := json.MarshalIndent(v, "", " ")
	fmt.Println(string(out))
	if v.OK {
		fmt.Println("replay: the case conforms")
		return 0
	}
	if v.Kind == "harness" {
		return 2
	}
	fmt.Printf("VIOLATION property=%s replay=%s\n", cfg.ID, file)
	return 1
}

// a trace-leg case is re-executed, re-recorded and re-validated by TLC
func replayTrace(cfg *propCfg, legName string, c []byte, file string) int {
	var leg *legCfg
	for _, l := range append(append([]legCfg{}, cfg.Quick...), cfg.Thorough...) {
		if l.Kind == "trace" && l.Name == legName {
			l := l
			leg = &l
			break
		}
	}
	if leg == nil {
		fmt.Println("no trace leg", legName)
		return 2
	}
	dir, err := prepSpecDir("retrace")
	if err != nil {
		fmt.Println(err)
		return 2
	}
	tf := filepath.Join(dir, "trace.ndjson")
	gen := exec.Command(workerB, "-p", cfg.ID, "-mode", "retrace", "-out", tf)
	gen.Stdin = bytes.NewReader(c)
	gen.Env = env()
	if out, err := gen.CombinedOutput(); err != nil {
		fmt.Printf("re-execution died: %v %s\nVIOLATION property=%s replay=%s\n", err, tail(string(out), 1500), cfg.ID, file)
		return 1
	}
	os.WriteFile(filepath.Join(dir, leg.Module+".cfg"), []byte("SPECIFICATION TraceSpec\nPOSTCONDITION Summary\nCHECK_DEADLOCK FALSE\n"), 0o644)
	cmd := exec.Command("timeout", "300", "tlc", "-workers", "1", "-metadir", filepath.Join(dir, "md"), leg.Module+".tla")
	cmd.Dir = dir
	cmd.Env = append(os.Environ(), "JAVA_TOOL_OPTIONS=-Xss256m")
	tout, _ := cmd.CombinedOutput()
	m := summaryRe.FindSubmatch(tout)
	if m == nil {
		fmt.Println("TLC gave no summary:\n" + strings.Join(lastN(nonNoise(string(tout)), 20), "\n"))
		return 2
	}
	for _, l := range nonNoise(string(tout)) {
		if strings.Contains(l, "mismatch") {
			fmt.Println(l)
		}
	}
	if string(m[1]) == "0" {
		fmt.Println("replay: the re-recorded history is a behaviour of", leg.Module)
		return 0
	}
	fmt.Printf("VIOLATION property=%s replay=%s\n", cfg.ID, file)
	return 1
}

// ---- verdict, known findings, evidence ------------------------------------------------------

func loadFindings(prop string) []*finding {
	out := []*finding{}
	b, err := os.ReadFile(filepath.Join(verifDir, "KNOWN_FINDINGS.txt"))
	if err != nil {
		return out
	}
	for _, l := range strings.Split(string(b), "\n") {
		l = strings.TrimSpace(l)
		if !strings.HasPrefix(l, "finding:") {
			continue
		}
		head, what, _ := strings.Cut(strings.TrimPrefix(l, "finding:"), "::")
		f := &finding{What: strings.TrimSpace(what)}
		for _, tok := range strings.Fields(head) {
			k, v, _ := strings.Cut(tok, "=")
			switch k {
			case "property":
				f.Property = v
			case "id":
				f.ID = v
			case "kind":
				f.Kinds = strings.Split(v, ",")
			case "match":
				f.All = strings.Split(v, ",")
			}
		}
		if f.Property == prop {
			out = append(out, f)
		}
	}
	return out
}

func (f *finding) matches(v verdict) bool {
	if len(f.Kinds) > 0 {
		ok := false
		for _, k := range f.Kinds {
			if k == v.Kind {
				ok = true
			}
		}
		if !ok {
			return false
		}
	}
	have := map[string]bool{}
	for _, s := range v.Sig {
		have[s] = true
	}
	for _, a := range f.All {
		if strings.HasPrefix(a, "!") {
			if have[a[1:]] {
				return false
			}
			continue
		}
		if !have[a] {
			return false
		}
	}
	return true
}

func conclude(cfg *propCfg, res *result, wall time.Duration) int {
	findings := loadFindings(cfg.ID)
	var violations []verdict
	for _, v := range res.failures {
		known := false
		for _, f := range findings {
			if f.matches(v) {
				f.hits++
				known = true
				break
			}
		}
		if !known {
			violations = append(violations, v)
		}
	}
	for _, f := range findings {
		// a listed finding is reported on every run of the unchanged tree, whether or
		// not this run's sample happened to hit it
		fmt.Printf("KNOWN-FINDING: property=%s %s [%s; %d occurrences in this run]\n", cfg.ID, f.What, f.ID, f.hits)
	}
	os.MkdirAll(filepath.Join(verifDir, "evidence", "replays"), 0o755)
	old, _ := filepath.Glob(filepath.Join(verifDir, "evidence", "replays", cfg.ID+"-*.json"))
	for _, f := range old {
		os.Remove(f)
	}
	// group violations by (kind, signature) and write one replay file per group
	groups := map[string][]verdict{}
	gorder := []string{}
	for _, v := range violations {
		k := v.Kind + "|" + strings.Join(v.Sig, ",")
		if _, ok := groups[k]; !ok {
			gorder = append(gorder, k)
		}
		groups[k] = append(groups[k], v)
	}
	sort.SliceStable(gorder, func(i, j int) bool { return len(groups[gorder[i]]) > len(groups[gorder[j]]) })
	for i, k := range gorder {
		if i >= 12 {
			fmt.Printf("... %d further violation groups not listed\n", len(gorder)-12)
			break
		}
		v := groups[k][0]
		path := filepath.Join(verifDir, "evidence", "replays", fmt.Sprintf("%s-%d.json", cfg.ID, i+1))
		rec, _ := json.MarshalIndent(map[string]any{"property": cfg.ID, "leg": v.Leg, "kind": v.Kind, "sql": v.SQL, "detail": v.Detail, "sig": v.Sig, "case": v.Case, "count": len(groups[k])}, "", " ")
		os.WriteFile(path, rec, 0o644)
		fmt.Printf("  %d x [%s] %s\n      %s\n", len(groups[k]), v.Kind, v.SQL, tail(v.Detail, 700))
		fmt.Printf("VIOLATION property=%s replay=%s\n", cfg.ID, path)
	}
	for _, d := range res.drift {
		fmt.Println("BINDING-DRIFT (not a verdict):", tail(d, 600))
	}
	for _, m := range res.infra {
		fmt.Println("INFRA:", tail(m, 3000))
	}
	writeEvidence(cfg, res, wall, len(violations), findings)
	fmt.Printf("%s %s seed=%d: %d evaluations, %d real executions, %d distinct non-trivial, TLC states=%d, traces=%d (%d events), violations=%d, known=%d, drift=%d, wall=%.1fs\n",
		cfg.ID, tier, seed, res.evaluations, res.execs, len(res.keys), res.states, res.traces, res.traceEvents, len(violations), len(res.failures)-len(violations), res.driftN, wall.Seconds())
	if len(violations) > 0 {
		return 1
	}
	if len(res.infra) > 0 {
		return 2
	}
	return 0
}

func writeEvidence(cfg *propCfg, res *result, wall time.Duration, nviol int, findings []*finding) {
	samples := append([]any{}, res.samples...)
	for _, s := range res.traceSample {
		samples = append(samples, map[string]any{"traced_query": s})
	}
	if len(samples) == 0 {
		samples = append(samples, "no passing non-trivial case in this run")
	}
	cov := map[string]any{
		"evaluations":                   res.evaluations,
		"real_executions":               res.execs,
		"distinct_nontrivial":           len(res.keys),
		"rule":                          cfg.Rule,
		"samples":                       samples,
		"states":                        res.states,
		"transitions":                   res.transitions,
		"traces_validated_against_impl": res.traces,
		"trace_events":                  res.traceEvents,
		"tlc_runs":                      res.tlcRuns,
		"exhaustive":                    cfg.Exhaustive,
		"binding_drift_cases":           res.driftN,
		"checker_cmd":                   fmt.Sprintf("./bin/vcheck -p %s -tier %s", cfg.ID, tier),
	}
	kf := []string{}
	for _, f := range findings {
		kf = append(kf, fmt.Sprintf("%s: %s (%d occurrences)", f.ID, f.What, f.hits))
	}
	if len(kf) > 0 {
		cov["known_findings"] = kf
	}
	ev := map[string]any{
		"property_id": cfg.ID,
		"tier":        tier,
		"seed":        seed,
		"level":       cfg.Level,
		"coverage":    cov,
		"assumptions": cfg.Assumptions,
		"wall_s":      wall.Seconds(),
		"violations":  nviol,
	}
	if len(res.infra) > 0 {
		ev["infrastructure_problems"] = res.infra
	}
	b, _ := json.MarshalIndent(ev, "", " ")
	os.MkdirAll(filepath.Join(verifDir, "evidence"), 0o755)
	os.WriteFile(filepath.Join(verifDir, "evidence", cfg.ID+".json"), b, 0o644)
}
