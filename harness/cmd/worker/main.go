// worker: executes cases against the real genql library (built from /repo with
// -tags verif). One JSON case per input line, one JSON verdict per output line,
// in order; the orchestrator attributes a crash to the first unanswered case.
package main

import (
	"bufio"
	"encoding/json"
	"flag"
	"fmt"
	"os"

	"verif/harness/internal/h"
)

func main() {
	prop := flag.String("p", "", "property id")
	mode := flag.String("mode", "replay", "replay | trace")
	seed := flag.Int64("seed", 1, "seed for generated cases")
	n := flag.Int("n", 100, "number of generated cases (trace mode)")
	out := flag.String("out", "", "output file (trace mode)")
	tier := flag.String("tier", "quick", "quick | thorough")
	flag.Bool("replaying", false, "a single recorded case is being replayed")
	genName := flag.String("gen", "", "trace mode: generator to use instead of the property's own")
	scen := flag.String("scenario", "", "C13: scenario class (child process)")
	iters := flag.Int("iters", 50, "C13: iterations per goroutine")
	flag.Parse()
	h.Tier, h.Seed = *tier, *seed
	switch *mode {
	case "replay":
		check, ok := h.Replay[*prop]
		if !ok {
			fmt.Fprintln(os.Stderr, "no replay check for", *prop)
			os.Exit(2)
		}
		in := bufio.NewReaderSize(os.Stdin, 1<<20)
		w := bufio.NewWriter(os.Stdout)
		enc := json.NewEncoder(w)
		for {
			line, err := in.ReadBytes('\n')
			if len(line) > 1 {
				var c h.Node
				if e := json.Unmarshal(line, &c); e != nil {
					enc.Encode(h.Verdict{OK: false, Kind: "harness", Detail: "bad case line: " + e.Error()})
				} else {
					v := safeCheck(check, c)
					v.Key = h.CaseKey(c)
					if !v.OK {
						v.Case = c
					}
					enc.Encode(v)
				}
				w.Flush()
			}
			if err != nil {
				break
			}
		}
	case "trace":
		key := *prop
		if *genName != "" {
			key = *genName
		}
		gen, ok := h.TraceGen[key]
		if !ok {
			fmt.Fprintln(os.Stderr, "no trace generator for", *prop)
			os.Exit(2)
		}
		f, err := os.Create(*out)
		if err != nil {
			fmt.Fprintln(os.Stderr, err)
			os.Exit(2)
		}
		w := bufio.NewWriter(f)
		info := gen(*seed, *n, *tier, w)
		w.Flush()
		f.Close()
		json.NewEncoder(os.Stdout).Encode(info)
	case "scenario":
		os.Exit(h.RunScenario13(*scen, *n, *iters))
	case "features":
		// signature of a recorded history (its first event carries the query)
		var c h.Node
		if err := json.NewDecoder(os.Stdin).Decode(&c); err != nil {
			os.Exit(2)
		}
		sig, sql := h.TraceFeatures(*prop, c)
		json.NewEncoder(os.Stdout).Encode(map[string]any{"sig": sig, "sql": sql})
	case "retrace":
		// re-execute the history of a recorded trace case and write a fresh trace
		var c h.Node
		if err := json.NewDecoder(os.Stdin).Decode(&c); err != nil {
			os.Exit(2)
		}
		re, ok := h.Retrace[*prop]
		if !ok {
			re, ok = h.Retrace["MIX"]
		}
		if !ok {
			os.Exit(2)
		}
		f, err := os.Create(*out)
		if err != nil {
			os.Exit(2)
		}
		w := bufio.NewWriter(f)
		re(c, w)
		w.Flush()
		f.Close()
	default:
		drv, ok := h.Drivers[*prop+":"+*mode]
		if !ok {
			fmt.Fprintln(os.Stderr, "unknown mode", *mode)
			os.Exit(2)
		}
		w := bufio.NewWriter(os.Stdout)
		enc := json.NewEncoder(w)
		drv(func(v h.Verdict) {
			enc.Encode(v)
			w.Flush()
		})
	}
}

// a panic inside the harness itself (not inside the library: Run recovers those)
// is an infrastructure problem, reported as such
func safeCheck(check func(h.Node) h.Verdict, c h.Node) (v h.Verdict) {
	defer func() {
		if r := recover(); r != nil {
			v = h.Verdict{OK: false, Kind: "harness", Detail: fmt.Sprintf("harness panic: %v", r)}
		}
	}()
	return check(c)
}
