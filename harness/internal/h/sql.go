package h

import (
	"fmt"
	"regexp"
	"strconv"
	"strings"
)

// Style selects the identifier quoting of the rendered SQL.
type Style struct {
	PG        bool // identifiers in double quotes (PostgresEscapingDialect)
	Brackets  bool // ARRAY(..) written as [..] (IdiomaticArrays)
	QuoteAll  bool // quote every identifier, even plain ones
	BareFrom  bool // ... except the plain table names and aliases of FROM (so that the text also parses without the option)
	Root      bool // the document is addressed under `root` (Wrapped): FROM paths get the prefix
	ctes      map[string]bool
	outer     map[string]bool // CTE names of the enclosing statements
	inSub     bool            // rendering a row-scoped subquery: paths without <- are relative to the row
	PadCounts bool            // LIMIT / OFFSET counts written with a leading zero (a decimal number all the same)
}

// rooted prefixes a FROM path with `root` (after leading <- steps) unless it names a CTE.
func (st Style) rooted(p []string) []string {
	if !st.Root {
		return p
	}
	i := 0
	for i < len(p) && p[i] == "<-" {
		i++
	}
	if st.inSub && i == 0 {
		return p
	}
	if i < len(p) && (st.ctes[p[i]] || p[i] == "dual") {
		return p
	}
	out := append([]string{}, p[:i]...)
	out = append(out, "root")
	return append(out, p[i:]...)
}

func (st Style) sub() Style {
	st.inSub = true
	if st.Root && st.ctes == nil {
		st.ctes = map[string]bool{}
	}
	return st
}

func (st Style) withCtes(q Node) Style {
	names := map[string]bool{}
	for k := range st.ctes {
		names[k] = true
	}
	var walk func(v any)
	walk = func(v any) {
		switch x := v.(type) {
		case []any:
			for _, e := range x {
				walk(e)
			}
		case map[string]any:
			if w, ok := x["with"].([]any); ok {
				for _, c := range w {
					names[c.(Node)["name"].(string)] = true
				}
			}
			for _, e := range x {
				walk(e)
			}
		}
	}
	walk(q)
	st.ctes = names
	return st
}

var plainIdent = regexp.MustCompile(`^[A-Za-z_][A-Za-z0-9_]*$`)

var reserved = map[string]bool{"select": true, "from": true, "where": true, "group": true, "order": true, "by": true,
	"limit": true, "offset": true, "and": true, "or": true, "not": true, "in": true, "is": true, "like": true,
	"between": true, "case": true, "when": true, "then": true, "else": true, "end": true, "as": true, "join": true,
	"on": true, "left": true, "right": true, "inner": true, "union": true, "all": true, "distinct": true, "having": true,
	"null": true, "true": true, "false": true, "exists": true, "div": true, "with": true, "key": true, "index": true,
	"values": true, "table": true, "desc": true, "asc": true, "count": true, "sum": true, "min": true, "max": true,
	"avg": true, "dual": true, "if": true, "first": true, "last": true, "array": true, "hash": true, "once": true,
	"into": true, "natural": true, "using": true, "straight_join": true, "cross": true, "async": true, "root": false}

func (st Style) quote(s string) string {
	if st.PG {
		return `"` + strings.ReplaceAll(s, `"`, `\"`) + `"`
	}
	return "`" + s + "`"
}

func (st Style) ident(s string) string {
	if !st.QuoteAll && plainIdent.MatchString(s) && !reserved[strings.ToLower(s)] {
		return s
	}
	return st.quote(s)
}

func strs(v any) []string {
	s := seq(v)
	out := make([]string, len(s))
	for i, e := range s {
		out[i] = e.(string)
	}
	return out
}

// PathText joins path segments the way the selector language spells them:
// "<-" prefixes without a dot, other segments dot-separated.
func PathText(p []string) string {
	var b strings.Builder
	needDot := false
	for _, s := range p {
		if s == "<-" {
			b.WriteString("<-")
			needDot = false
			continue
		}
		if needDot {
			b.WriteByte('.')
		}
		if plainIdent.MatchString(s) {
			b.WriteString(s)
		} else {
			b.WriteString("'" + s + "'")
		}
		needDot = true
	}
	return b.String()
}

func (st Style) path(p []string) string {
	simple := true
	for _, s := range p {
		if !plainIdent.MatchString(s) || reserved[strings.ToLower(s)] {
			simple = false
		}
	}
	if simple && !st.QuoteAll {
		if len(p) == 1 {
			return p[0]
		}
		if len(p) == 2 {
			return p[0] + "." + p[1]
		}
		if len(p) == 3 {
			return p[0] + "." + p[1] + "." + p[2]
		}
	}
	if simple && len(p) == 2 {
		// QuoteAll: qualifier and name quoted separately, the output key stays the last segment
		return st.quote(p[0]) + "." + st.quote(p[1])
	}
	if simple && len(p) == 3 {
		return st.quote(p[0]) + "." + st.quote(p[1]) + "." + st.quote(p[2])
	}
	if len(p) == 1 && !plainIdent.MatchString(p[0]) && p[0] != "<-" && !strings.ContainsAny(p[0], "`\"'.:[]{}=>") {
		// one name that is no plain word (`k l`, `é`, `m-c`): a column of the row, written as a quoted identifier
		return st.quote(p[0])
	}
	return st.quote(PathText(p))
}

// orderKey renders an ORDER BY key: a single name that is no plain word is an output column written the way its alias
// was written - quoted as an identifier, not as a quoted key of the selector language.
func (st Style) orderKey(p []string) string {
	if len(p) == 1 && !plainIdent.MatchString(p[0]) && !strings.ContainsAny(p[0], "`\"'") {
		return st.quote(p[0])
	}
	return st.path(p)
}

// SQLString quotes a string literal for the MySQL-dialect parser.
func SQLString(s string) string {
	s = strings.ReplaceAll(s, `\`, `\\`)
	s = strings.ReplaceAll(s, `'`, `''`)
	return "'" + s + "'"
}

func litText(v Node) string {
	switch v["t"] {
	case "null":
		return "NULL"
	case "bool":
		if v["b"].(bool) {
			return "true"
		}
		return "false"
	case "num":
		if raw, ok := v["raw"].(string); ok {
			return raw
		}
		n, d := num(v["n"]), num(v["d"])
		var s string
		if d == 1 {
			s = strconv.FormatInt(int64(n), 10)
		} else {
			s = strconv.FormatFloat(n/d, 'f', -1, 64)
		}
		if n < 0 {
			return "(" + s + ")"
		}
		return s
	case "str":
		return SQLString(CodePoints(v["c"]))
	}
	panic(fmt.Sprintf("literal %#v", v))
}

var binSQL = map[string]string{"+": "+", "-": "-", "*": "*", "/": "/", "div": "DIV", "%": "%", "&": "&", "|": "|",
	"^": "^", "<<": "<<", ">>": ">>"}

// Expr renders an expression, fully parenthesised.
func (st Style) Expr(e Node) string {
	switch e["k"] {
	case "col":
		return st.path(strs(e["p"]))
	case "lit":
		return litText(e["v"].(Node))
	case "bin":
		return "(" + st.Expr(e["l"].(Node)) + " " + binSQL[e["op"].(string)] + " " + st.Expr(e["r"].(Node)) + ")"
	case "un":
		return "(" + e["op"].(string) + st.Expr(e["e"].(Node)) + ")"
	case "cmp":
		return "(" + st.Expr(e["l"].(Node)) + " " + e["op"].(string) + " " + st.Expr(e["r"].(Node)) + ")"
	case "like":
		return "(" + st.Expr(e["l"].(Node)) + neg(e) + " LIKE " + st.Expr(e["r"].(Node)) + ")"
	case "in":
		items := []string{}
		for _, x := range seq(e["list"]) {
			items = append(items, st.Expr(x.(Node)))
		}
		return "(" + st.Expr(e["l"].(Node)) + neg(e) + " IN (" + strings.Join(items, ", ") + "))"
	case "insub":
		return "(" + st.Expr(e["l"].(Node)) + neg(e) + " IN (" + st.sub().Query(e["q"].(Node)) + "))"
	case "between":
		return "(" + st.Expr(e["e"].(Node)) + neg(e) + " BETWEEN " + st.Expr(e["lo"].(Node)) + " AND " + st.Expr(e["hi"].(Node)) + ")"
	case "is":
		m := map[string]string{"null": "NULL", "notnull": "NOT NULL", "true": "TRUE", "false": "FALSE", "nottrue": "NOT TRUE", "notfalse": "NOT FALSE"}
		return "(" + st.Expr(e["e"].(Node)) + " IS " + m[e["op"].(string)] + ")"
	case "and":
		return "(" + st.Expr(e["l"].(Node)) + " AND " + st.Expr(e["r"].(Node)) + ")"
	case "or":
		return "(" + st.Expr(e["l"].(Node)) + " OR " + st.Expr(e["r"].(Node)) + ")"
	case "not":
		return "(NOT " + st.Expr(e["e"].(Node)) + ")"
	case "case":
		var b strings.Builder
		b.WriteString("(CASE")
		for _, w := range seq(e["whens"]) {
			w := w.(Node)
			b.WriteString(" WHEN " + st.Expr(w["c"].(Node)) + " THEN " + st.Expr(w["v"].(Node)))
		}
		if els := e["els"].(Node); els["k"] != "none" {
			b.WriteString(" ELSE " + st.Expr(els))
		}
		b.WriteString(" END)")
		return b.String()
	case "agg":
		p := strs(e["p"])
		if len(p) == 0 {
			return strings.ToUpper(e["f"].(string)) + "(*)"
		}
		return strings.ToUpper(e["f"].(string)) + "(" + st.path(p) + ")"
	case "fn":
		args := []string{}
		for _, x := range seq(e["args"]) {
			args = append(args, st.Expr(x.(Node)))
		}
		name := e["f"].(string)
		if q, ok := e["qual"].(string); ok && q != "" {
			name = q + "." + name
		}
		if st.Brackets && strings.EqualFold(name, "array") {
			return "[" + strings.Join(args, ", ") + "]"
		}
		return name + "(" + strings.Join(args, ", ") + ")"
	case "substr":
		return "SUBSTR(" + st.Expr(e["s"].(Node)) + ", " + st.Expr(e["from"].(Node)) + ", " + st.Expr(e["len"].(Node)) + ")"
	case "sub":
		return "(" + st.sub().Query(e["q"].(Node)) + ")"
	case "exists":
		return "EXISTS (" + st.sub().Query(e["q"].(Node)) + ")"
	}
	panic(fmt.Sprintf("cannot render expression %#v", e))
}

func neg(e Node) string {
	if b, _ := e["neg"].(bool); b {
		return " NOT"
	}
	return ""
}

var joinSQL = map[string]string{"inner": "JOIN", "left": "LEFT JOIN", "right": "RIGHT JOIN"}

// From renders a FROM source.
func (st Style) From(f Node) string {
	if st.BareFrom && st.QuoteAll {
		inner := st
		inner.QuoteAll = false
		return inner.fromText(f, st)
	}
	return st.fromText(f, st)
}

// fromText renders a FROM source with the receiver's quoting; nested queries and ON conditions use `full`
func (st Style) fromText(f Node, full Style) string {
	as := ""
	if a, _ := f["as"].(string); a != "" {
		as = " " + st.ident(a)
	}
	switch f["k"] {
	case "dual":
		return "dual"
	case "table":
		return st.path(st.rooted(strs(f["p"]))) + as
	case "sel":
		sel := seq(f["sel"])
		if st.Root && len(sel) > 0 {
			// prefix the first key step of the first segment
			first := sel[0].(Node)
			steps := seq(first["steps"])
			if len(steps) > 0 && steps[0].(Node)["k"] == "key" && !st.ctes[steps[0].(Node)["name"].(string)] {
				ns := append([]any{Node{"k": "key", "name": "root"}}, steps...)
				sel = append([]any{Node{"fn": first["fn"], "steps": ns}}, sel[1:]...)
			}
		}
		return st.quote(SelectorText(sel)) + as
	case "derived":
		return "(" + full.Query(f["q"].(Node)) + ")" + as
	case "join":
		kw, _ := f["kw"].(string) // explicit keyword chosen by the case (strategy variants)
		if kw == "" {
			kw = joinSQL[f["type"].(string)]
		}
		if using, ok := f["using"].([]any); ok {
			cols := []string{}
			for _, c := range using {
				cols = append(cols, st.ident(c.(string)))
			}
			return full.From(f["l"].(Node)) + " " + kw + " " + full.From(f["r"].(Node)) + " USING (" + strings.Join(cols, ", ") + ")"
		}
		return full.From(f["l"].(Node)) + " " + kw + " " + full.From(f["r"].(Node)) + " ON " + full.Expr(f["on"].(Node))
	}
	panic(fmt.Sprintf("cannot render from %#v", f))
}

func limitText(q Node, pad bool) string {
	lim, off := int(num(q["limit"])), int(num(q["offset"]))
	if lim < 0 {
		return ""
	}
	if lim >= 2000000000 {
		// the specification's Huge (the largest int64) and Huge + 1 (the largest uint64, MySQL's idiom for "all the rest")
		text := "9223372036854775807"
		if lim > 2000000000 {
			text = "18446744073709551615"
		}
		if off < 0 {
			return " LIMIT " + text
		}
		if s, _ := q["limstyle"].(string); s == "comma" {
			return fmt.Sprintf(" LIMIT %d, %s", off, text)
		}
		return fmt.Sprintf(" LIMIT %s OFFSET %d", text, off)
	}
	d := "%d"
	if pad {
		d = "0%d"
	}
	if off < 0 {
		return fmt.Sprintf(" LIMIT "+d, lim)
	}
	if s, _ := q["limstyle"].(string); s == "comma" {
		return fmt.Sprintf(" LIMIT "+d+", "+d, off, lim)
	}
	return fmt.Sprintf(" LIMIT "+d+" OFFSET "+d, lim, off)
}

// Query renders a query AST as SQL text.
func (st Style) Query(q Node) string {
	if st.Root && st.ctes == nil {
		st = st.withCtes(q)
	}
	if q["k"] == "union" {
		kw := " UNION "
		if q["all"].(bool) {
			kw = " UNION ALL "
		}
		// a side that brings its own WITH has to be parenthesised
		side := func(n Node) string {
			if n["k"] == "select" && len(seq(n["with"])) > 0 {
				return "(" + st.Query(n) + ")"
			}
			// ... and so has a nested union with a window or an order of its own
			if n["k"] == "union" && (num(n["limit"]) >= 0 || num(n["offset"]) >= 0 || len(seq(n["order"])) > 0) {
				return "(" + st.Query(n) + ")"
			}
			return st.Query(n)
		}
		order := ""
		if ord := seq(q["order"]); len(ord) > 0 {
			ks := []string{}
			for _, o := range ord {
				o := o.(Node)
				dir := " ASC"
				if !o["asc"].(bool) {
					dir = " DESC"
				}
				ks = append(ks, st.path(strs(o["key"]))+dir)
			}
			order = " ORDER BY " + strings.Join(ks, ", ")
		}
		return side(q["l"].(Node)) + kw + side(q["r"].(Node)) + order + limitText(q, st.PadCounts)
	}
	var b strings.Builder
	inner := st // the style of everything below this statement: its CTE names are names of an enclosing statement there
	if with := seq(q["with"]); len(with) > 0 {
		inner.outer = map[string]bool{}
		for k := range st.outer {
			inner.outer[k] = true
		}
		for _, c := range with {
			inner.outer[c.(Node)["name"].(string)] = true
		}
		b.WriteString("WITH ")
		for i, c := range with {
			c := c.(Node)
			if i > 0 {
				b.WriteString(", ")
			}
			// inside its own body the name of a CTE means what it meant before the WITH: a CTE of an enclosing
			// statement, or else a table of the document
			body := inner
			if name := c["name"].(string); st.ctes[name] && !st.outer[name] {
				body.ctes = map[string]bool{}
				for k, v := range st.ctes {
					if k != name {
						body.ctes[k] = v
					}
				}
			}
			b.WriteString(st.ident(c["name"].(string)) + " AS (" + body.Query(c["q"].(Node)) + ")")
		}
		b.WriteString(" ")
	}
	st = inner
	b.WriteString("SELECT ")
	if d, _ := q["distinct"].(bool); d {
		b.WriteString("DISTINCT ")
	}
	for i, it := range seq(q["sel"]) {
		it := it.(Node)
		if i > 0 {
			b.WriteString(", ")
		}
		if it["k"] == "star" {
			if qual, _ := it["qual"].(string); qual != "" {
				b.WriteString(st.ident(qual) + ".")
			}
			b.WriteString("*")
			continue
		}
		b.WriteString(st.Expr(it["e"].(Node)))
		if as, _ := it["as"].(string); as != "" {
			b.WriteString(" AS " + st.ident(as))
		}
	}
	b.WriteString(" FROM " + st.From(q["from"].(Node)))
	if w := q["where"].(Node); w["k"] != "none" {
		b.WriteString(" WHERE " + st.Expr(w))
	}
	if g := strs(q["group"]); len(g) > 0 {
		names := []string{}
		gqual, _ := q["gqual"].(string)
		for _, c := range g {
			if gqual != "" {
				names = append(names, st.ident(gqual)+"."+st.ident(c))
				continue
			}
			names = append(names, st.ident(c))
		}
		b.WriteString(" GROUP BY " + strings.Join(names, ", "))
	}
	if hv := q["having"].(Node); hv["k"] != "none" {
		b.WriteString(" HAVING " + st.Expr(hv))
	}
	if ord := seq(q["order"]); len(ord) > 0 {
		ks := []string{}
		for _, o := range ord {
			o := o.(Node)
			dir := " ASC"
			if !o["asc"].(bool) {
				dir = " DESC"
			}
			ks = append(ks, st.orderKey(strs(o["key"]))+dir)
		}
		b.WriteString(" ORDER BY " + strings.Join(ks, ", "))
	}
	b.WriteString(limitText(q, st.PadCounts))
	return b.String()
}
