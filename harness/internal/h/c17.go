package h

import (
	"fmt"

	"github.com/vedadiyan/genql"
)

func rewriteSafe(f func(string) (string, error), in string) (s string, err error, pan any) {
	defer func() { pan = recover() }()
	s, err = f(in)
	return
}

// scanner cases of MC_C17: the real rewriter's output must be the text the specification
// computes (or an error where it says error); the rewritten text must be accepted by the
// real tokenizer/parser as an expression list
func checkC17Scanner(c Node) Verdict {
	fam := c["fam"].(string)
	text := cpsToString(c["text"])
	f, name := genql.DoubleQuotesToBackTick, "DoubleQuotesToBackTick"
	if fam == "arrays" {
		f, name = genql.FixIdiomaticArray, "FixIdiomaticArray"
	}
	desc := fmt.Sprintf("%s(%q)", name, text)
	sig := []string{"scanner:" + fam}
	v := Verdict{OK: true, SQL: desc, Sig: sig, Execs: 1, Nontrivial: true}
	got, err, pan := rewriteSafe(f, text)
	if pan != nil {
		return fail("panic", desc, sig, "panic: %v", pan)
	}
	wantOut := seq(c["out"])
	if len(wantOut) == 1 && num(wantOut[0]) == -9 {
		if err == nil {
			return fail("noerror", desc, sig, "specification: error; got %q", got)
		}
		// the same text through New with the option: an error, never a panic
		out := Run(map[string]any{"t": []any{}}, "SELECT "+text+" FROM t", false, Opts([]string{map[string]string{"arrays": "arr", "quotes": "pg"}[fam]}, nil, nil)...)
		v.Execs++
		if out.Panic != nil {
			return fail("panic", desc, sig, "New with the option panics: %v", out.Panic)
		}
		if out.Err == nil {
			return fail("noerror", desc, sig, "New accepted the unbalanced text")
		}
		return v
	}
	if err != nil {
		return fail("error", desc, sig, "specification: %q; got error %v", cpsToString(c["out"]), err)
	}
	if want := cpsToString(c["out"]); got != want {
		return fail("text", desc, sig, "want %q got %q", want, got)
	}
	return v
}

// end-to-end: an Engine case rendered in every spelling x every option combination must return
// the exported result
func checkC17Engine(c Node) Verdict {
	q := c["q"].(Node)
	want, wantErr := ExpectedRows(c)
	if wantErr {
		return Verdict{OK: true, SQL: Style{}.Query(q)}
	}
	ties, _ := c["ties"].(bool)
	base := Features(q)
	v := Verdict{OK: true, Sig: base, Nontrivial: len(want) > 0}
	// the reference is what the plain spelling returns without any option; whether that is what the
	// statement means is the business of the other properties
	ref := Run(FromTagged(c["doc"]).(map[string]any), Style{}.Query(q), false)
	v.Execs++
	if ref.Panic != nil || ref.Err != nil || NotPlain(any(ref.Rows)) != "" {
		v.Nontrivial = false
		return v
	}
	want = ref.Rows
	overDual := false
	for _, f := range base {
		overDual = overDual || f == "dual"
	}
	for mask := 1; mask < 8; mask++ {
		st, opts, sig := Style{}, []string{}, append([]string{}, base...)
		if mask&1 != 0 {
			// every identifier of an expression double-quoted; plain table names stay bare, so that the same
			// text is also a valid statement without the option (where "a" is a string literal)
			st.PG, st.QuoteAll, st.BareFrom = true, true, true
			opts = append(opts, "pg")
			sig = append(sig, "opt:pg")
		}
		if mask&2 != 0 {
			st.Brackets = true
			opts = append(opts, "arr")
			sig = append(sig, "opt:arr")
		}
		if mask&4 != 0 {
			st.Root = true
			opts = append(opts, "wrapped")
			sig = append(sig, "opt:wrapped")
		}
		sql := st.Query(q)
		if v.SQL == "" {
			v.SQL = sql
		}
		// a decoy first: the same text under another option set (its outcome does not matter) - what an
		// option does to a text must not depend on what an earlier call did to the same text
		decoy := []string{"arr"}
		if mask == 2 {
			decoy = []string{"pg"}
		}
		Run(FromTagged(c["doc"]).(map[string]any), sql, false, Opts(decoy, nil, nil)...)
		v.Execs++
		doc := FromTagged(c["doc"]).(map[string]any)
		out := Run(doc, sql, false, Opts(opts, nil, nil)...)
		v.Execs++
		if out.Panic != nil {
			return fail("panic", sql, sig, "panic escaped the API: %v", out.Panic)
		}
		if out.Err != nil {
			return fail("error", sql, sig, "options %v: without options %s; with them error %v", opts, Canon(any(want)), out.Err)
		}
		// the order of the rows belongs to other properties: where ORDER BY leaves ties, or grouping / a join is
		// involved, the runs are compared as multisets
		unordered := ties || groupingOrJoin(q)
		ok := Canon(any(out.Rows)) == Canon(any(want))
		if unordered && !ok {
			ok = canonBag(out.Rows) == canonBag(want)
		}
		if mask&4 != 0 && overDual {
			ok = true // FROM dual is the document itself: under Wrapped() that is {root: input} - compared with the explicit document below
		}
		if !ok {
			return fail("result", sql, sig, "options %v: without options %s, with them %s", opts, Canon(any(want)), Canon(any(out.Rows)))
		}
		if mask&4 != 0 {
			// Wrapped() must behave exactly as if the caller had passed {"root": input}
			doc2 := map[string]any{"root": FromTagged(c["doc"])}
			o2 := []string{}
			for _, o := range opts {
				if o != "wrapped" {
					o2 = append(o2, o)
				}
			}
			out2 := Run(doc2, sql, false, Opts(o2, nil, nil)...)
			v.Execs++
			same := out2.Err == nil && out2.Panic == nil && (Canon(any(out2.Rows)) == Canon(any(out.Rows)) || (unordered && canonBag(out2.Rows) == canonBag(out.Rows)))
			if !same {
				return fail("result", sql, append(sig, "explicit-root"), "Wrapped() returns %s, the explicit {root: input} document %s", Canon(any(out.Rows)), out2.Describe())
			}
		}
	}
	return v
}

func checkC17(c Node) Verdict {
	if _, ok := c["text"]; ok {
		return checkC17Scanner(c)
	}
	return checkC17Engine(c)
}

func init() { Replay["C17"] = checkC17 }
