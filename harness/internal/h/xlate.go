package h

import (
	"fmt"
	"math/big"
	"strings"

	"github.com/vedadiyan/genql"
	"github.com/vedadiyan/sqlparser/v2"
)

// ---- SQL text -> specification AST -------------------------------------------------------------
//
// The inverse of Style.Query for the part of the grammar the specification (Genql.tla) gives a
// meaning to. It is how executions that the harness did not generate - the repository's own tests -
// are put in front of the specification: their query text is parsed with the library's own parser
// and the parser's AST is translated node by node. Whatever has no counterpart in the specification
// makes the translation fail with a reason (the call is then counted as "outside the specification",
// never judged). The translation is checked against the renderer: for generated ASTs,
// Query(Translate(Query(ast))) must be the text Query(ast).

type Unsupported struct{ Why string }

func (u *Unsupported) Error() string { return "outside the specification: " + u.Why }

func unsupported(format string, a ...any) error { return &Unsupported{fmt.Sprintf(format, a...)} }

// TranslateSQL parses text (already rewritten by the dialect options, if any) and translates it.
func TranslateSQL(text string) (q Node, err error) {
	defer func() {
		if r := recover(); r != nil {
			q, err = nil, unsupported("translator panic: %v", r)
		}
	}()
	stmt, perr := genql.Parse(text)
	if perr != nil {
		return nil, unsupported("does not parse: %v", perr)
	}
	return xStatement(stmt)
}

func xStatement(stmt sqlparser.SQLNode) (Node, error) {
	switch s := stmt.(type) {
	case *sqlparser.Select:
		return xSelect(s)
	case *sqlparser.Union:
		return xUnion(s)
	}
	return nil, unsupported("statement %T", stmt)
}

func xUnion(u *sqlparser.Union) (Node, error) {
	// as coded (BuildUnion): a WITH in front of a UNION is handed to both sides, replacing whatever WITH a side has itself
	var with []any
	if u.With != nil {
		if u.With.Recursive {
			return nil, unsupported("WITH RECURSIVE")
		}
		with = []any{}
		for _, c := range u.With.CTEs {
			if len(c.Columns) > 0 {
				return nil, unsupported("CTE column list")
			}
			cq, err := xStatement(c.Subquery)
			if err != nil {
				return nil, err
			}
			with = append(with, Node{"name": c.ID.String(), "q": cq})
		}
	}
	order := []any{}
	for _, o := range u.OrderBy {
		c, ok := o.Expr.(*sqlparser.ColName)
		if !ok {
			return nil, unsupported("ORDER BY %T", o.Expr)
		}
		p, err := xColPath(c)
		if err != nil {
			return nil, err
		}
		order = append(order, Node{"key": toAny(p), "asc": o.Direction == sqlparser.AscOrder})
	}
	l, err := xStatement(u.Left)
	if err != nil {
		return nil, err
	}
	r, err := xStatement(u.Right)
	if err != nil {
		return nil, err
	}
	lim, off, err := xLimit(u.Limit)
	if err != nil {
		return nil, err
	}
	if with != nil {
		setWith(l, with)
		setWith(r, with)
	}
	out := Node{"k": "union", "l": l, "r": r, "all": !u.Distinct, "limit": lim, "offset": off}
	if len(order) > 0 {
		out["order"] = order
	}
	return out, nil
}

func setWith(q Node, with []any) {
	if q["k"] == "union" {
		setWith(q["l"].(Node), with)
		setWith(q["r"].(Node), with)
		return
	}
	q["with"] = with
}

func xLimit(l *sqlparser.Limit) (int, int, error) {
	if l == nil {
		return -1, -1, nil
	}
	lit := func(e sqlparser.Expr) (int, error) {
		x, ok := e.(*sqlparser.Literal)
		if !ok || x.Type != sqlparser.IntVal {
			return 0, unsupported("LIMIT / OFFSET that is not an integer literal")
		}
		n := new(big.Int)
		if _, ok := n.SetString(x.Val, 10); ok && !n.IsInt64() {
			return 2000000001, nil // beyond int64: the specification's Huge + 1
		}
		if n.IsInt64() && n.Int64() == 9223372036854775807 {
			return 2000000000, nil // the specification's Huge
		}
		if _, ok := n.SetString(x.Val, 10); !ok || !n.IsInt64() || n.Int64() > 1000000000 {
			return 0, unsupported("LIMIT / OFFSET %s", x.Val)
		}
		return int(n.Int64()), nil
	}
	lim, err := lit(l.Rowcount)
	if err != nil {
		return 0, 0, err
	}
	off := -1
	if l.Offset != nil {
		if off, err = lit(l.Offset); err != nil {
			return 0, 0, err
		}
	}
	return lim, off, nil
}

func xSelect(s *sqlparser.Select) (Node, error) {
	if len(s.From) != 1 {
		return nil, unsupported("%d FROM sources", len(s.From))
	}
	if s.Into != nil || len(s.Windows) > 0 || s.StraightJoinHint {
		return nil, unsupported("INTO / WINDOW / STRAIGHT_JOIN hint")
	}
	q := Node{"k": "select", "distinct": s.Distinct}
	with := []any{}
	if s.With != nil {
		if s.With.Recursive {
			return nil, unsupported("WITH RECURSIVE")
		}
		for _, c := range s.With.CTEs {
			if len(c.Columns) > 0 {
				return nil, unsupported("CTE column list")
			}
			cq, err := xStatement(c.Subquery)
			if err != nil {
				return nil, err
			}
			with = append(with, Node{"name": c.ID.String(), "q": cq})
		}
	}
	q["with"] = with
	from, err := xFrom(s.From[0])
	if err != nil {
		return nil, err
	}
	q["from"] = from
	sel := []any{}
	if s.SelectExprs == nil {
		return nil, unsupported("no select list")
	}
	for _, se := range s.SelectExprs.Exprs {
		switch it := se.(type) {
		case *sqlparser.StarExpr:
			if !it.TableName.IsEmpty() {
				// as coded (SelectExpr): the qualifier of a star is not looked at - x.* is *
				if !it.TableName.Qualifier.IsEmpty() {
					return nil, unsupported("doubly qualified *")
				}
				sel = append(sel, Node{"k": "star", "qual": it.TableName.Name.String()})
				continue
			}
			sel = append(sel, Node{"k": "star"})
		case *sqlparser.AliasedExpr:
			e, err := xExpr(it.Expr)
			if err != nil {
				return nil, err
			}
			as := it.As.String()
			if as == "" && e["k"] != "col" {
				return nil, unsupported("select item without alias that is not a column: its output name is the parser's rendering")
			}
			sel = append(sel, Node{"k": "item", "e": e, "as": as})
		default:
			return nil, unsupported("select item %T", se)
		}
	}
	q["sel"] = sel
	q["where"] = Node{"k": "none"}
	if s.Where != nil && s.Where.Expr != nil {
		if q["where"], err = xExpr(s.Where.Expr); err != nil {
			return nil, err
		}
	}
	q["having"] = Node{"k": "none"}
	if s.Having != nil && s.Having.Expr != nil {
		if q["having"], err = xExpr(s.Having.Expr); err != nil {
			return nil, err
		}
	}
	group := []any{}
	if s.GroupBy != nil {
		for _, g := range s.GroupBy.Exprs {
			c, ok := g.(*sqlparser.ColName)
			if !ok {
				return nil, unsupported("GROUP BY %T", g)
			}
			p, err := xColPath(c)
			if err != nil {
				return nil, err
			}
			switch {
			case len(p) == 1 && q["gqual"] == nil:
				group = append(group, p[0])
			case len(p) == 2 && p[0] != "<-" && (len(group) == 0 || q["gqual"] == p[0]):
				q["gqual"] = p[0]
				group = append(group, p[1])
			default:
				return nil, unsupported("GROUP BY on a path deeper than alias.column, or a mix of qualified and plain columns")
			}
		}
	}
	q["group"] = group
	order := []any{}
	for _, o := range s.OrderBy {
		c, ok := o.Expr.(*sqlparser.ColName)
		if !ok {
			return nil, unsupported("ORDER BY %T", o.Expr)
		}
		p, err := xColPath(c)
		if err != nil {
			return nil, err
		}
		order = append(order, Node{"key": toAny(p), "asc": o.Direction == sqlparser.AscOrder})
	}
	q["order"] = order
	lim, off, err := xLimit(s.Limit)
	if err != nil {
		return nil, err
	}
	q["limit"], q["offset"] = lim, off
	return q, nil
}

func toAny(p []string) []any {
	out := make([]any, len(p))
	for i, s := range p {
		out[i] = s
	}
	return out
}

// a selector text made of plain keys (and leading <- steps) only
func plainPath(text string) ([]string, error) {
	p := []string{}
	for strings.HasPrefix(text, "<-") {
		p = append(p, "<-")
		text = text[2:]
	}
	for _, seg := range strings.Split(text, ".") {
		if !plainIdent.MatchString(seg) {
			return nil, unsupported("selector %q is more than a path of plain keys", text)
		}
		p = append(p, seg)
	}
	return p, nil
}

func xColPath(c *sqlparser.ColName) ([]string, error) {
	if !c.Qualifier.Qualifier.IsEmpty() {
		return nil, unsupported("doubly qualified column")
	}
	name := c.Name.String()
	if q := c.Qualifier.Name.String(); q != "" {
		name = q + "." + name
	}
	return plainPath(name)
}

var joinTypes = map[sqlparser.JoinType][2]string{
	sqlparser.NormalJoinType:            {"inner", ""},
	sqlparser.LeftJoinType:              {"left", ""},
	sqlparser.RightJoinType:             {"right", ""},
	sqlparser.HashJoinType:              {"inner", "HASH_JOIN"},
	sqlparser.StraightJoinType:          {"inner", "STRAIGHT_JOIN"},
	sqlparser.ParallelNormalJoinType:    {"inner", "PARALLEL JOIN"},
	sqlparser.ParallelHashJoinType:      {"inner", "PARALLEL HASH_JOIN"},
	sqlparser.ParallelStraightJoinType:  {"inner", "PARALLEL STRAIGHT_JOIN"},
	sqlparser.LeftHashJoinType:          {"left", "LEFT HASH_JOIN"},
	sqlparser.RightHashJoinType:         {"right", "RIGHT HASH_JOIN"},
	sqlparser.ParallelLeftJoinType:      {"left", "PARALLEL LEFT JOIN"},
	sqlparser.ParallelRightJoinType:     {"right", "PARALLEL RIGHT JOIN"},
	sqlparser.ParallelLeftHashJoinType:  {"left", "PARALLEL LEFT HASH_JOIN"},
	sqlparser.ParallelRightHashJoinType: {"right", "PARALLEL RIGHT HASH_JOIN"},
}

func xFrom(t sqlparser.TableExpr) (Node, error) {
	switch f := t.(type) {
	case *sqlparser.AliasedTableExpr:
		as := f.As.String()
		switch e := f.Expr.(type) {
		case sqlparser.TableName:
			name := e.Name.String()
			if q := e.Qualifier.String(); q != "" {
				name = q + "." + name
			}
			if name == "dual" && as == "" {
				return Node{"k": "dual", "as": ""}, nil
			}
			p, err := plainPath(name)
			if err != nil {
				return nil, err
			}
			return Node{"k": "table", "p": toAny(p), "as": as}, nil
		case *sqlparser.DerivedTable:
			if e.Lateral {
				return nil, unsupported("LATERAL")
			}
			q, err := xStatement(e.Select)
			if err != nil {
				return nil, err
			}
			return Node{"k": "derived", "q": q, "as": as}, nil
		}
		return nil, unsupported("FROM %T", f.Expr)
	case *sqlparser.JoinTableExpr:
		jt, ok := joinTypes[f.Join]
		if !ok {
			return nil, unsupported("join type %v", f.Join)
		}
		if f.Into != "" {
			return nil, unsupported("JOIN ... INTO")
		}
		if f.Condition == nil || (f.Condition.On == nil && len(f.Condition.Using) == 0) {
			return nil, unsupported("join without ON / USING")
		}
		l, err := xFrom(f.LeftExpr)
		if err != nil {
			return nil, err
		}
		r, err := xFrom(f.RightExpr)
		if err != nil {
			return nil, err
		}
		// the specification's join is over two aliased tables
		for _, side := range []Node{l, r} {
			if side["k"] == "join" || side["as"] == "" {
				return nil, unsupported("join side that is a join itself or has no alias")
			}
		}
		if f.Condition.On == nil {
			using := []any{}
			for _, c := range f.Condition.Using {
				if !plainIdent.MatchString(c.String()) {
					return nil, unsupported("USING column %q", c.String())
				}
				using = append(using, c.String())
			}
			return Node{"k": "join", "type": jt[0], "kw": jt[1], "l": l, "r": r, "using": using}, nil
		}
		on, err := xExpr(f.Condition.On)
		if err != nil {
			return nil, err
		}
		return Node{"k": "join", "type": jt[0], "kw": jt[1], "l": l, "r": r, "on": on}, nil
	}
	return nil, unsupported("FROM %T", t)
}

var xBinOps = map[sqlparser.BinaryExprOperator]string{sqlparser.PlusOp: "+", sqlparser.MinusOp: "-", sqlparser.MultOp: "*", sqlparser.DivOp: "/",
	sqlparser.IntDivOp: "div", sqlparser.ModOp: "%", sqlparser.BitAndOp: "&", sqlparser.BitOrOp: "|", sqlparser.BitXorOp: "^",
	sqlparser.ShiftLeftOp: "<<", sqlparser.ShiftRightOp: ">>"}

var xCmpOps = map[sqlparser.ComparisonExprOperator]string{sqlparser.EqualOp: "=", sqlparser.NotEqualOp: "!=", sqlparser.LessThanOp: "<",
	sqlparser.LessEqualOp: "<=", sqlparser.GreaterThanOp: ">", sqlparser.GreaterEqualOp: ">="}

var xIsOps = map[sqlparser.IsExprOperator]string{sqlparser.IsNullOp: "null", sqlparser.IsNotNullOp: "notnull", sqlparser.IsTrueOp: "true",
	sqlparser.IsNotTrueOp: "nottrue", sqlparser.IsFalseOp: "false", sqlparser.IsNotFalseOp: "notfalse"}

// the built-in scalar functions Builtins.tla has an arm for
var specFunctions = map[string]bool{"array": true, "changetype": true, "concat": true, "constant": true, "daterange": true, "decode": true,
	"elementat": true, "encode": true, "first": true, "hash": true, "if": true, "last": true, "to_lower": true, "to_upper": true, "unwind": true}

var specQualifiers = map[string]bool{"": true, "async": true, "spin": true, "spinasync": true, "scoped": true, "once": true}

func xNumber(text string) (Node, error) {
	r, ok := new(big.Rat).SetString(text)
	if !ok {
		return nil, unsupported("number %q", text)
	}
	n, d := r.Num(), r.Denom()
	if !n.IsInt64() || !d.IsInt64() || n.Int64() > 2000000000 || n.Int64() < -2000000000 || d.Int64() > 2000000000 {
		return nil, unsupported("number %q beyond the specification's integers", text)
	}
	return Node{"t": "num", "n": int(n.Int64()), "d": int(d.Int64())}, nil
}

func xExpr(e sqlparser.Expr) (Node, error) {
	two := func(l, r sqlparser.Expr) (Node, Node, error) {
		a, err := xExpr(l)
		if err != nil {
			return nil, nil, err
		}
		b, err := xExpr(r)
		return a, b, err
	}
	switch x := e.(type) {
	case *sqlparser.ColName:
		p, err := xColPath(x)
		if err != nil {
			return nil, err
		}
		return Node{"k": "col", "p": toAny(p)}, nil
	case *sqlparser.Literal:
		switch x.Type {
		case sqlparser.IntVal, sqlparser.FloatVal, sqlparser.DecimalVal:
			v, err := xNumber(x.Val)
			if err != nil {
				return nil, err
			}
			return Lit(v), nil
		case sqlparser.StrVal:
			return Lit(ToTagged(x.Val).(Node)), nil
		}
		return nil, unsupported("literal type %v", x.Type)
	case *sqlparser.NullVal:
		return Lit(Node{"t": "null"}), nil
	case sqlparser.BoolVal:
		return Lit(Node{"t": "bool", "b": bool(x)}), nil
	case *sqlparser.BinaryExpr:
		op, ok := xBinOps[x.Operator]
		if !ok {
			return nil, unsupported("binary operator %v", x.Operator)
		}
		l, r, err := two(x.Left, x.Right)
		if err != nil {
			return nil, err
		}
		return Node{"k": "bin", "op": op, "l": l, "r": r}, nil
	case *sqlparser.UnaryExpr:
		op, ok := map[sqlparser.UnaryExprOperator]string{sqlparser.UMinusOp: "-", sqlparser.TildaOp: "~", sqlparser.BangOp: "!"}[x.Operator]
		if !ok {
			return nil, unsupported("unary operator %v", x.Operator)
		}
		a, err := xExpr(x.Expr)
		if err != nil {
			return nil, err
		}
		return Node{"k": "un", "op": op, "e": a}, nil
	case *sqlparser.ComparisonExpr:
		if x.Modifier != sqlparser.Missing || x.Escape != nil {
			return nil, unsupported("ANY / ALL / ESCAPE")
		}
		switch x.Operator {
		case sqlparser.InOp, sqlparser.NotInOp:
			l, err := xExpr(x.Left)
			if err != nil {
				return nil, err
			}
			switch r := x.Right.(type) {
			case sqlparser.ValTuple:
				list := []any{}
				for _, m := range r {
					v, err := xExpr(m)
					if err != nil {
						return nil, err
					}
					list = append(list, v)
				}
				return Node{"k": "in", "neg": x.Operator == sqlparser.NotInOp, "l": l, "list": list}, nil
			case *sqlparser.Subquery:
				q, err := xStatement(r.Select)
				if err != nil {
					return nil, err
				}
				if x.Operator == sqlparser.NotInOp {
					return Node{"k": "insub", "l": l, "q": q, "neg": true}, nil
				}
				return Node{"k": "insub", "l": l, "q": q}, nil
			}
			return nil, unsupported("IN %T", x.Right)
		case sqlparser.LikeOp, sqlparser.NotLikeOp:
			l, r, err := two(x.Left, x.Right)
			if err != nil {
				return nil, err
			}
			return Node{"k": "like", "neg": x.Operator == sqlparser.NotLikeOp, "l": l, "r": r}, nil
		}
		op, ok := xCmpOps[x.Operator]
		if !ok {
			return nil, unsupported("comparison operator %v", x.Operator)
		}
		l, r, err := two(x.Left, x.Right)
		if err != nil {
			return nil, err
		}
		return Node{"k": "cmp", "op": op, "l": l, "r": r}, nil
	case *sqlparser.BetweenExpr:
		a, err := xExpr(x.Left)
		if err != nil {
			return nil, err
		}
		lo, hi, err := two(x.From, x.To)
		if err != nil {
			return nil, err
		}
		return Node{"k": "between", "neg": !x.IsBetween, "e": a, "lo": lo, "hi": hi}, nil
	case *sqlparser.IsExpr:
		a, err := xExpr(x.Left)
		if err != nil {
			return nil, err
		}
		return Node{"k": "is", "op": xIsOps[x.Right], "e": a}, nil
	case *sqlparser.AndExpr:
		l, r, err := two(x.Left, x.Right)
		if err != nil {
			return nil, err
		}
		return Node{"k": "and", "l": l, "r": r}, nil
	case *sqlparser.OrExpr:
		l, r, err := two(x.Left, x.Right)
		if err != nil {
			return nil, err
		}
		return Node{"k": "or", "l": l, "r": r}, nil
	case *sqlparser.NotExpr:
		a, err := xExpr(x.Expr)
		if err != nil {
			return nil, err
		}
		return Node{"k": "not", "e": a}, nil
	case *sqlparser.CaseExpr:
		if x.Expr != nil {
			return nil, unsupported("CASE with an operand")
		}
		whens := []any{}
		for _, w := range x.Whens {
			c, v, err := two(w.Cond, w.Val)
			if err != nil {
				return nil, err
			}
			whens = append(whens, Node{"c": c, "v": v})
		}
		els := Node{"k": "none"}
		if x.Else != nil {
			var err error
			if els, err = xExpr(x.Else); err != nil {
				return nil, err
			}
		}
		return Node{"k": "case", "whens": whens, "els": els}, nil
	case *sqlparser.SubstrExpr:
		if x.Name == nil || x.From == nil || x.To == nil {
			return nil, unsupported("SUBSTR with fewer than three operands")
		}
		s, err := xExpr(x.Name)
		if err != nil {
			return nil, err
		}
		f, n, err := two(x.From, x.To)
		if err != nil {
			return nil, err
		}
		return Node{"k": "substr", "s": s, "from": f, "len": n}, nil
	case *sqlparser.FuncExpr:
		name := x.Name.Lowered()
		qual := strings.ToLower(x.Qualifier.String())
		if !specFunctions[name] || !specQualifiers[qual] {
			return nil, unsupported("function %s.%s", qual, name)
		}
		args := []any{}
		for _, a := range x.Exprs {
			v, err := xExpr(a)
			if err != nil {
				return nil, err
			}
			args = append(args, v)
		}
		n := Node{"k": "fn", "f": name, "args": args}
		if qual != "" {
			n["qual"] = qual
		}
		return n, nil
	case *sqlparser.Subquery:
		q, err := xStatement(x.Select)
		if err != nil {
			return nil, err
		}
		return Node{"k": "sub", "q": q}, nil
	case *sqlparser.ExistsExpr:
		q, err := xStatement(x.Subquery.Select)
		if err != nil {
			return nil, err
		}
		return Node{"k": "exists", "q": q}, nil
	case sqlparser.AggrFunc:
		name := strings.ToLower(x.AggrName())
		if !map[string]bool{"count": true, "sum": true, "min": true, "max": true, "avg": true}[name] {
			return nil, unsupported("aggregate %s", name)
		}
		if _, star := x.(*sqlparser.CountStar); star {
			return Node{"k": "agg", "f": "count", "p": []any{}}, nil
		}
		args := x.GetArgs()
		if len(args) != 1 {
			return nil, unsupported("aggregate with %d arguments", len(args))
		}
		c, ok := args[0].(*sqlparser.ColName)
		if !ok {
			return nil, unsupported("aggregate over %T", args[0])
		}
		if d, ok := x.(interface{ IsDistinct() bool }); ok && d.IsDistinct() {
			return nil, unsupported("aggregate DISTINCT")
		}
		p, err := xColPath(c)
		if err != nil {
			return nil, err
		}
		return Node{"k": "agg", "f": name, "p": toAny(p)}, nil
	}
	return nil, unsupported("expression %T", e)
}
