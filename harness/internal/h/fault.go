package h

import (
	"errors"
	"fmt"
	"sync/atomic"

	"github.com/vedadiyan/genql"
)

// boom(x): the identity, failing at the configured invocation (fault injection for C19 / C11).
var (
	boomCount  int64
	boomFailAt int64
)

func init() {
	genql.RegisterFunction("boomt", func(q *genql.Query, cur genql.Map, fo *genql.FunctionOptions, args []any) (any, error) {
		n := atomic.AddInt64(&boomCount, 1)
		if n == atomic.LoadInt64(&boomFailAt) {
			return nil, errors.New("boomt: injected fault")
		}
		return true, nil
	})
	genql.RegisterFunction("boom", func(q *genql.Query, cur genql.Map, fo *genql.FunctionOptions, args []any) (any, error) {
		n := atomic.AddInt64(&boomCount, 1)
		if n == atomic.LoadInt64(&boomFailAt) {
			return nil, errors.New("boom: injected fault")
		}
		if len(args) != 1 {
			return nil, errors.New("boom: one argument expected")
		}
		return args[0], nil
	})
}

func runCounting(doc map[string]any, sql string, failAt int64, opts []string) (Outcome, int64) {
	atomic.StoreInt64(&boomCount, 0)
	atomic.StoreInt64(&boomFailAt, failAt)
	out := Run(doc, sql, false, Opts(opts, nil, nil)...)
	atomic.StoreInt64(&boomFailAt, 0)
	return out, atomic.LoadInt64(&boomCount)
}

// FaultCheck drives one exported shape: fault-free (with and without Wrapped), then with the
// k-th invocation of boom failing for every k, then a follow-up statement on the same document
// object. focus selects which observations produce a verdict: "C19" (error, no rows, library
// usable afterwards) or "C11" (the caller's document deep-equal to its state before).
func FaultCheck(c Node, focus string) Verdict {
	q := c["q"].(Node)
	want, wantErr := ExpectedRows(c)
	bag := q["k"] == "select" && q["from"].(Node)["k"] == "join"
	same := func(got, exp []any) bool {
		if bag {
			return BagEqual(got, exp)
		}
		return Equal(any(got), any(exp))
	}
	baseSig := append(Features(q), "pos:"+c["fam"].(string))
	v := Verdict{OK: true, Sig: baseSig}
	for variant := 0; variant < 3; variant++ {
		wrapped := variant == 1
		st, opts, sig := Style{}, []string{}, baseSig
		if wrapped {
			st, opts, sig = Style{Root: true}, []string{"wrapped"}, append(append([]string{}, baseSig...), "wrapped")
		}
		if variant == 2 {
			// with a handler for unreported errors installed: a failure of a synchronous step is still a failure
			opts, sig = []string{"errhandler"}, append(append([]string{}, baseSig...), "errhandler")
		}
		sql := st.Query(q)
		if v.SQL == "" {
			v.SQL = sql
		}
		pristine := FromTagged(c["doc"])
		// the follow-up statement exposes whole rows of the input
		// (under an alias: the rows come back as they are inside {x: row}, nothing is filtered out)
		followSQL := st.Query(With(BaseQ(), "from", Table("x", "t")))
		followWant := []any{}
		for _, r := range pristine.(map[string]any)["t"].([]any) {
			followWant = append(followWant, map[string]any{"x": r})
		}
		// fault-free
		doc := FromTagged(c["doc"]).(map[string]any)
		out, n := runCounting(doc, sql, 0, opts)
		v.Execs++
		if out.Panic != nil {
			return fail("panic", sql, sig, "panic escaped the API: %v", out.Panic)
		}
		if focus == "C11" && !Equal(any(doc), pristine) {
			return fail("docmut", sql, sig, "the caller's document after a %s call: %s, before: %s", okWord(out), Canon(any(doc)), Canon(pristine))
		}
		if wantErr {
			if focus == "C19" && (out.Err == nil || out.Rows != nil) {
				return fail("noerror", sql, sig, "specification: error; engine returned %s", Canon(any(out.Rows)))
			}
		} else {
			if out.Err != nil {
				if focus == "C19" {
					return fail("error", sql, sig, "fault-free run: specification %s; engine error %v", Canon(any(want)), out.Err)
				}
			} else if focus == "C19" && !same(out.Rows, want) {
				return fail("result", sql, sig, "fault-free run: want %s got %s", Canon(any(want)), Canon(any(out.Rows)))
			}
		}
		if n > 0 {
			v.Nontrivial = true
		}
		faults := n
		if wantErr {
			faults = 0
		}
		// a failed statement (self-raised) must leave the library usable too
		if wantErr {
			f, _ := runCounting(doc, followSQL, 0, opts)
			v.Execs++
			if focus == "C19" && (f.Err != nil || f.Panic != nil || !Equal(any(f.Rows), any(followWant))) {
				return fail("followup", sql+" ; "+followSQL, sig, "after the failed statement the next query on the same input returns %s, expected %s", f.Describe(), Canon(any(followWant)))
			}
			if focus == "C11" && !Equal(any(doc), pristine) {
				return fail("docmut", sql+" ; "+followSQL, sig, "the caller's document after the follow-up: %s", Canon(any(doc)))
			}
		}
		for k := int64(1); k <= faults; k++ {
			ksig := append(append([]string{}, sig...), "fault")
			doc := FromTagged(c["doc"]).(map[string]any)
			out, _ := runCounting(doc, sql, k, opts)
			v.Execs++
			if out.Panic != nil {
				return fail("panic", sql, ksig, "invocation %d of %d failing: panic escaped the API: %v", k, n, out.Panic)
			}
			if focus == "C19" && (out.Err == nil || out.Rows != nil) {
				return fail("noerror", sql, ksig, "invocation %d of %d failing: no failure reported, rows %s", k, n, Canon(any(out.Rows)))
			}
			if focus == "C11" && !Equal(any(doc), pristine) {
				return fail("docmut", sql, ksig, "invocation %d of %d failing: the caller's document afterwards: %s, before: %s", k, n, Canon(any(doc)), Canon(pristine))
			}
			// the same statement again on the same document object, no fault this time
			again, _ := runCounting(doc, sql, 0, opts)
			v.Execs++
			if focus == "C19" {
				if again.Err != nil || again.Panic != nil || !same(again.Rows, want) {
					return fail("followup", sql, ksig, "after invocation %d failed, the same query on the same input returns %s, expected %s", k, again.Describe(), Canon(any(want)))
				}
			}
			if focus == "C11" && !Equal(any(doc), pristine) {
				return fail("docmut", sql, ksig, "after a failed and a successful run the caller's document is %s", Canon(any(doc)))
			}
			// ... the very same Query object executed once more, the fault gone
			if focus == "C19" {
				if msg := retrySameQuery(FromTagged(c["doc"]).(map[string]any), sql, k, opts, want, same); msg != "" {
					return fail("followup", sql, append(ksig, "retry"), "invocation %d of %d failing, then the same Query executed again: %s", k, n, msg)
				}
				v.Execs += 2
			}
			// ... and a different statement that returns the input rows as they are
			doc3 := FromTagged(c["doc"]).(map[string]any)
			runCounting(doc3, sql, k, opts)
			star, _ := runCounting(doc3, followSQL, 0, opts)
			v.Execs += 2
			if focus == "C19" && (star.Err != nil || star.Panic != nil || !Equal(any(star.Rows), any(followWant))) {
				return fail("followup", sql+" ; "+followSQL, ksig, "after invocation %d failed, the next query on the same input returns %s, expected the untouched rows %s", k, star.Describe(), Canon(any(followWant)))
			}
		}
	}
	return v
}

// retrySameQuery: New, an Exec in which invocation k fails, then Exec again on the same object without a fault.
// Faults that strike while New builds the query (CTE bodies, derived tables and joins are evaluated there) leave
// no object to retry: nothing to check.
func retrySameQuery(doc map[string]any, sql string, k int64, opts []string, want []any, same func(got, exp []any) bool) (msg string) {
	defer func() {
		atomic.StoreInt64(&boomFailAt, 0)
		if p := recover(); p != nil {
			msg = fmt.Sprintf("panic escaped the API: %v", p)
		}
	}()
	atomic.StoreInt64(&boomCount, 0)
	atomic.StoreInt64(&boomFailAt, k)
	q, err := genql.New(doc, sql, Opts(opts, nil, nil)...)
	if err != nil {
		return ""
	}
	if rows, err := q.Exec(); err == nil {
		if atomic.LoadInt64(&boomCount) < k {
			return "" // the k-th invocation belongs to a part this run does not get to
		}
		return fmt.Sprintf("the run with the fault reported no failure: %s", Canon(any(rows)))
	}
	atomic.StoreInt64(&boomFailAt, 0)
	rows, err := q.Exec()
	if err != nil {
		return fmt.Sprintf("second Exec fails: %v", err)
	}
	if !same(rows, want) {
		return fmt.Sprintf("second Exec returns %s, the fault-free result is %s", Canon(any(rows)), Canon(any(want)))
	}
	return ""
}

func okWord(o Outcome) string {
	if o.Err != nil {
		return "failed"
	}
	return "successful"
}

func init() {
	Replay["C19"] = func(c Node) Verdict { return FaultCheck(c, "C19") }
}
