package h

import (
	"fmt"
	"math/big"
	"strconv"
	"strings"

	"github.com/vedadiyan/genql/compare"
)

// goValue builds the real Go value of an exported GoNum value and checks the
// specification's %v text against fmt on the real value.
func goValue(v Node) (any, error) {
	if v["t"] == "gstr" {
		return CodePoints(v["c"]), nil
	}
	dec := v["dec"].(string)
	var out any
	var err error
	switch kind := v["kind"].(string); kind {
	case "int", "int8", "int16", "int32", "int64":
		var x int64
		x, err = strconv.ParseInt(dec, 10, 64)
		switch kind {
		case "int":
			out = int(x)
		case "int8":
			out = int8(x)
			if int64(int8(x)) != x {
				err = fmt.Errorf("%s does not fit int8", dec)
			}
		case "int16":
			out = int16(x)
			if int64(int16(x)) != x {
				err = fmt.Errorf("%s does not fit int16", dec)
			}
		case "int32":
			out = int32(x)
			if int64(int32(x)) != x {
				err = fmt.Errorf("%s does not fit int32", dec)
			}
		default:
			out = x
		}
	case "uint", "uint8", "uint16", "uint32", "uint64":
		var x uint64
		x, err = strconv.ParseUint(dec, 10, 64)
		switch kind {
		case "uint":
			out = uint(x)
		case "uint8":
			out = uint8(x)
			if uint64(uint8(x)) != x {
				err = fmt.Errorf("%s does not fit uint8", dec)
			}
		case "uint16":
			out = uint16(x)
			if uint64(uint16(x)) != x {
				err = fmt.Errorf("%s does not fit uint16", dec)
			}
		case "uint32":
			out = uint32(x)
			if uint64(uint32(x)) != x {
				err = fmt.Errorf("%s does not fit uint32", dec)
			}
		default:
			out = x
		}
	case "float32":
		var x float64
		x, err = strconv.ParseFloat(dec, 64)
		out = float32(x)
		if float64(float32(x)) != x {
			err = fmt.Errorf("%s is not exact in float32", dec)
		}
	case "float64":
		out, err = strconv.ParseFloat(dec, 64)
	default:
		err = fmt.Errorf("unknown kind %s", kind)
	}
	if err != nil {
		return nil, err
	}
	if txt := CodePoints(v["txt"]); fmt.Sprintf("%v", out) != txt {
		return nil, fmt.Errorf("specification text %q of %s(%s) differs from fmt %q", txt, v["kind"], dec, fmt.Sprintf("%v", out))
	}
	return out, nil
}

func gdesc(v Node) string {
	if v["t"] == "gstr" {
		return fmt.Sprintf("%q", CodePoints(v["c"]))
	}
	return fmt.Sprintf("%s(%s)", v["kind"], v["dec"])
}

// C15: compare.Compare on the real values of one exported pair, and the same
// comparison as WHERE sees it on natively typed document values.
func checkC15(c Node) Verdict {
	av, bv := c["a"].(Node), c["b"].(Node)
	a, err := goValue(av)
	if err != nil {
		return Verdict{OK: false, Kind: "harness", Detail: err.Error()}
	}
	b, err := goValue(bv)
	if err != nil {
		return Verdict{OK: false, Kind: "harness", Detail: err.Error()}
	}
	want := int(num(c["want"]))
	desc := fmt.Sprintf("compare.Compare(%s, %s)", gdesc(av), gdesc(bv))
	sig := []string{"compare"}
	if av["t"] == "gnum" && bv["t"] == "gnum" {
		if av["kind"] != bv["kind"] {
			sig = append(sig, "crosskind")
		}
	} else {
		sig = append(sig, "string")
	}
	v := Verdict{OK: true, SQL: desc, Sig: sig, Execs: 1, Nontrivial: len(sig) > 1}
	got, pan := func() (r int, p any) {
		defer func() { p = recover() }()
		return compare.Compare(a, b), nil
	}()
	if pan != nil {
		return fail("panic", desc, sig, "panic: %v", pan)
	}
	if got != want {
		return fail("result", desc, sig, "want %d got %d", want, got)
	}
	// the same pair through WHERE on natively typed values
	for _, t := range []struct {
		op   string
		keep bool
	}{{"<", want < 0}, {"=", want == 0}, {">", want > 0}, {"<=", want <= 0}, {">=", want >= 0}, {"!=", want != 0}} {
		doc := map[string]any{"t": []any{map[string]any{"x": a, "y": b}}}
		sql := "SELECT * FROM t WHERE x " + t.op + " y"
		out := Run(doc, sql, false)
		v.Execs++
		if out.Panic != nil || out.Err != nil {
			return fail("error", desc+" via "+sql, sig, "%s", out.Describe())
		}
		if (len(out.Rows) == 1) != t.keep {
			return fail("result", desc+" via "+sql, sig, "row kept = %v, want %v", len(out.Rows) == 1, t.keep)
		}
	}
	// ORDER BY sorts the two values as the comparison orders them (equal keys: either order)
	ident := func(x any) string { return fmt.Sprintf("%T:%v", x, x) }
	for _, dir := range []string{"", " DESC"} {
		if want == 0 {
			break
		}
		doc := map[string]any{"t": []any{map[string]any{"id": 1, "x": a}, map[string]any{"id": 2, "x": b}}}
		sql := "SELECT id, x FROM t ORDER BY x" + dir
		out := Run(doc, sql, false)
		v.Execs++
		if out.Panic != nil || out.Err != nil {
			return fail("error", desc+" via "+sql, sig, "%s", out.Describe())
		}
		first, second := a, b
		if (want > 0) != (dir != "") {
			first, second = b, a
		}
		ok := len(out.Rows) == 2
		if ok {
			r0, _ := out.Rows[0].(map[string]any)
			r1, _ := out.Rows[1].(map[string]any)
			ok = r0 != nil && r1 != nil && ident(r0["x"]) == ident(first) && ident(r1["x"]) == ident(second)
		}
		if !ok {
			return fail("result", desc+" via "+sql, append(sig, "orderby"), "want %s before %s, got %s", ident(first), ident(second), Canon(any(out.Rows)))
		}
	}
	// two values that compare equal tie on the first ORDER BY key, whatever their Go types: the second key decides
	if want == 0 {
		doc := map[string]any{"t": []any{map[string]any{"id": 1, "x": a, "k": 2}, map[string]any{"id": 2, "x": b, "k": 1}}}
		sql := "SELECT id, k, x FROM t ORDER BY x, k"
		out := Run(doc, sql, false)
		v.Execs++
		if out.Panic != nil || out.Err != nil {
			return fail("error", desc+" via "+sql, sig, "%s", out.Describe())
		}
		ids := []any{}
		for _, r := range out.Rows {
			if m, ok := r.(map[string]any); ok {
				ids = append(ids, m["id"])
			}
		}
		if Canon(any(ids)) != Canon(any([]any{2, 1})) {
			return fail("result", desc+" via "+sql, append(sig, "orderby"), "the keys tie (cmp = 0), the second key must decide: got %s", Canon(any(out.Rows)))
		}
	}
	// a string operand written as a literal of the statement (in a comparison and in an IN list)
	if s, ok := b.(string); ok && !strings.ContainsAny(s, "\x00") {
		for _, t := range []struct {
			cond string
			keep bool
		}{{"x = " + SQLString(s), want == 0}, {"x IN (" + SQLString(s) + ")", want == 0}, {"x NOT IN (" + SQLString(s) + ", " + SQLString(s+"~") + ")", want != 0 && compare.Compare(a, s+"~") != 0},
			{"x < " + SQLString(s), want < 0}} {
			doc := map[string]any{"t": []any{map[string]any{"x": a}}}
			sql := "SELECT * FROM t WHERE " + t.cond
			out := Run(doc, sql, false)
			v.Execs++
			if out.Panic != nil || out.Err != nil {
				return fail("error", desc+" via "+sql, sig, "%s", out.Describe())
			}
			if (len(out.Rows) == 1) != t.keep {
				return fail("result", desc+" via "+sql, append(sig, "literal"), "row kept = %v, want %v", len(out.Rows) == 1, t.keep)
			}
		}
	}
	// IN over a list holding the other value, and an equi-join on the two values: kept iff cmp = 0
	{
		doc := map[string]any{"t": []any{map[string]any{"x": a, "y": b}}}
		sql := "SELECT * FROM t WHERE x IN (y)"
		out := Run(doc, sql, false)
		v.Execs++
		if out.Panic != nil || out.Err != nil {
			return fail("error", desc+" via "+sql, sig, "%s", out.Describe())
		}
		if (len(out.Rows) == 1) != (want == 0) {
			return fail("result", desc+" via "+sql, append(sig, "in"), "row kept = %v, want %v", len(out.Rows) == 1, want == 0)
		}
		doc = map[string]any{"l": []any{map[string]any{"x": a}}, "r": []any{map[string]any{"y": b}}}
		sql = "SELECT * FROM l p JOIN r q ON p.x = q.y"
		out = Run(doc, sql, false)
		v.Execs++
		if out.Panic != nil || out.Err != nil {
			return fail("error", desc+" via "+sql, sig, "%s", out.Describe())
		}
		if (len(out.Rows) == 1) != (want == 0) {
			return fail("result", desc+" via "+sql, append(sig, "join"), "row joined = %v, want %v", len(out.Rows) == 1, want == 0)
		}
	}
	return v
}

func init() { Replay["C15"] = checkC15 }

// Fractions no float32 holds exactly. GoNum.tla ranks values by their mathematical value; its points are those every
// kind holds exactly or float64 alone. float32(0.1) is a third case: a float32 and a float64 can hold that very value,
// and float64(0.1) is another number with the same short text. The driver feeds such triples - the float32, the
// float64 of the same value, the float64 nearest to the decimal - through the pair check of the replay, with the
// expectation the specification's IdealCmp gives: the sign of the difference of the exact values.
func init() {
	Drivers["C15:floats"] = func(emit func(Verdict)) {
		cps := func(s string) []any {
			out := []any{}
			for _, r := range s {
				out = append(out, float64(r))
			}
			return out
		}
		type val struct {
			kind string
			x    float64
		}
		vals := []val{}
		for _, base := range []float64{0.1, 1.1, -2.7, 0.3, 1e-7, 123456.789} {
			f := float64(float32(base))
			vals = append(vals, val{"float32", f}, val{"float64", f}, val{"float64", base})
		}
		vals = append(vals, val{"float64", 0}, val{"int", 1}, val{"int", -3})
		node := func(v val) Node {
			exact := new(big.Rat).SetFloat64(v.x)
			dec := strings.TrimRight(strings.TrimRight(exact.FloatString(160), "0"), ".")
			var txt string
			switch v.kind {
			case "float32":
				txt = fmt.Sprintf("%v", float32(v.x))
			case "int":
				txt = fmt.Sprintf("%v", int(v.x))
			default:
				txt = fmt.Sprintf("%v", v.x)
			}
			return Node{"t": "gnum", "kind": v.kind, "dec": dec, "txt": cps(txt)}
		}
		for _, a := range vals {
			for _, b := range vals {
				want := new(big.Rat).SetFloat64(a.x).Cmp(new(big.Rat).SetFloat64(b.x))
				c := Node{"a": node(a), "b": node(b), "want": float64(want)}
				v := checkC15(c)
				v.Sig = append(v.Sig, "floats")
				v.Key = fmt.Sprintf("%s(%v)/%s(%v)", a.kind, a.x, b.kind, b.x)
				v.Case = c
				emit(v)
			}
		}
	}
}
