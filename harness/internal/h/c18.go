package h

import (
	"encoding/json"
	"fmt"
	"strings"
)

// substitute replaces column references x1..x3 of a call expression by literals
// (scalar arguments only).
func substitute(e Node, doc map[string]any, tdoc Node) (Node, bool) {
	switch e["k"] {
	case "col":
		name := strs(e["p"])[0]
		fields, _ := tdoc["f"].(Node)
		tv, ok := fields[name].(Node)
		if !ok {
			return nil, false
		}
		switch tv["t"] {
		case "null", "bool", "num", "str":
			return Lit(tv), true
		}
		return nil, false
	case "fn":
		args := []any{}
		for _, a := range seq(e["args"]) {
			s, ok := substitute(a.(Node), doc, tdoc)
			if !ok {
				return nil, false
			}
			args = append(args, s)
		}
		return Node{"k": "fn", "f": e["f"], "args": args}, true
	}
	return nil, false
}

// one way of executing a C18 case: rows > 0: that many rows, all with the case's value; -2: two rows, the
// second with the value of the rotated arguments; under: the alias the row sits under
type form18 struct {
	name  string
	sql   string
	doc   func() map[string]any
	rows  int
	under string
}

// C18: one built-in call (possibly nested) executed as SELECT f(...) AS v FROM dual,
// FROM a one-row table, and - for scalar arguments - with the arguments as literals.
func checkC18(c Node) Verdict {
	e := c["e"].(Node)
	tdoc := c["doc"].(Node)
	expr := Style{}.Expr(e)
	sig := []string{"fam:" + c["fam"].(string)}
	var walk func(n Node)
	walk = func(n Node) {
		if n["k"] == "fn" {
			sig = append(sig, "fn:"+n["f"].(string))
			for _, a := range seq(n["args"]) {
				walk(a.(Node))
			}
		}
	}
	walk(e)
	fields, _ := tdoc["f"].(Node) // an empty record is printed as []
	for _, v := range fields {
		if v.(Node)["t"] == "null" {
			sig = append(sig, "nullarg")
			break
		}
	}
	var consts map[string]any
	if cn := c["consts"].(Node); cn["t"] == "obj" {
		consts = FromTagged(cn).(map[string]any)
		sig = append(sig, "consts")
	}
	res := c["res"].(Node)
	wantErr := res["t"] == "err"
	var want any
	if !wantErr {
		want = FromTagged(res)
	}
	v := Verdict{OK: true, SQL: "SELECT " + expr + " AS v FROM dual", Sig: sig, Nontrivial: true}
	forms := []form18{
		{"dual", "SELECT " + expr + " AS v FROM dual", func() map[string]any { return FromTagged(tdoc).(map[string]any) }, 1, ""},
		{"table", "SELECT " + expr + " AS v FROM t", func() map[string]any { return map[string]any{"t": []any{FromTagged(tdoc)}} }, 1, ""},
	}
	if lit, ok := substitute(e, nil, tdoc); ok && len(seq(e["args"])) > 0 {
		forms = append(forms, form18{"literal", "SELECT " + Style{}.Expr(lit) + " AS v FROM dual", func() map[string]any { return map[string]any{} }, 1, ""})
	}
	// the same call inside nested statements: a CTE body, a derived table, both sides of a UNION ALL
	one := func(rows ...any) func() map[string]any {
		return func() map[string]any { return map[string]any{"t": DeepCopy(any(rows))} }
	}
	forms = append(forms,
		form18{"cte", "WITH c AS (SELECT " + expr + " AS v FROM t) SELECT * FROM c", one(FromTagged(tdoc)), 1, ""},
		form18{"derived", "SELECT * FROM (SELECT " + expr + " AS v FROM t) x", one(FromTagged(tdoc)), 1, "x"},
		form18{"union", "SELECT " + expr + " AS v FROM t UNION ALL SELECT " + expr + " AS v FROM t", one(FromTagged(tdoc)), 2, ""})
	// two rows, the second with rotated arguments: one call site evaluated twice
	res2, _ := c["res2"].(Node)
	doc2, _ := c["doc2"].(Node)
	var want2 any
	if res2 != nil && res2["t"] != "err" && !wantErr {
		want2 = FromTagged(res2)
		forms = append(forms, form18{"rows2", "SELECT " + expr + " AS v FROM t", one(FromTagged(tdoc), FromTagged(doc2)), -2, ""})
	}
	for _, f := range forms {
		if fam := c["fam"].(string); fam == "decode" || fam == "roundtrip" || fam == "encode" || fam == "pair" {
			// an earlier call that is rejected (unknown base) must leave nothing behind for this one
			Run(map[string]any{}, "SELECT ENCODE('left behind', 'base16') AS v FROM dual", false)
			v.Execs++
		}
		// the document as a caller gets it from encoding/json (whose slices usually have spare capacity)
		out := Run(jsonDecoded(f.doc()), f.sql, false, Opts(nil, nil, consts)...)
		v.Execs++
		fsig := append(append([]string{}, sig...), "form:"+f.name)
		if out.Panic != nil {
			return fail("panic", f.sql, fsig, "panic escaped the API: %v", out.Panic)
		}
		if wantErr {
			if out.Err == nil {
				return fail("noerror", f.sql, fsig, "specification: error; engine returned %s", Canon(any(out.Rows)))
			}
			continue
		}
		if out.Err != nil {
			return fail("error", f.sql, fsig, "specification: %s; engine returned error: %v", Canon(want), out.Err)
		}
		n := f.rows
		if n < 0 {
			n = -n
		}
		if len(out.Rows) != n {
			return fail("result", f.sql, fsig, "expected %d row(s), got %s", n, Canon(any(out.Rows)))
		}
		for i, r := range out.Rows {
			w := want
			if f.rows < 0 && i == 1 {
				w = want2
			}
			row, ok := r.(map[string]any)
			if ok && f.under != "" {
				row, ok = row[f.under].(map[string]any)
			}
			if !ok || len(row) != 1 || !Equal(row["v"], w) {
				return fail("result", f.sql, fsig, "row %d: want v = %s got %s", i+1, Canon(w), Canon(r))
			}
		}
	}
	return v
}

func init() { Replay["C18"] = checkC18 }

// jsonDecoded passes a document through encoding/json.
func jsonDecoded(doc map[string]any) map[string]any {
	b, err := json.Marshal(doc)
	if err != nil {
		return doc
	}
	var out map[string]any
	if json.Unmarshal(b, &out) != nil {
		return doc
	}
	return out
}

// RoundTrip beyond TLC's integers: DECODE(ENCODE(v, b), b) = v is stated for every scalar; the specification checks it on the
// values TLC can hold, this driver on doubles of large magnitude, tiny ones, negative zero's neighbours and long strings.
func init() {
	Drivers["C18:bigroundtrip"] = func(emit func(Verdict)) {
		vals := []any{1e19, 1e21, -1e21, 9.3e18, 9223372036854775808.0, -9223372036854775808.0, 1e300, -1e300, 1.7976931348623157e308, 5e-324, 1e-7, -1e-300,
			4503599627370496.5, 9007199254740993.0, strings.Repeat("long ", 2000), "\x00\xffé ", true, false}
		for _, base := range []string{"base64", "base32", "hex"} {
			for i, val := range vals {
				sql := "SELECT DECODE(ENCODE(v, '" + base + "'), '" + base + "') AS r, ENCODE(v, '" + base + "') = ENCODE(v, '" + base + "') AS same FROM t"
				sig := []string{"fn:encode", "fn:decode", "bigroundtrip", "base:" + base}
				v := Verdict{OK: true, SQL: sql, Sig: sig, Execs: 1, Nontrivial: true}
				out := Run(map[string]any{"t": []any{map[string]any{"v": val}}}, sql, false)
				want := []any{map[string]any{"r": val, "same": true}}
				if out.Panic != nil || out.Err != nil || !ExactEqual(any(out.Rows), any(want)) {
					v = fail("result", sql, sig, "v = %v: want %s got %s", val, Canon(any(want)), out.Describe())
				}
				v.Key, v.Case = fmt.Sprintf("%s/%d", base, i), Node{"sql": sql, "i": i}
				emit(v)
			}
		}
	}
}
