package h

// substitute replaces column references x1..x3 of a call expression by literals
// (scalar arguments only).
func substitute(e Node, doc map[string]any, tdoc Node) (Node, bool) {
	switch e["k"] {
	case "col":
		name := strs(e["p"])[0]
		fields, _ := tdoc["f"].(Node)
		tv, ok := fields[name].(Node)
		if !ok {
			return nil, false
		}
		switch tv["t"] {
		case "null", "bool", "num", "str":
			return Lit(tv), true
		}
		return nil, false
	case "fn":
		args := []any{}
		for _, a := range seq(e["args"]) {
			s, ok := substitute(a.(Node), doc, tdoc)
			if !ok {
				return nil, false
			}
			args = append(args, s)
		}
		return Node{"k": "fn", "f": e["f"], "args": args}, true
	}
	return nil, false
}

// C18: one built-in call (possibly nested) executed as SELECT f(...) AS v FROM dual,
// FROM a one-row table, and - for scalar arguments - with the arguments as literals.
func checkC18(c Node) Verdict {
	e := c["e"].(Node)
	tdoc := c["doc"].(Node)
	expr := Style{}.Expr(e)
	sig := []string{"fam:" + c["fam"].(string)}
	var walk func(n Node)
	walk = func(n Node) {
		if n["k"] == "fn" {
			sig = append(sig, "fn:"+n["f"].(string))
			for _, a := range seq(n["args"]) {
				walk(a.(Node))
			}
		}
	}
	walk(e)
	fields, _ := tdoc["f"].(Node) // an empty record is printed as []
	for _, v := range fields {
		if v.(Node)["t"] == "null" {
			sig = append(sig, "nullarg")
			break
		}
	}
	var consts map[string]any
	if cn := c["consts"].(Node); cn["t"] == "obj" {
		consts = FromTagged(cn).(map[string]any)
		sig = append(sig, "consts")
	}
	res := c["res"].(Node)
	wantErr := res["t"] == "err"
	var want any
	if !wantErr {
		want = FromTagged(res)
	}
	v := Verdict{OK: true, SQL: "SELECT " + expr + " AS v FROM dual", Sig: sig, Nontrivial: true}
	forms := []struct {
		name string
		sql  string
		doc  func() map[string]any
	}{
		{"dual", "SELECT " + expr + " AS v FROM dual", func() map[string]any { return FromTagged(tdoc).(map[string]any) }},
		{"table", "SELECT " + expr + " AS v FROM t", func() map[string]any { return map[string]any{"t": []any{FromTagged(tdoc)}} }},
	}
	if lit, ok := substitute(e, nil, tdoc); ok && len(seq(e["args"])) > 0 {
		forms = append(forms, struct {
			name string
			sql  string
			doc  func() map[string]any
		}{"literal", "SELECT " + Style{}.Expr(lit) + " AS v FROM dual", func() map[string]any { return map[string]any{} }})
	}
	for _, f := range forms {
		out := Run(f.doc(), f.sql, false, Opts(nil, nil, consts)...)
		v.Execs++
		fsig := append(append([]string{}, sig...), "form:"+f.name)
		if out.Panic != nil {
			return fail("panic", f.sql, fsig, "panic escaped the API: %v", out.Panic)
		}
		if wantErr {
			if out.Err == nil {
				return fail("noerror", f.sql, fsig, "specification: error; engine returned %s", Canon(any(out.Rows)))
			}
			continue
		}
		if out.Err != nil {
			return fail("error", f.sql, fsig, "specification: %s; engine returned error: %v", Canon(want), out.Err)
		}
		if len(out.Rows) != 1 {
			return fail("result", f.sql, fsig, "expected one row, got %s", Canon(any(out.Rows)))
		}
		row, ok := out.Rows[0].(map[string]any)
		if !ok || len(row) != 1 || !Equal(row["v"], want) {
			return fail("result", f.sql, fsig, "want v = %s got %s", Canon(want), Canon(out.Rows[0]))
		}
	}
	return v
}

func init() { Replay["C18"] = checkC18 }
