package h

import "github.com/vedadiyan/genql"

func hasFault(q any) bool {
	switch x := q.(type) {
	case []any:
		for _, e := range x {
			if hasFault(e) {
				return true
			}
		}
	case map[string]any:
		if x["k"] == "fn" {
			if f, _ := x["f"].(string); f == "boom" || f == "raise" || f == "raise_when" {
				return true
			}
		}
		for _, e := range x {
			if hasFault(e) {
				return true
			}
		}
	}
	return false
}

// C11: the caller's document after New + Exec is deep-equal to a copy taken before -
// for the fault shapes at every fault point, for every other family plain and Wrapped.
func checkC11(c Node) Verdict {
	q := c["q"].(Node)
	if hasFault(q) || c["fam"] == "type_select" || c["fam"] == "type_where" || c["fam"] == "type_cte" || c["fam"] == "type_sub" {
		return FaultCheck(c, "C11")
	}
	sig := Features(q)
	v := Verdict{OK: true, Sig: sig}
	for _, wrapped := range []bool{false, true} {
		st, opts, wsig := Style{}, []string{}, sig
		if wrapped {
			st, opts, wsig = Style{Root: true}, []string{"wrapped"}, append(append([]string{}, sig...), "wrapped")
		}
		sql := st.Query(q)
		if v.SQL == "" {
			v.SQL = sql
		}
		pristine := FromTagged(c["doc"])
		doc := FromTagged(c["doc"]).(map[string]any)
		out := Run(doc, sql, false, Opts(opts, nil, nil)...)
		v.Execs++
		if out.Panic != nil {
			return fail("panic", sql, wsig, "panic escaped the API: %v", out.Panic)
		}
		if !Equal(any(doc), pristine) {
			return fail("docmut", sql, wsig, "the caller's document after a %s call: %s, before: %s", okWord(out), Canon(any(doc)), Canon(pristine))
		}
		// the result must not alias mutable state of the document either: a second statement sees the same input
		out2 := Run(doc, sql, false, Opts(opts, nil, nil)...)
		v.Execs++
		if !Equal(any(doc), pristine) {
			return fail("docmut", sql, wsig, "the caller's document after two calls: %s, before: %s", Canon(any(doc)), Canon(pristine))
		}
		_ = out2
	}
	for _, f := range sig {
		switch f {
		case "sub", "exists", "insub", "with", "derived", "orderby", "groupby", "distinct", "union", "fn:fuse":
			v.Nontrivial = true
		}
		if len(f) > 4 && (f[:4] == "agg:" || f[:5] == "join:") {
			v.Nontrivial = true
		}
	}
	return v
}

func init() { Replay["C11"] = checkC11 }

// ---- statements outside the specification's AST: the invariant needs no model of their results ---------------------
//
// DocUnchanged (Engine.tla, Markers.tla) says one thing about every statement, whatever it returns: the caller's
// document afterwards is the document before. For constructs the query AST of the specification does not cover (FUSE,
// selectors with ranges and pipes in FROM, GROUP BY on nested paths, aliased dual, INTO joins ...) that is checked on
// statement texts directly: one rich document, every text run twice (also as a retry of the same Query), deep comparison.

var texts11 = []string{
	"SELECT a FROM t GROUP BY a, a.c",
	"SELECT o FROM solo GROUP BY o, o.zz",
	"SELECT deep FROM solo GROUP BY deep, deep.b.c",
	"SELECT deep FROM solo GROUP BY deep.b.c, deep",
	"SELECT deep FROM solo GROUP BY deep, deep.b.y.q, deep.b.c",
	"SELECT x.deep FROM solo x GROUP BY x.deep, x.deep.b.y.w",
	"SELECT deep FROM t GROUP BY deep.b, deep.b.y.zz",
	"SELECT a, (SELECT p FROM n) AS s FROM mk",
	"SELECT a FROM mk WHERE EXISTS (SELECT * FROM n WHERE p > 0)",
	"SELECT a, (SELECT COUNT(*) AS k FROM n) AS s FROM mk WHERE EXISTS (SELECT * FROM n) OR a > 1",
	"SELECT * FROM mk WHERE a IN (SELECT p FROM n)",
	"SELECT o FROM solo GROUP BY o.zz, o",
	"SELECT x.o FROM solo x GROUP BY x.o, x.o.k.deeper",
	"SELECT o, COUNT(*) AS c FROM solo GROUP BY o, o.k HAVING COUNT(*) > 0",
	"SELECT o FROM t GROUP BY o, o.k",
	"SELECT x.o FROM t x GROUP BY x.o, x.o.zz",
	"SELECT o.k, COUNT(*) AS c FROM t GROUP BY o.k",
	"SELECT FUSE(o), a FROM t",
	"SELECT FUSE(o), * FROM t",
	"SELECT FUSE(o) AS p, a, s FROM t WHERE a > 1",
	"SELECT a, FUSE(o) FROM t ORDER BY a DESC",
	"SELECT DEFAULTKEY(one) AS v, a FROM t",
	"SELECT CASE WHEN lim > 5 THEN 'high' ELSE 'low' END AS level FROM dual d",
	"SELECT lim + 1 AS v, (SELECT a FROM t WHERE a > 1) AS s FROM dual d",
	"SELECT * FROM dual d WHERE EXISTS (SELECT * FROM t WHERE a > lim)",
	"SELECT * FROM `pages[each:(0:2)]`",
	"SELECT p FROM `pages[each:(1:end)]` WHERE p > 0",
	"SELECT * FROM `pages[keep=>each:(0:1)]`",
	"SELECT * FROM `pages[0:(0:2)]`",
	"SELECT * FROM `t{a|string, s}`",
	"SELECT * FROM `t[each].n[(0:1)]`",
	"SELECT * FROM `mix=>pages`",
	"SELECT * FROM `distinct=>t[each].n`",
	"SELECT `n[(0:1)].p` AS p, `o{k|string}` AS ok FROM t",
	"SELECT * FROM t x JOIN u y INTO z ON x.a = y.c",
	"SELECT * FROM t x LEFT JOIN u y INTO z ON x.a >= y.c",
	"SELECT * FROM t x JOIN u y USING (c)",
	"SELECT * FROM t LEFT JOIN u y ON a >= y.c AND g < y.c",
	"SELECT * FROM u y RIGHT JOIN t ON a = y.c AND g < y.c",
	"SELECT a FROM t UNION SELECT c FROM u ORDER BY a DESC LIMIT 2",
	"SELECT n FROM t ORDER BY n",
	"SELECT o, n FROM t ORDER BY o DESC LIMIT 1, 2",
	"SELECT DISTINCT o, n FROM t",
	"SELECT ARRAY(n, o, a) AS v, UNWIND(ARRAY(n, n)) AS w FROM t",
	"SELECT a, ASYNC.slow(a) AS v, SPINASYNC.slow(a) FROM t",
	"SELECT a, ONCE.slow(a) AS v FROM t",
	"SELECT a FROM t WHERE a IN (SELECT c FROM `<-u`) AND EXISTS (SELECT * FROM n WHERE p >= a)",
	"WITH c AS (SELECT * FROM t ORDER BY a DESC), d AS (SELECT x.a FROM c x JOIN c y ON x.a = y.a) SELECT * FROM d UNION SELECT a FROM c",
	"SELECT SUBSTR(s, 0, 1) AS v, CONCAT(s, a, o) AS w FROM t",
	"SELECT * FROM pages",
	"SELECT p FROM pages WHERE p > 1 ORDER BY p DESC",
}

func doc11() map[string]any {
	row := func(a float64, s string, k float64, ps ...float64) map[string]any {
		n := []any{}
		for _, p := range ps {
			n = append(n, map[string]any{"p": p})
		}
		return map[string]any{"a": a, "c": a, "g": float64(int(a) % 2), "s": s, "o": map[string]any{"k": k}, "one": map[string]any{"only": s}, "n": n,
			"deep": map[string]any{"b": map[string]any{"x": k, "y": map[string]any{"z": s}}}}
	}
	page := func(ps ...float64) []any {
		out := []any{}
		for _, p := range ps {
			out = append(out, map[string]any{"p": p})
		}
		return out
	}
	return map[string]any{
		"lim":   float64(7),
		"solo":  []any{row(4, "z", 5, 1)},
		"t":     []any{row(1, "x", 1, 1, 2, 3), row(3, "y", 2), row(2, "x", 2, 5, 6, 7, 8)},
		"u":     []any{map[string]any{"c": float64(3)}, map[string]any{"c": float64(1)}, map[string]any{"c": float64(9)}},
		"pages": []any{page(1, 2, 3, 4), page(5, 6), page(7, 8, 9)},
		// rows that have a key of their own spelled like the engine's back-reference
		"mk": []any{map[string]any{"a": float64(1), "<-": float64(5), "n": page(1, 2)}, map[string]any{"a": float64(2), "<-": "mine", "n": page()}},
	}
}

func init() {
	Drivers["C11:texts"] = func(emit func(Verdict)) {
		for _, sql := range texts11 {
			for _, variant := range []string{"plain", "json", "retry"} {
				sig := []string{"text", "variant:" + variant}
				v := Verdict{OK: true, SQL: sql, Sig: sig, Execs: 2, Nontrivial: true}
				doc := doc11()
				if variant == "json" {
					doc = jsonDecoded(doc) // slices with spare capacity, as encoding/json builds them
				}
				pristine := DeepCopy(any(doc))
				func() {
					defer func() {
						if p := recover(); p != nil {
							v = fail("panic", sql, sig, "panic escaped the API: %v", p)
						}
					}()
					q, err := genql.New(doc, sql)
					if err == nil {
						_, err = q.Exec()
						if variant == "retry" {
							q.Exec()
						}
					}
					if !Equal(any(doc), pristine) {
						v = fail("docmut", sql, sig, "the caller's document after a %s call: %s, before: %s", map[bool]string{true: "successful", false: "failed"}[err == nil], Canon(any(doc)), Canon(pristine))
						return
					}
					// ... and after a second statement on the same document object
					Run(doc, sql, false)
					if !Equal(any(doc), pristine) {
						v = fail("docmut", sql, sig, "the caller's document after two calls: %s, before: %s", Canon(any(doc)), Canon(pristine))
					}
				}()
				v.Key, v.Case = sql+"/"+variant, Node{"sql": sql, "variant": variant}
				emit(v)
			}
		}
	}
}
