package h

func hasFault(q any) bool {
	switch x := q.(type) {
	case []any:
		for _, e := range x {
			if hasFault(e) {
				return true
			}
		}
	case map[string]any:
		if x["k"] == "fn" {
			if f, _ := x["f"].(string); f == "boom" || f == "raise" || f == "raise_when" {
				return true
			}
		}
		for _, e := range x {
			if hasFault(e) {
				return true
			}
		}
	}
	return false
}

// C11: the caller's document after New + Exec is deep-equal to a copy taken before -
// for the fault shapes at every fault point, for every other family plain and Wrapped.
func checkC11(c Node) Verdict {
	q := c["q"].(Node)
	if hasFault(q) || c["fam"] == "type_select" || c["fam"] == "type_where" || c["fam"] == "type_cte" || c["fam"] == "type_sub" {
		return FaultCheck(c, "C11")
	}
	sig := Features(q)
	v := Verdict{OK: true, Sig: sig}
	for _, wrapped := range []bool{false, true} {
		st, opts, wsig := Style{}, []string{}, sig
		if wrapped {
			st, opts, wsig = Style{Root: true}, []string{"wrapped"}, append(append([]string{}, sig...), "wrapped")
		}
		sql := st.Query(q)
		if v.SQL == "" {
			v.SQL = sql
		}
		pristine := FromTagged(c["doc"])
		doc := FromTagged(c["doc"]).(map[string]any)
		out := Run(doc, sql, false, Opts(opts, nil, nil)...)
		v.Execs++
		if out.Panic != nil {
			return fail("panic", sql, wsig, "panic escaped the API: %v", out.Panic)
		}
		if !Equal(any(doc), pristine) {
			return fail("docmut", sql, wsig, "the caller's document after a %s call: %s, before: %s", okWord(out), Canon(any(doc)), Canon(pristine))
		}
		// the result must not alias mutable state of the document either: a second statement sees the same input
		out2 := Run(doc, sql, false, Opts(opts, nil, nil)...)
		v.Execs++
		if !Equal(any(doc), pristine) {
			return fail("docmut", sql, wsig, "the caller's document after two calls: %s, before: %s", Canon(any(doc)), Canon(pristine))
		}
		_ = out2
	}
	for _, f := range sig {
		switch f {
		case "sub", "exists", "insub", "with", "derived", "orderby", "groupby", "distinct", "union":
			v.Nontrivial = true
		}
		if len(f) > 4 && (f[:4] == "agg:" || f[:5] == "join:") {
			v.Nontrivial = true
		}
	}
	return v
}

func init() { Replay["C11"] = checkC11 }
