package h

import (
	"encoding/json"
	"fmt"
	"io"
	"math/rand"
)

// ---- AST constructors (same record shapes as spec/Gen.tla) -------------------

func TNull() Node        { return Node{"t": "null"} }
func TBool(b bool) Node  { return Node{"t": "bool", "b": b} }
func TNum(n, d int) Node { return Node{"t": "num", "n": n, "d": d} }
func TInt(n int) Node    { return TNum(n, 1) }
func TArr(es []any) Node { return Node{"t": "arr", "e": es} }
func TObj(f Node) Node   { return Node{"t": "obj", "f": f} }
func TStr(s string) Node {
	cps := []any{}
	for _, r := range s {
		cps = append(cps, int(r))
	}
	return Node{"t": "str", "c": cps}
}

func None() Node { return Node{"k": "none"} }
func Col(p ...string) Node {
	ps := make([]any, len(p))
	for i, s := range p {
		ps[i] = s
	}
	return Node{"k": "col", "p": ps}
}
func Lit(v Node) Node               { return Node{"k": "lit", "v": v} }
func Bin(op string, l, r Node) Node { return Node{"k": "bin", "op": op, "l": l, "r": r} }
func Un(op string, e Node) Node     { return Node{"k": "un", "op": op, "e": e} }
func CmpE(op string, l, r Node) Node {
	return Node{"k": "cmp", "op": op, "l": l, "r": r}
}
func LikeE(neg bool, l, r Node) Node { return Node{"k": "like", "neg": neg, "l": l, "r": r} }
func InE(neg bool, l Node, list []any) Node {
	return Node{"k": "in", "neg": neg, "l": l, "list": list}
}
func InSub(l, q Node) Node { return Node{"k": "insub", "l": l, "q": q} }
func Between(neg bool, e, lo, hi Node) Node {
	return Node{"k": "between", "neg": neg, "e": e, "lo": lo, "hi": hi}
}
func IsE(op string, e Node) Node { return Node{"k": "is", "op": op, "e": e} }
func AndE(l, r Node) Node        { return Node{"k": "and", "l": l, "r": r} }
func OrE(l, r Node) Node         { return Node{"k": "or", "l": l, "r": r} }
func NotE(e Node) Node           { return Node{"k": "not", "e": e} }
func CaseE(whens []any, els Node) Node {
	return Node{"k": "case", "whens": whens, "els": els}
}
func Agg(f string, p ...string) Node {
	ps := make([]any, len(p))
	for i, s := range p {
		ps[i] = s
	}
	return Node{"k": "agg", "f": f, "p": ps}
}
func Star() Node { return Node{"k": "star"} }
func Item(e Node, as string) Node {
	return Node{"k": "item", "e": e, "as": as}
}
func Table(as string, p ...string) Node {
	ps := make([]any, len(p))
	for i, s := range p {
		ps[i] = s
	}
	return Node{"k": "table", "p": ps, "as": as}
}
func Derived(q Node, as string) Node { return Node{"k": "derived", "q": q, "as": as} }

// BaseQ is SELECT * FROM t.
func BaseQ() Node {
	return Node{"k": "select", "with": []any{}, "sel": []any{Star()}, "from": Table("", "t"),
		"where": None(), "group": []any{}, "having": None(), "distinct": false,
		"order": []any{}, "limit": -1, "offset": -1}
}

// With returns a copy of q with fields replaced.
func With(q Node, kv ...any) Node {
	c := Node{}
	for k, v := range q {
		c[k] = v
	}
	for i := 0; i+1 < len(kv); i += 2 {
		c[kv[i].(string)] = kv[i+1]
	}
	return c
}

// ---- random generation ------------------------------------------------------------

type Gen struct{ R *rand.Rand }

func NewGen(seed int64) *Gen { return &Gen{R: rand.New(rand.NewSource(seed))} }

func (g *Gen) Pick(xs ...any) any { return xs[g.R.Intn(len(xs))] }
func (g *Gen) Str(pool []string) string {
	return pool[g.R.Intn(len(pool))]
}

var strPool = []string{"10", "9", "1.0", "1", "007", "1e1", "", "a", "B", "ab", "Ab", "aB", "ba", "(a", "a)", "a.b", "x*y", "a+", "[z]", "q?", "^a", "a$", "a|b",
	"héllo", "HÉLLO", "a b", "%", "_", "abc", "ABC", "b", "a\nb", "a\n", "\tb"}
var patPool = []string{"", "%", "_", "a%", "%a", "%b%", "_b", "a_", "(%", "%)", "a.b", "a.%", "x*%", "%+", "[%]", "q?", "^%", "%$", "a|b",
	"h_llo", "%LLO", "a b", "a%b%", "__", "%_%", "ABC", "abc"}

// typed column schema of the generated tables
type ColSpec struct {
	Name string
	Kind string // num str bool nnum (nullable number) half (numbers with .5)
}

func (g *Gen) Value(kind string) Node {
	switch kind {
	case "num":
		return TInt(g.R.Intn(13) - 3)
	case "half":
		return TNum(g.R.Intn(21)-5, 2)
	case "str":
		return TStr(g.Str(strPool))
	case "bool":
		return TBool(g.R.Intn(2) == 0)
	case "nnum":
		if g.R.Intn(3) == 0 {
			return TNull()
		}
		return TInt(g.R.Intn(5))
	}
	panic(kind)
}

// normalise n/d the way spec/Values.tla does
func (g *Gen) Rows(cols []ColSpec, n int) []any {
	rows := make([]any, n)
	for i := range rows {
		f := Node{}
		for _, c := range cols {
			v := g.Value(c.Kind)
			if v["t"] == "num" {
				v = normNum(v)
			}
			f[c.Name] = v
		}
		rows[i] = TObj(f)
	}
	// duplicates are part of the domain
	if n > 1 && g.R.Intn(3) == 0 {
		rows[g.R.Intn(n)] = rows[g.R.Intn(n)]
	}
	return rows
}

func normNum(v Node) Node {
	n, d := v["n"].(int), v["d"].(int)
	a, b := n, d
	if a < 0 {
		a = -a
	}
	for b != 0 {
		a, b = b, a%b
	}
	if a == 0 {
		a = 1
	}
	return TNum(n/a, d/a)
}

func colsOf(cols []ColSpec, kind string) []string {
	out := []string{}
	for _, c := range cols {
		if c.Kind == kind {
			out = append(out, c.Name)
		}
	}
	return out
}

// Pred generates a predicate of the C01 grammar over the schema.
func (g *Gen) Pred(cols []ColSpec, depth int) Node {
	if depth > 0 && g.R.Intn(3) != 0 {
		switch g.R.Intn(3) {
		case 0:
			return NotE(g.Pred(cols, depth-1))
		case 1:
			return AndE(g.Pred(cols, depth-1), g.Pred(cols, depth-1))
		default:
			return OrE(g.Pred(cols, depth-1), g.Pred(cols, depth-1))
		}
	}
	return g.Atom(cols)
}

var cmpOps = []string{"=", "!=", "<", "<=", ">", ">="}

func (g *Gen) numExpr(cols []ColSpec, depth int) Node {
	nums := colsOf(cols, "num")
	if depth > 0 && g.R.Intn(2) == 0 {
		op := g.Pick("+", "-", "*").(string)
		return Bin(op, g.numExpr(cols, depth-1), g.numExpr(cols, depth-1))
	}
	if len(nums) > 0 && g.R.Intn(3) != 0 {
		return Col(nums[g.R.Intn(len(nums))])
	}
	return Lit(TInt(g.R.Intn(9) - 2))
}

func (g *Gen) Atom(cols []ColSpec) Node {
	nums, strsC, bools, nn := colsOf(cols, "num"), colsOf(cols, "str"), colsOf(cols, "bool"), colsOf(cols, "nnum")
	for {
		switch g.R.Intn(9) {
		case 0:
			if len(nums) > 0 {
				return CmpE(g.Str(cmpOps), g.numExpr(cols, 1), g.numExpr(cols, 1))
			}
		case 1:
			if len(strsC) > 0 {
				return CmpE(g.Str(cmpOps), Col(g.Str(strsC)), Lit(TStr(g.Str(strPool))))
			}
		case 2:
			if len(nums) > 0 {
				list := []any{}
				for i := 0; i <= g.R.Intn(4); i++ {
					list = append(list, Lit(TInt(g.R.Intn(9)-2)))
				}
				return InE(g.R.Intn(2) == 0, Col(g.Str(nums)), list)
			}
		case 3:
			if len(strsC) > 0 {
				list := []any{}
				for i := 0; i <= g.R.Intn(4); i++ {
					list = append(list, Lit(TStr(g.Str(strPool))))
				}
				return InE(g.R.Intn(2) == 0, Col(g.Str(strsC)), list)
			}
		case 4:
			if len(nums) > 0 {
				return Between(g.R.Intn(2) == 0, Col(g.Str(nums)), Lit(TInt(g.R.Intn(9)-2)), Lit(TInt(g.R.Intn(9)-2)))
			}
		case 5:
			if len(strsC) > 0 {
				return Between(g.R.Intn(2) == 0, Col(g.Str(strsC)), Lit(TStr(g.Str(strPool))), Lit(TStr(g.Str(strPool))))
			}
		case 6:
			if len(strsC) > 0 {
				return LikeE(g.R.Intn(2) == 0, Col(g.Str(strsC)), Lit(TStr(g.Str(patPool))))
			}
		case 7:
			if len(bools) > 0 {
				return IsE(g.Pick("true", "false", "nottrue", "notfalse").(string), Col(g.Str(bools)))
			}
		case 8:
			if len(nn) > 0 {
				return IsE(g.Pick("null", "notnull").(string), Col(g.Str(nn)))
			}
		}
	}
}

// ---- trace recording ------------------------------------------------------------

// RecordEngine runs q on doc (both abstract) with the real library and writes
// the call / stage / ret events of the top-level query.
func RecordEngine(w io.Writer, q Node, doc Node, st Style, options []string) (events int, out Outcome) {
	return RecordEngineOn(w, q, doc, FromTagged(doc).(map[string]any), st, options)
}

// RecordEngineOn is RecordEngine on an existing real document (a history of statements
// sharing one input): the call event carries the document as the caller first built it.
func RecordEngineOn(w io.Writer, q Node, doc Node, real map[string]any, st Style, options []string) (events int, out Outcome) {
	enc := json.NewEncoder(w)
	call := Node{"ev": "call", "q": q, "doc": doc}
	if b := BeyondClaims(q); len(b) > 0 {
		call["beyond"] = b
	}
	enc.Encode(call)
	events++
	out = Run(real, st.Query(q), true, Opts(options, nil, nil)...)
	for _, e := range out.Stages {
		if !e.Top {
			continue
		}
		rows := e.Rows.(Node)["e"]
		if rows == nil {
			rows = []any{}
		}
		enc.Encode(Node{"ev": "stage", "st": e.Stage, "rows": rows})
		events++
	}
	if out.Err != nil || out.Panic != nil {
		enc.Encode(Node{"ev": "ret", "ok": false})
	} else {
		enc.Encode(Node{"ev": "ret", "ok": true, "rows": ToTagged(any(out.Rows)).(Node)["e"]})
	}
	events++
	return
}

func init() {
	Retrace["C01"] = engineRetrace
	TraceGen["C01"] = func(seed int64, n int, tier string, w io.Writer) TraceInfo {
		g := NewGen(seed)
		cols := []ColSpec{{"a", "num"}, {"c", "num"}, {"s", "str"}, {"b", "bool"}, {"n", "nnum"}}
		info := TraceInfo{}
		for i := 0; i < n; i++ {
			rows := g.Rows(cols, g.R.Intn(9))
			doc := TObj(Node{"t": TArr(rows)})
			q := With(BaseQ(), "where", g.Pred(cols, 1+g.R.Intn(5)))
			real := FromTagged(doc).(map[string]any)
			ev, out := RecordEngineOn(w, q, doc, real, Style{}, nil)
			if g.R.Intn(2) == 0 {
				// a second statement (the negation) on the same document object
				ev2, _ := RecordEngineOn(w, With(q, "where", NotE(q["where"].(Node))), doc, real, Style{}, nil)
				ev += ev2
				info.Queries++
			}
			info.Queries++
			info.Events += ev
			if len(info.Samples) < 3 {
				info.Samples = append(info.Samples, out.SQL)
			}
		}
		return info
	}
}

// ---- C05: ORDER BY / LIMIT / OFFSET beyond the exhaustive bounds -------------------

func (g *Gen) OrderQuery(cols []ColSpec) Node {
	keyable := []string{}
	for _, c := range cols {
		if c.Kind != "nnum" && c.Kind != "bool" {
			keyable = append(keyable, c.Name)
		}
	}
	order := []any{}
	if g.R.Intn(5) == 0 {
		// the single nullable key
		order = append(order, Node{"key": []any{"n"}, "asc": g.R.Intn(2) == 0})
	} else {
		g.R.Shuffle(len(keyable), func(i, j int) { keyable[i], keyable[j] = keyable[j], keyable[i] })
		for i := 0; i < 1+g.R.Intn(3) && i < len(keyable); i++ {
			order = append(order, Node{"key": []any{keyable[i]}, "asc": g.R.Intn(2) == 0})
		}
	}
	q := With(BaseQ(), "order", order)
	switch g.R.Intn(4) {
	case 0:
	case 1:
		q["limit"] = g.R.Intn(12)
	default:
		q["limit"], q["offset"] = g.R.Intn(12), g.R.Intn(12)
		if g.R.Intn(2) == 0 {
			q["limstyle"] = "comma"
		}
	}
	if g.R.Intn(6) == 0 {
		q["order"] = []any{}
	}
	return q
}

func init() {
	Retrace["C05"] = engineRetrace
	TraceGen["C05"] = func(seed int64, n int, tier string, w io.Writer) TraceInfo {
		g := NewGen(seed)
		cols := []ColSpec{{"a", "num"}, {"h", "half"}, {"s", "str"}, {"n", "nnum"}}
		info := TraceInfo{}
		for i := 0; i < n; i++ {
			rows := g.Rows(cols, g.R.Intn(11))
			doc := TObj(Node{"t": TArr(rows)})
			q := g.OrderQuery(cols)
			ev, out := RecordEngine(w, q, doc, Style{}, nil)
			info.Queries++
			info.Events += ev
			if len(info.Samples) < 3 {
				info.Samples = append(info.Samples, out.SQL)
			}
		}
		return info
	}
}

// ---- C02: projection beyond the exhaustive bounds --------------------------------------

// arith generates an arithmetic tree whose exact value stays small enough for TLC's
// 32-bit rationals: at most `mul` multiplications / shifts, divisions only by small
// literals, bit operators on non-negative integer columns.
func (g *Gen) arith(depth int, mul *int) Node {
	if depth == 0 || g.R.Intn(4) == 0 {
		switch g.R.Intn(6) {
		case 0:
			return Col("a")
		case 1:
			return Col("h")
		case 2:
			return Col("n", "p")
		case 3:
			return Col("m")
		case 4:
			return Lit(TInt(g.R.Intn(7) - 2))
		default:
			return Lit(normNum(TNum(g.R.Intn(9)-2, 2)))
		}
	}
	switch g.R.Intn(10) {
	case 0, 1, 2:
		return Bin(g.Pick("+", "-").(string), g.arith(depth-1, mul), g.arith(depth-1, mul))
	case 3:
		if *mul > 0 {
			*mul--
			return Bin("*", g.arith(depth-1, mul), g.arith(depth-1, mul))
		}
		return Bin("+", g.arith(depth-1, mul), g.arith(depth-1, mul))
	case 4:
		return Bin("/", g.arith(depth-1, mul), Lit(TInt(g.Pick(2, 4, 5, 10).(int))))
	case 5:
		return Bin(g.Pick("div", "%").(string), g.arith(depth-1, mul), Lit(TInt(g.Pick(2, 3, 7).(int))))
	case 6:
		return Bin(g.Pick("&", "|", "^").(string), Col("u"), Lit(TInt(g.R.Intn(16))))
	case 7:
		if *mul > 0 {
			*mul--
			return Bin(g.Pick("<<", ">>").(string), Col("u"), Lit(TInt(g.R.Intn(4))))
		}
		return Un("~", Col("u"))
	case 8:
		return Un("-", Bin("+", g.arith(depth-1, mul), Lit(TInt(1))))
	default:
		cond := CmpE(g.Str(cmpOps), Col("a"), Lit(TInt(g.R.Intn(9)-2)))
		els := None()
		if g.R.Intn(2) == 0 {
			els = g.arith(depth-1, mul)
		}
		return CaseE([]any{Node{"c": cond, "v": g.arith(depth-1, mul)}}, els)
	}
}

func init() {
	Retrace["C02"] = engineRetrace
	TraceGen["C02"] = func(seed int64, n int, tier string, w io.Writer) TraceInfo {
		g := NewGen(seed)
		info := TraceInfo{}
		for i := 0; i < n; i++ {
			nr := g.R.Intn(7)
			rows := make([]any, nr)
			for j := range rows {
				rows[j] = TObj(Node{"a": TInt(g.R.Intn(13) - 3), "h": normNum(TNum(g.R.Intn(21)-5, 2)), "u": TInt(g.R.Intn(40)),
					"n": TObj(Node{"p": TInt(g.R.Intn(6))}), "s": TStr(g.Str(strPool))})
			}
			doc := TObj(Node{"t": TArr(rows)})
			sel := []any{}
			names := []string{"v", "w", "a", "x", "s"}
			for k := 0; k <= g.R.Intn(4); k++ {
				switch g.R.Intn(6) {
				case 0:
					sel = append(sel, Star())
				case 1:
					sel = append(sel, Item(Col(g.Pick("a", "s", "m", "h").(string)), ""))
				default:
					mul := 2
					sel = append(sel, Item(g.arith(1+g.R.Intn(5), &mul), names[g.R.Intn(len(names))]))
				}
			}
			q := With(BaseQ(), "sel", sel)
			if g.R.Intn(2) == 0 {
				q["where"] = CmpE(g.Str(cmpOps), Col("a"), Lit(TInt(g.R.Intn(9)-2)))
			}
			ev, out := RecordEngine(w, q, doc, Style{}, nil)
			info.Queries++
			info.Events += ev
			if len(info.Samples) < 3 {
				info.Samples = append(info.Samples, out.SQL)
			}
		}
		return info
	}
}

// ---- C03: GROUP BY / aggregates beyond the exhaustive bounds ---------------------------

func AggItem(f, col, as string) Node {
	if col == "" {
		return Item(Agg(f), as)
	}
	return Item(Agg(f, col), as)
}

func init() {
	Retrace["C03"] = engineRetrace
	TraceGen["C03"] = func(seed int64, n int, tier string, w io.Writer) TraceInfo {
		g := NewGen(seed)
		info := TraceInfo{}
		zs := []Node{TNull(), TInt(1), TStr("1"), TStr("<nil>"), TInt(2), TStr("x")}
		for i := 0; i < n; i++ {
			nr := g.R.Intn(11)
			rows := make([]any, nr)
			for j := range rows {
				b := TNull()
				if g.R.Intn(3) != 0 {
					b = TInt(g.R.Intn(9))
				}
				rows[j] = TObj(Node{"g": TInt(g.R.Intn(3)), "h": TStr(g.Pick("x", "y", "X", "").(string)), "z": zs[g.R.Intn(len(zs))],
					"a": TInt(g.R.Intn(12) - 2), "b": b, "d": normNum(TNum(g.R.Intn(9), 2))})
			}
			doc := TObj(Node{"t": TArr(rows)})
			q := BaseQ()
			aggs := func(k int) []any {
				out := []any{}
				names := []string{"p", "q", "r", "s"}
				for x := 0; x < k; x++ {
					f := g.Pick("count", "sum", "min", "max", "avg").(string)
					col := g.Pick("a", "b", "d").(string)
					if f == "count" && g.R.Intn(2) == 0 {
						col = ""
					} else if f == "count" || f == "avg" {
						col = g.Pick("a", "d").(string) // NULL-free columns only
					}
					out = append(out, AggItem(f, col, names[x]))
				}
				return out
			}
			if g.R.Intn(4) == 0 {
				q["sel"] = aggs(1 + g.R.Intn(4))
			} else {
				gcols := []string{"g", "h", "z"}
				g.R.Shuffle(3, func(a, b int) { gcols[a], gcols[b] = gcols[b], gcols[a] })
				gcols = gcols[:1+g.R.Intn(3)]
				group, sel := []any{}, []any{}
				for _, c := range gcols {
					group = append(group, c)
					if g.R.Intn(5) != 0 {
						sel = append(sel, Item(Col(c), ""))
					}
				}
				q["group"] = group
				sel = append(sel, aggs(1+g.R.Intn(4))...)
				if g.R.Intn(8) == 0 {
					sel = []any{Star()}
				}
				q["sel"] = sel
				switch g.R.Intn(4) {
				case 0:
					q["having"] = CmpE(g.Str(cmpOps), Agg("count"), Lit(TInt(g.R.Intn(4))))
				case 1:
					q["having"] = CmpE(g.Str(cmpOps), Agg(g.Pick("sum", "max", "min").(string), "a"), Lit(TInt(g.R.Intn(12))))
				}
			}
			if g.R.Intn(2) == 0 {
				q["where"] = CmpE(g.Str(cmpOps), Col("a"), Lit(TInt(g.R.Intn(12)-2)))
			}
			ev, out := RecordEngine(w, q, doc, Style{}, nil)
			info.Queries++
			info.Events += ev
			if len(info.Samples) < 3 {
				info.Samples = append(info.Samples, out.SQL)
			}
		}
		return info
	}
}

// ---- C06: DISTINCT / UNION beyond the exhaustive bounds ---------------------------------

func init() {
	Retrace["C06"] = engineRetrace
	TraceGen["C06"] = func(seed int64, n int, tier string, w io.Writer) TraceInfo {
		g := NewGen(seed)
		info := TraceInfo{}
		avals := []Node{TInt(1), TInt(2), TStr("1"), TStr("x"), TStr("x b:y"), TStr("map[a:1]"), TInt(3)}
		bvals := []Node{TStr("y"), TStr("z"), TNull(), TInt(1), TBool(true)}
		table := func() Node {
			rows := make([]any, g.R.Intn(7))
			for j := range rows {
				f := Node{"a": avals[g.R.Intn(len(avals))]}
				if g.R.Intn(4) != 0 {
					f["b"] = bvals[g.R.Intn(len(bvals))]
				}
				rows[j] = TObj(f)
			}
			return TArr(rows)
		}
		for i := 0; i < n; i++ {
			doc := TObj(Node{"t": table(), "u": table(), "v": table(), "w": table()})
			var q Node
			sels := [][]any{{Star()}, {Item(Col("a"), "")}, {Item(Col("a"), ""), Item(Col("b"), "")}, {Item(Col("b"), "k"), Item(Col("a"), "")}}
			if g.R.Intn(3) == 0 {
				q = With(BaseQ(), "sel", sels[g.R.Intn(len(sels))], "distinct", g.R.Intn(5) != 0)
			} else {
				sel := sels[g.R.Intn(len(sels))]
				names := []string{"t", "u", "v", "w"}
				br := func(k int) Node {
					b := With(BaseQ(), "sel", sel, "from", Table("", names[k]))
					if g.R.Intn(4) == 0 {
						b["distinct"] = true
					}
					return b
				}
				q = br(0)
				for k := 1; k < 2+g.R.Intn(3); k++ {
					q = Node{"k": "union", "l": q, "r": br(k), "all": g.R.Intn(2) == 0, "limit": -1, "offset": -1}
				}
			}
			switch g.R.Intn(4) {
			case 0:
				q["limit"] = g.R.Intn(8)
			case 1:
				q["limit"], q["offset"] = g.R.Intn(8), g.R.Intn(6)
			}
			ev, out := RecordEngine(w, q, doc, Style{}, nil)
			info.Queries++
			info.Events += ev
			if len(info.Samples) < 3 {
				info.Samples = append(info.Samples, out.SQL)
			}
		}
		return info
	}
}

// ---- C04 / C07 / C08: executions beyond the exhaustive bounds -------------------------------

func (g *Gen) joinOn(depth int) Node {
	cmp := func() Node {
		var l, r Node
		op := g.Str(cmpOps)
		if g.R.Intn(2) == 0 {
			l, r = Col("x", "a"), Col("y", "m")
		} else {
			l, r = Col("x", "z"), Col("y", "b")
			op = g.Pick("=", "!=", "<", ">=").(string)
		}
		if g.R.Intn(3) == 0 {
			op = "="
		}
		if g.R.Intn(2) == 0 {
			l, r = r, l
		}
		return CmpE(op, l, r)
	}
	if depth > 0 && g.R.Intn(2) == 0 {
		if g.R.Intn(3) == 0 {
			return OrE(g.joinOn(depth-1), cmp())
		}
		return AndE(g.joinOn(depth-1), cmp())
	}
	return cmp()
}

func init() {
	Retrace["C04"] = engineRetrace
	TraceGen["C04"] = func(seed int64, n int, tier string, w io.Writer) TraceInfo {
		g := NewGen(seed)
		info := TraceInfo{}
		svals := []string{"p", "q", "p-", "-q", "", "r s"}
		for i := 0; i < n; i++ {
			mk := func(k1, k2 string) Node {
				rows := make([]any, g.R.Intn(9))
				for j := range rows {
					rows[j] = TObj(Node{k1: TInt(1 + g.R.Intn(4)), k2: TStr(svals[g.R.Intn(len(svals))])})
				}
				return TArr(rows)
			}
			doc := TObj(Node{"l": mk("a", "z"), "r": mk("m", "b")})
			ty := g.Pick("inner", "left", "right").(string)
			kws := joinSpellings[ty]
			from := Node{"k": "join", "type": ty, "kw": kws[g.R.Intn(len(kws))], "l": Table("x", "l"), "r": Table("y", "r"), "on": g.joinOn(2)}
			q := With(BaseQ(), "from", from)
			ev, out := RecordEngine(w, q, doc, Style{}, nil)
			info.Queries++
			info.Events += ev
			if len(info.Samples) < 3 {
				info.Samples = append(info.Samples, out.SQL)
			}
		}
		return info
	}

	Retrace["C08"] = engineRetrace
	TraceGen["C08"] = func(seed int64, n int, tier string, w io.Writer) TraceInfo {
		g := NewGen(seed)
		info := TraceInfo{}
		var nest func(depth int) Node
		leaf := func() Node {
			rows := make([]any, g.R.Intn(5))
			for j := range rows {
				f := Node{"a": TInt(g.R.Intn(8))}
				if g.R.Intn(3) == 0 {
					f["b"] = TInt(g.R.Intn(3))
				}
				rows[j] = TObj(f)
			}
			return TArr(rows)
		}
		nest = func(depth int) Node {
			if depth == 0 {
				return leaf()
			}
			es := make([]any, 1+g.R.Intn(4))
			for j := range es {
				es[j] = nest(depth - 1)
			}
			return TArr(es)
		}
		for i := 0; i < n; i++ {
			doc := TObj(Node{"m": nest(1 + g.R.Intn(2))})
			q := BaseQ()
			q["from"] = Table("", "m")
			if g.R.Intn(3) == 0 {
				q["from"] = Node{"k": "sel", "as": "", "sel": []any{Node{"fn": "mix", "steps": []any{Node{"k": "key", "name": "m"}}}}}
			}
			if g.R.Intn(3) != 0 {
				q["where"] = CmpE(g.Str(cmpOps), Col("a"), Lit(TInt(g.R.Intn(8))))
			}
			switch g.R.Intn(4) {
			case 0:
				q["sel"] = []any{Item(Bin("+", Col("a"), Lit(TInt(1))), "b")}
			case 1:
				q["sel"] = []any{Item(Col("a"), "x"), Item(Col("b"), "")}
			case 2:
				q["sel"] = []any{Item(Col("a"), "")}
			}
			ev, out := RecordEngine(w, q, doc, Style{}, nil)
			info.Queries++
			info.Events += ev
			if len(info.Samples) < 3 {
				info.Samples = append(info.Samples, out.SQL)
			}
		}
		return info
	}

	Retrace["C07"] = engineRetrace
	TraceGen["C07"] = func(seed int64, n int, tier string, w io.Writer) TraceInfo {
		g := NewGen(seed)
		info := TraceInfo{}
		for i := 0; i < n; i++ {
			trows := make([]any, g.R.Intn(7))
			for j := range trows {
				nested := make([]any, g.R.Intn(4))
				for k := range nested {
					nested[k] = TObj(Node{"p": TInt(g.R.Intn(7))})
				}
				trows[j] = TObj(Node{"a": TInt(g.R.Intn(9)), "g": TInt(g.R.Intn(3)), "n": TArr(nested)})
			}
			urows := make([]any, g.R.Intn(4))
			for j := range urows {
				urows[j] = TObj(Node{"c": TInt(g.R.Intn(9))})
			}
			doc := TObj(Node{"t": TArr(trows), "u": TArr(urows)})
			k := Lit(TInt(g.R.Intn(9)))
			inner := With(BaseQ(), "sel", []any{Item(Col("a"), ""), Item(Col("g"), "")}, "where", CmpE(g.Str(cmpOps), Col("a"), k))
			switch g.R.Intn(4) {
			case 0:
				inner = With(BaseQ(), "sel", []any{Item(Col("g"), ""), AggItem("sum", "a", "a")}, "group", []any{"g"})
			case 1:
				inner = With(inner, "order", []any{Node{"key": []any{"a"}, "asc": false}, Node{"key": []any{"g"}, "asc": true}}, "limit", 1+g.R.Intn(4))
			}
			var q Node
			switch g.R.Intn(6) {
			case 0: // CTE, filtered again
				q = With(BaseQ(), "with", []any{Node{"name": "c", "q": inner}}, "from", Table("", "c"), "where", CmpE(g.Str(cmpOps), Col("g"), Lit(TInt(g.R.Intn(3)))))
			case 1: // chain c -> d
				mid := With(BaseQ(), "from", Table("", "c"), "sel", []any{Item(Col("a"), ""), Item(Col("g"), "")}, "where", CmpE("<=", Col("g"), Lit(TInt(g.R.Intn(3)))))
				q = With(BaseQ(), "with", []any{Node{"name": "c", "q": inner}, Node{"name": "d", "q": mid}}, "from", Table("", "d"), "sel", []any{AggItem("count", "", "k")})
			case 2: // derived table
				q = With(BaseQ(), "from", Derived(inner, "x"), "sel", []any{Item(Col("x", "a"), ""), Item(Col("x", "g"), "")}, "where", CmpE(g.Str(cmpOps), Col("x", "a"), k))
			case 3: // select-list subquery on the row
				sub := With(BaseQ(), "from", Table("", "n"), "sel", []any{Item(Col("p"), "")}, "where", CmpE(g.Str(cmpOps), Col("p"), k))
				q = With(BaseQ(), "sel", []any{Item(Col("a"), ""), Item(Node{"k": "sub", "q": sub}, "s")})
			case 4: // EXISTS with an outer column
				sub := With(BaseQ(), "from", Table("", "n"), "where", CmpE(g.Str(cmpOps), Col("p"), Col("a")))
				q = With(BaseQ(), "sel", []any{Item(Col("a"), "")}, "where", Node{"k": "exists", "q": sub})
			default: // IN subquery rooted at the document
				sub := With(BaseQ(), "from", Table("", "<-", "u"), "sel", []any{Item(Col("c"), "")})
				q = With(BaseQ(), "sel", []any{Item(Col("a"), "")}, "where", InSub(Col("a"), sub))
			}
			ev, out := RecordEngine(w, q, doc, Style{}, nil)
			info.Queries++
			info.Events += ev
			if len(info.Samples) < 3 {
				info.Samples = append(info.Samples, out.SQL)
			}
		}
		return info
	}
}

// ---- MIX: one generator that combines the clauses (interactions beyond the per-property families) ----

func (g *Gen) mixDoc() Node {
	rows := make([]any, g.R.Intn(11))
	for j := range rows {
		nested := make([]any, g.R.Intn(4))
		for k := range nested {
			nested[k] = TObj(Node{"p": TInt(g.R.Intn(6))})
		}
		nn := TNull()
		if g.R.Intn(3) != 0 {
			nn = TInt(g.R.Intn(5))
		}
		rows[j] = TObj(Node{"a": TInt(g.R.Intn(9)), "c": TInt(g.R.Intn(4)), "g": TInt(g.R.Intn(3)), "s": TStr(g.Pick("x", "y", "X", "10", "9", "").(string)), "n": nn, "k": TArr(nested)})
	}
	if len(rows) > 2 && g.R.Intn(2) == 0 {
		rows[len(rows)-1] = rows[0] // a duplicate row
	}
	urows := make([]any, g.R.Intn(5))
	for j := range urows {
		urows[j] = TObj(Node{"c": TInt(g.R.Intn(9))})
	}
	return TObj(Node{"t": TArr(rows), "u": TArr(urows)})
}

// MixQuery builds a statement that combines source kinds (table / CTE / derived table / UNION), WHERE,
// projection or GROUP BY + aggregates + HAVING, DISTINCT, ORDER BY on output columns and LIMIT / OFFSET.
func (g *Gen) MixQuery() Node {
	cols := []ColSpec{{"a", "num"}, {"c", "num"}, {"s", "str"}, {"n", "nnum"}}
	pre := []string{}
	q := BaseQ()
	col := func(name string) Node { return Col(append(append([]string{}, pre...), name)...) }
	switch g.R.Intn(6) {
	case 0: // CTE with a filter
		inner := With(BaseQ(), "where", CmpE(g.Str(cmpOps), Col("a"), Lit(TInt(g.R.Intn(9)))))
		q["with"] = []any{Node{"name": "w", "q": inner}}
		q["from"] = Table("", "w")
	case 1: // aliased derived table
		inner := With(BaseQ(), "where", CmpE(g.Str(cmpOps), Col("c"), Lit(TInt(g.R.Intn(4)))))
		q["from"] = Derived(inner, "x")
		pre = []string{"x"}
	case 3: // a join of t and u on their common column c, written with ON or with USING
		// (inner and left only: the select list and WHERE below read the left side, which a RIGHT join leaves NULL for
		// unmatched rows - and what comparisons and functions do with NULL is not claimed anywhere)
		j := Node{"k": "join", "type": g.Pick("inner", "left").(string), "kw": "", "l": Table("x", "t"), "r": Table("y", "u")}
		if g.R.Intn(2) == 0 {
			j["using"] = []any{"c"}
		} else {
			j["on"] = CmpE(g.Pick("=", "<=", "!=").(string), Col("x", "c"), Col("y", "c"))
		}
		q["from"] = j
		pre = []string{"x"}
	case 2: // UNION [ALL] of two projections, with LIMIT
		l := With(BaseQ(), "sel", []any{Item(Col("a"), ""), Item(Col("g"), "")}, "where", CmpE(g.Str(cmpOps), Col("a"), Lit(TInt(g.R.Intn(9)))))
		r := With(BaseQ(), "sel", []any{Item(Col("c"), "a"), Item(Col("g"), "")})
		if g.R.Intn(3) == 0 {
			l["distinct"] = true
		}
		u := Node{"k": "union", "l": l, "r": r, "all": g.R.Intn(2) == 0, "limit": -1, "offset": -1}
		if g.R.Intn(2) == 0 {
			u["limit"] = g.R.Intn(8)
			if g.R.Intn(2) == 0 {
				u["offset"] = g.R.Intn(5)
			}
		}
		return u
	}
	qcols := cols
	if len(pre) > 0 {
		qcols = nil // predicates below are written with qualified columns by hand
	}
	if g.R.Intn(3) != 0 {
		if qcols != nil {
			q["where"] = g.Pred(qcols, g.R.Intn(3))
		} else {
			q["where"] = CmpE(g.Str(cmpOps), col("a"), Lit(TInt(g.R.Intn(9))))
		}
	}
	out := []string{} // scalar output columns usable as ORDER BY keys
	nullable := map[string]bool{}
	if g.R.Intn(3) == 0 && len(pre) == 0 {
		// GROUP BY
		gcols := []string{"g", "s", "c"}
		g.R.Shuffle(3, func(i, j int) { gcols[i], gcols[j] = gcols[j], gcols[i] })
		gcols = gcols[:1+g.R.Intn(2)]
		group, sel := []any{}, []any{}
		for _, c := range gcols {
			group = append(group, c)
			sel = append(sel, Item(Col(c), ""))
			out = append(out, c)
		}
		names := []string{"p", "q", "r"}
		for x := 0; x < 1+g.R.Intn(3); x++ {
			f := g.Pick("count", "sum", "min", "max").(string)
			c := g.Pick("a", "c", "n").(string)
			if f == "count" {
				c = ""
			}
			sel = append(sel, AggItem(f, c, names[x]))
			out = append(out, names[x])
			if c == "n" {
				nullable[names[x]] = true
			}
		}
		q["group"], q["sel"] = group, sel
		if g.R.Intn(3) == 0 {
			q["having"] = CmpE(g.Str(cmpOps), Agg("count"), Lit(TInt(g.R.Intn(4))))
		}
	} else {
		sel := []any{}
		for x := 0; x <= g.R.Intn(4); x++ {
			switch g.R.Intn(8) {
			case 6:
				// SUBSTR on a text that is long enough most of the time (a range outside the string fails the query)
				str := Node{"k": "fn", "f": "concat", "args": []any{col("s"), Lit(TStr(g.Pick("ab", "abc", "").(string)))}}
				sel = append(sel, Item(Node{"k": "substr", "s": str, "from": Lit(TInt(g.R.Intn(3))), "len": Lit(TInt(g.R.Intn(3)))}, "sb"))
				out = append(out, "sb")
			case 0:
				if len(pre) == 0 {
					sel = append(sel, Star())
				}
			case 1:
				c := g.Pick("a", "c", "s", "g").(string)
				sel = append(sel, Item(col(c), ""))
				out = append(out, c)
			case 2:
				sel = append(sel, Item(col("n"), "nn"))
				out = append(out, "nn")
				nullable["nn"] = true
			case 3:
				sel = append(sel, Item(Bin(g.Pick("+", "-", "*").(string), col("a"), Lit(TInt(1+g.R.Intn(3)))), "e"))
				out = append(out, "e")
			case 4:
				sel = append(sel, Item(CaseE([]any{Node{"c": CmpE(">", col("a"), Lit(TInt(g.R.Intn(9)))), "v": col("s")}}, Lit(TStr("low"))), "cs"))
				out = append(out, "cs")
			case 5:
				if len(pre) == 0 {
					sub := With(BaseQ(), "from", Table("", "k"), "sel", []any{Item(Col("p"), "")}, "where", CmpE(g.Str(cmpOps), Col("p"), Lit(TInt(g.R.Intn(6)))))
					sel = append(sel, Item(Node{"k": "sub", "q": sub}, "sq"))
				}
			default:
				sel = append(sel, Item(Node{"k": "fn", "f": "concat", "args": []any{col("s"), Lit(TStr("-")), col("g")}}, "cc"))
				out = append(out, "cc")
			}
		}
		if len(sel) == 0 {
			sel = append(sel, Item(col("a"), ""))
			out = append(out, "a")
		}
		q["sel"] = sel
		if g.R.Intn(4) == 0 {
			q["distinct"] = true
		}
	}
	// ORDER BY on output columns; a nullable key only alone (the statement fixes NULLs last for a single key)
	if len(out) > 0 && g.R.Intn(2) == 0 {
		g.R.Shuffle(len(out), func(i, j int) { out[i], out[j] = out[j], out[i] })
		order := []any{}
		seen := map[string]bool{}
		for _, k := range out {
			if seen[k] {
				continue
			}
			seen[k] = true
			if nullable[k] {
				if len(order) == 0 {
					order = append(order, Node{"key": []any{k}, "asc": g.R.Intn(2) == 0})
				}
				break
			}
			order = append(order, Node{"key": []any{k}, "asc": g.R.Intn(2) == 0})
			if len(order) >= 3 {
				break
			}
		}
		q["order"] = order
	}
	switch g.R.Intn(4) {
	case 0:
		q["limit"] = g.R.Intn(8)
	case 1:
		q["limit"], q["offset"] = g.R.Intn(8), g.R.Intn(6)
		if g.R.Intn(2) == 0 {
			q["limstyle"] = "comma"
		}
	}
	return q
}

func init() {
	Retrace["MIX"] = engineRetrace
	TraceGen["MIX"] = func(seed int64, n int, tier string, w io.Writer) TraceInfo {
		g := NewGen(seed ^ 0x5eed)
		info := TraceInfo{}
		for i := 0; i < n; i++ {
			doc := g.mixDoc()
			q := g.MixQuery()
			ev, out := RecordEngine(w, q, doc, Style{}, nil)
			info.Queries++
			info.Events += ev
			if len(info.Samples) < 3 {
				info.Samples = append(info.Samples, out.SQL)
			}
		}
		return info
	}
}

// ---- WIDE: more distinct column selectors in one select list than any bounded cache holds ---------------------
func init() {
	TraceGen["WIDE"] = func(seed int64, n int, tier string, w io.Writer) TraceInfo {
		g := NewGen(seed ^ 0x71de)
		info := TraceInfo{}
		cols := 1100 + g.R.Intn(200)
		for i := 0; i < n; i++ {
			rows := []any{}
			for r := 0; r < 2; r++ {
				f := Node{}
				for k := 0; k < cols; k++ {
					f[fmt.Sprintf("k%d_%d", k, seed%97)] = TInt((k*7 + r*3 + i) % 10)
				}
				rows = append(rows, TObj(f))
			}
			sel := []any{}
			for k := 0; k < cols; k++ {
				sel = append(sel, Item(Col(fmt.Sprintf("k%d_%d", k, seed%97)), fmt.Sprintf("v%d", k)))
			}
			q := With(BaseQ(), "sel", sel)
			ev, out := RecordEngine(w, q, TObj(Node{"t": TArr(rows)}), Style{}, nil)
			info.Queries++
			info.Events += ev
			if len(info.Samples) < 1 {
				info.Samples = append(info.Samples, fmt.Sprintf("%.120s ... (%d columns)", out.SQL, cols))
			}
		}
		return info
	}
}
