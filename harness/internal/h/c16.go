package h

import (
	"fmt"
	"strings"

	"github.com/vedadiyan/genql"
	sanitize "github.com/vedadiyan/genql/sanitizer"
	"github.com/vedadiyan/sqlparser/v2"
)

func cpsToString(v any) string {
	var b strings.Builder
	for _, c := range seq(v) {
		n := int(num(c))
		if n == 255255 {
			b.WriteByte(0xff) // the specification's stand-in for a byte that is not UTF-8
			continue
		}
		if n < 128 {
			b.WriteByte(byte(n)) // NUL and the other ASCII code points as single bytes
		} else {
			b.WriteRune(rune(n))
		}
	}
	return b.String()
}

func shapeOf(sql string) (string, error) {
	stmt, err := genql.Parse(sql)
	if err != nil {
		return "", err
	}
	var b strings.Builder
	sqlparser.Walk(func(n sqlparser.SQLNode) (bool, error) {
		if lit, ok := n.(*sqlparser.Literal); ok {
			fmt.Fprintf(&b, "Literal(%d);", lit.Type)
			return true, nil
		}
		fmt.Fprintf(&b, "%T;", n)
		return true, nil
	}, stmt)
	return b.String(), nil
}

func sanitizeSafe(tpl string, args []any) (s string, err error, pan any) {
	defer func() { pan = recover() }()
	s, err = sanitize.SanitizeSQL(tpl, args...)
	return
}

var docC16 = map[string]any{"t": []any{
	map[string]any{"a": float64(1), "s": "x"}, map[string]any{"a": float64(7), "s": "a"}, map[string]any{"a": float64(99), "s": ""}}}

// C16: the real SanitizeSQL output must be the text the specification computes; the sanitized
// text must parse to the shape of the template with a plain literal at each placeholder; and
// executed, the literal must evaluate to exactly the argument.
func checkC16(c Node) Verdict {
	tpl := cpsToString(c["tpl"])
	id := int(num(c["id"]))
	args := []any{}
	ref := []any{}
	for _, a := range seq(c["args"]) {
		a := a.(Node)
		if a["t"] == "s" {
			args = append(args, cpsToString(a["c"]))
			ref = append(ref, "X")
		} else {
			args = append(args, int64(7))
			ref = append(ref, int64(7))
		}
	}
	arg1, _ := args[0].(string)
	sig := []string{fmt.Sprintf("template:%d", id)}
	for _, ch := range []struct{ r, n string }{{"'", "quote"}, {"\\", "backslash"}, {"\x00", "nul"}, {"\n", "newline"}, {"`", "backtick"}, {"\"", "dquote"}, {"#", "hash"}, {"--", "dashdash"}, {"/*", "blockcomment"}} {
		if strings.Contains(arg1, ch.r) {
			sig = append(sig, "arg:"+ch.n)
		}
	}
	desc := fmt.Sprintf("SanitizeSQL(%q, %q)", tpl, args)
	v := Verdict{OK: true, SQL: desc, Sig: sig, Execs: 1, Nontrivial: len(sig) > 1}
	if b := seq(c["before"]); len(b) > 0 {
		// an earlier call in the same process, on a template that leaves the lexer in the middle of something
		btpl := cpsToString(c["before"])
		sig = append(sig, "history")
		desc = fmt.Sprintf("SanitizeSQL(%q, X) ; ", btpl) + desc
		bgot, berr, bpan := sanitizeSafe(btpl, []any{"X"})
		if bpan != nil {
			return fail("panic", desc, sig, "the earlier call panics: %v", bpan)
		}
		wb := seq(c["outbefore"])
		if len(wb) == 1 && num(wb[0]) == -9 {
			if berr == nil {
				return fail("noerror", desc, sig, "the earlier call: specification error, got %q", bgot)
			}
		} else if berr != nil || bgot != cpsToString(c["outbefore"]) {
			return fail("text", desc, sig, "the earlier call: want %q got %q (%v)", cpsToString(c["outbefore"]), bgot, berr)
		}
	}
	got, err, pan := sanitizeSafe(tpl, args)
	if pan != nil {
		return fail("panic", desc, sig, "panic: %v", pan)
	}
	wantOut := seq(c["out"])
	wantErr := len(wantOut) == 1 && num(wantOut[0]) == -9
	if wantErr {
		if err == nil {
			return fail("noerror", desc, sig, "specification: error; SanitizeSQL returned %q", got)
		}
		return v
	}
	if err != nil {
		return fail("error", desc, sig, "specification: %q; SanitizeSQL returned error %v", cpsToString(c["out"]), err)
	}
	if want := cpsToString(c["out"]); got != want {
		return fail("text", desc, sig, "sanitized text: want %q got %q", want, got)
	}
	// statement shape
	refSQL, _, _ := sanitizeSafe(tpl, ref)
	wantShape, rerr := shapeOf(refSQL)
	if rerr != nil {
		return Verdict{OK: false, Kind: "harness", Detail: "the reference statement does not parse: " + rerr.Error()}
	}
	gotShape, perr := shapeOf(got)
	if perr != nil {
		return fail("shape", desc, sig, "the sanitized statement %q does not parse: %v", got, perr)
	}
	if gotShape != wantShape {
		return fail("shape", desc, sig, "the sanitized statement %q has another shape than the template: %s vs %s", got, gotShape, wantShape)
	}
	// evaluation - after the statement of the "whitespace twin" of the argument (blanks and line feeds swapped): two
	// statements that differ only in white space inside their literals are two statements
	if strings.ContainsAny(arg1, " \n") {
		twinArgs := append([]any{}, args...)
		twinArgs[0] = strings.Map(func(r rune) rune {
			switch r {
			case ' ':
				return '\n'
			case '\n':
				return ' '
			}
			return r
		}, arg1)
		if twin, terr, tpan := sanitizeSafe(tpl, twinArgs); terr == nil && tpan == nil {
			Run(DeepCopy(any(docC16)).(map[string]any), twin, false)
			v.Execs++
		}
	}
	doc := DeepCopy(any(docC16)).(map[string]any)
	out := Run(doc, got, false)
	v.Execs++
	if out.Panic != nil || out.Err != nil {
		return fail("exec", desc, sig, "executing %q: %s", got, out.Describe())
	}
	switch id {
	case 1:
		if len(out.Rows) != 1 || !Equal(out.Rows[0], map[string]any{"v": arg1}) {
			return fail("echo", desc, sig, "SELECT $1 AS v FROM dual returns %s, the argument is %q", Canon(any(out.Rows)), arg1)
		}
	case 2:
		want := []any{}
		for _, r := range docC16["t"].([]any) {
			m := r.(map[string]any)
			if m["s"] == arg1 || m["a"] == float64(99) {
				want = append(want, map[string]any{"a": m["a"]})
			}
		}
		if !Equal(any(out.Rows), any(want)) {
			return fail("echo", desc, sig, "%q returns %s, expected %s", got, Canon(any(out.Rows)), Canon(any(want)))
		}
	case 3:
		// WHERE a = 7 keeps one row; v echoes the argument, the literal and the identifier keep their $1
		if len(out.Rows) != 1 {
			return fail("echo", desc, sig, "%q returns %s", got, Canon(any(out.Rows)))
		}
		row, _ := out.Rows[0].(map[string]any)
		if row["v"] != arg1 || row["l"] != "$1 -- x" {
			return fail("echo", desc, sig, "%q returns %s", got, Canon(any(out.Rows)))
		}
		if _, ok := row["c$1"]; !ok {
			return fail("echo", desc, sig, "the back-quoted identifier c$1 was rewritten: %s", Canon(any(out.Rows)))
		}
	case 4:
		if len(out.Rows) != 1 || !Equal(out.Rows[0], map[string]any{"q": "it's $1", "v": arg1}) {
			return fail("echo", desc, sig, "%q returns %s", got, Canon(any(out.Rows)))
		}
	case 9:
		if len(out.Rows) != 1 || !Equal(out.Rows[0], map[string]any{"dir\\": float64(7), "lit": "` $1", "v": arg1}) {
			return fail("echo", desc, sig, "%q returns %s", got, Canon(any(out.Rows)))
		}
	case 12:
		want := []any{}
		if len(out.Rows) != 1 || !Equal(out.Rows[0], map[string]any{"w": float64(8), "a": arg1}) {
			return fail("echo", desc, sig, "%q returns %s, expected %s", got, Canon(any(out.Rows)), Canon(any(append(want, map[string]any{"w": float64(8), "a": arg1}))))
		}
	case 13:
		if len(out.Rows) != 1 || !Equal(out.Rows[0], map[string]any{"r": "\ufffd", "a": arg1}) {
			return fail("echo", desc, sig, "%q returns %s", got, Canon(any(out.Rows)))
		}
	case 7, 8, 10, 11:
		if len(out.Rows) != 1 || !Equal(out.Rows[0], map[string]any{"a": arg1}) {
			return fail("echo", desc, sig, "%q returns %s", got, Canon(any(out.Rows)))
		}
	case 14:
		if len(out.Rows) != 1 || !Equal(out.Rows[0], map[string]any{"a": arg1, "b": float64(7), "c": arg1}) {
			return fail("echo", desc, sig, "%q returns %s", got, Canon(any(out.Rows)))
		}
	case 15:
		if len(out.Rows) != 1 || !Equal(out.Rows[0], map[string]any{"a": arg1, "b": float64(7), "c": float64(7), "d": arg1}) {
			return fail("echo", desc, sig, "%q returns %s", got, Canon(any(out.Rows)))
		}
	case 5:
		if len(out.Rows) != 1 || !Equal(out.Rows[0], map[string]any{"a": arg1, "b": float64(7)}) {
			return fail("echo", desc, sig, "%q returns %s", got, Canon(any(out.Rows)))
		}
	}
	return v
}

// other argument kinds: integers, floats, booleans, NULL echo exactly; arity errors
func init() {
	Replay["C16"] = checkC16
	Drivers["C16:kinds"] = func(emit func(Verdict)) {
		vals := []any{int64(0), int64(-5), int64(9007199254740993), 1.5, -0.25, 1e21, 1e-7, true, false, nil, "", "plain"}
		for _, a := range vals {
			desc := fmt.Sprintf("SanitizeSQL(SELECT $1 AS v FROM dual, %#v)", a)
			sig := []string{fmt.Sprintf("kind:%T", a)}
			v := Verdict{OK: true, SQL: desc, Sig: sig, Execs: 1, Nontrivial: true, Key: desc, Case: Node{"desc": desc}}
			got, err, pan := sanitizeSafe("SELECT $1 AS v FROM dual", []any{a})
			switch {
			case pan != nil:
				v = fail("panic", desc, sig, "panic: %v", pan)
			case err != nil:
				v = fail("error", desc, sig, "error %v", err)
			default:
				out := Run(map[string]any{}, got, false)
				var want any = a
				if i, ok := a.(int64); ok {
					want = float64(i)
				}
				if out.Err != nil || out.Panic != nil || len(out.Rows) != 1 || !Equal(out.Rows[0], map[string]any{"v": want}) {
					v = fail("echo", desc, sig, "%q returns %s", got, out.Describe())
				}
			}
			v.Key, v.Case = desc, Node{"desc": desc}
			emit(v)
		}
		for _, tc := range []struct {
			tpl  string
			args []any
		}{{"SELECT $1 AS v FROM dual", nil}, {"SELECT $1 AS v FROM dual", []any{"a", "b"}}, {"SELECT $2 AS v FROM dual", []any{"a"}}, {"SELECT $0 AS v FROM dual", []any{"a"}},
			{"SELECT $1, $3 FROM dual", []any{"a", "b", "c"}}, {"SELECT '$1' FROM dual", []any{"a"}}, {"SELECT `$1` FROM dual", []any{"a"}}, {"SELECT 1 FROM dual -- $1", []any{"a"}}, {"SELECT 1 FROM dual # $1", []any{"a"}}, {"SELECT 1 /* $1 */ FROM dual", []any{"a"}}} {
			desc := fmt.Sprintf("SanitizeSQL(%q, %q)", tc.tpl, tc.args)
			sig := []string{"arity"}
			v := Verdict{OK: true, SQL: desc, Sig: sig, Execs: 1, Nontrivial: true}
			got, err, pan := sanitizeSafe(tc.tpl, tc.args)
			if pan != nil {
				v = fail("panic", desc, sig, "panic: %v", pan)
			} else if err == nil {
				v = fail("noerror", desc, sig, "a missing / unused argument or $0 was accepted: %q", got)
			}
			v.Key, v.Case = desc, Node{"desc": desc}
			emit(v)
		}
	}
}
