package h

import (
	"bufio"
	"encoding/json"
	"fmt"
	"io"
	"os"
	"os/exec"
	"path/filepath"
	"sort"
	"strings"

	"github.com/vedadiyan/genql"
)

// ---- the repository's own test suite, in front of the specification ----------------------------
//
// The suite is run from the repository's current tree with the `verif` tag and GENQL_VERIF_TRACE set:
// verif_trace_test.go (compiled only with the tag) records every New / Exec call the tests make - the
// caller's document, the query text, the options, the rows between the pipeline stages of the
// top-level query, the outcome. Each recorded call whose text translates into the specification's AST
// (xlate.go) becomes one history of EngineTrace: call, stage*, ret. Calls outside the specification's
// grammar are counted and listed, never judged.

// RepoDir is the directory the harness module's replace directive points at.
func RepoDir() (string, error) {
	if d := os.Getenv("VERIF_REPO_DIR"); d != "" {
		return d, nil
	}
	cmd := exec.Command("go", "list", "-m", "-f", "{{.Dir}}", "github.com/vedadiyan/genql")
	if d := os.Getenv("VERIF_DIR"); d != "" {
		cmd.Dir = filepath.Join(d, "harness")
	}
	out, err := cmd.Output()
	if err != nil {
		return "", fmt.Errorf("go list: %v", err)
	}
	return strings.TrimSpace(string(out)), nil
}

type repoCall struct {
	ID     int
	SQL    string
	Doc    any
	Opts   map[string]any
	NewErr any
	Events []Node // stage / exec events in recorded order
	Bad    string // the recorder could not encode something of this call
}

// RecordRepoTests runs the suite with the recorder and returns the calls in order.
func RecordRepoTests() ([]*repoCall, string, error) {
	repo, err := RepoDir()
	if err != nil {
		return nil, "", err
	}
	tmp, err := os.MkdirTemp("", "repotests")
	if err != nil {
		return nil, "", err
	}
	defer os.RemoveAll(tmp)
	tf := filepath.Join(tmp, "calls.ndjson")
	cmd := exec.Command("go", "test", "-tags", "verif", "-vet=off", "-count=1", ".")
	cmd.Dir = repo
	cmd.Env = append(os.Environ(), "GENQL_VERIF_TRACE="+tf, "GOFLAGS=-mod=mod", "GOPROXY=off", "GOSUMDB=off", "GOTOOLCHAIN=local")
	testOut, terr := cmd.CombinedOutput()
	status := "suite passed"
	if terr != nil {
		status = "suite did not pass: " + tailStr(string(testOut), 600)
	}
	f, err := os.Open(tf)
	if err != nil {
		return nil, status, fmt.Errorf("the suite wrote no recording (%v): %s", err, tailStr(string(testOut), 600))
	}
	defer f.Close()
	calls := map[int]*repoCall{}
	order := []int{}
	sc := bufio.NewScanner(f)
	sc.Buffer(make([]byte, 1<<20), 1<<28)
	for sc.Scan() {
		var e Node
		if json.Unmarshal(sc.Bytes(), &e) != nil {
			continue
		}
		id := int(num(e["id"]))
		c := calls[id]
		if e["ev"] == "new" && c == nil {
			c = &repoCall{ID: id}
			calls[id] = c
			order = append(order, id)
		}
		if c == nil {
			continue
		}
		if why, bad := e["unencodable"].(string); bad {
			c.Bad = why
			continue
		}
		switch e["ev"] {
		case "new":
			c.SQL, _ = e["sql"].(string)
			c.Doc, c.NewErr = e["doc"], e["err"]
			c.Opts, _ = e["opts"].(Node)
		case "stage", "exec":
			c.Events = append(c.Events, e)
		}
	}
	out := []*repoCall{}
	for _, id := range order {
		out = append(out, calls[id])
	}
	return out, status, nil
}

// relevant: does the translated query exercise what the leg is about?
func repoRelevant(filter string, q Node) bool {
	fs := map[string]bool{}
	for _, f := range Features(q) {
		fs[f] = true
	}
	hasAgg := false
	for f := range fs {
		if strings.HasPrefix(f, "agg:") {
			hasAgg = true
		}
	}
	switch filter {
	case "where":
		return q["k"] == "select" && q["where"].(Node)["k"] != "none"
	case "group":
		return fs["groupby"] || hasAgg
	case "order":
		return fs["orderby"] || (q["k"] == "select" && num(q["limit"]) >= 0)
	}
	return true
}

func init() {
	for _, filter := range []string{"all", "where", "group", "order"} {
		filter := filter
		TraceGen["REPO:"+filter] = func(seed int64, n int, tier string, w io.Writer) TraceInfo {
			info := TraceInfo{}
			if bad := translatorSelfCheck(seed, 400); bad != "" {
				// a translator that does not invert the renderer would put wrong queries in front of the
				// specification: that is a broken harness, not an observation about the library
				fmt.Fprintln(os.Stderr, "REPO translator self-check:", bad)
				os.Exit(3)
			}
			calls, status, err := RecordRepoTests()
			if err != nil {
				fmt.Fprintln(os.Stderr, "REPO recorder:", err)
				os.Exit(3)
			}
			enc := json.NewEncoder(w)
			outside := map[string]int{}
			translated, executed, byHarness := 0, 0, 0
			for _, c := range calls {
				if c.Bad != "" {
					outside["recorder: "+c.Bad]++
					continue
				}
				if c.NewErr != nil {
					outside["New returned an error (nothing to validate stage by stage)"]++
					continue
				}
				text := c.SQL
				if b, _ := c.Opts["pg"].(bool); b {
					t, err := genql.DoubleQuotesToBackTick(text)
					if err != nil {
						outside["DoubleQuotesToBackTick fails"]++
						continue
					}
					text = t
				}
				if b, _ := c.Opts["arr"].(bool); b {
					t, err := genql.FixIdiomaticArray(text)
					if err != nil {
						outside["FixIdiomaticArray fails"]++
						continue
					}
					text = t
				}
				q, err := TranslateSQL(text)
				if err != nil {
					outside[err.Error()]++
					continue
				}
				translated++
				if !repoRelevant(filter, q) {
					continue
				}
				doc := c.Doc
				if b, _ := c.Opts["wrapped"].(bool); b {
					doc = map[string]any{"root": doc}
				}
				tdoc, ok := ToTagged(doc).(Node)
				if !ok || tdoc["t"] != "obj" || strings.Contains(string(mustJSON(tdoc)), `"alien"`) {
					outside["document with values the specification has no encoding for"]++
					continue
				}
				emitted := false
				for _, e := range c.Events {
					if e["ev"] == "exec" {
						emitted = true
					}
				}
				if !emitted {
					// the test builds the query and never calls Exec (its error cases): the harness executes the
					// recorded input itself
					names := []string{}
					for _, o := range []string{"pg", "arr", "wrapped"} {
						if b, _ := c.Opts[o].(bool); b {
							names = append(names, o)
						}
					}
					real, _ := c.Doc.(map[string]any)
					if real == nil {
						outside["document is not an object"]++
						continue
					}
					out := Run(real, c.SQL, true, Opts(names, nil, nil)...)
					if out.Panic != nil {
						fmt.Fprintf(os.Stderr, "REPO recorder: panic escaped the API on %q: %v\n", c.SQL, out.Panic)
						os.Exit(4)
					}
					enc.Encode(callEvent(q, tdoc, c.SQL))
					info.Events++
					for _, e := range out.Stages {
						if !e.Top {
							continue
						}
						rows := e.Rows.(Node)["e"]
						if rows == nil {
							rows = []any{}
						}
						enc.Encode(Node{"ev": "stage", "st": e.Stage, "rows": rows})
						info.Events++
					}
					if out.Err != nil {
						enc.Encode(Node{"ev": "ret", "ok": false})
					} else {
						enc.Encode(Node{"ev": "ret", "ok": true, "rows": ToTagged(any(out.Rows)).(Node)["e"]})
					}
					info.Events++
					info.Queries++
					byHarness++
					continue
				}
				// one history per Exec of this query
				pending := []Node{}
				for _, e := range c.Events {
					if e["ev"] == "stage" {
						rows, _ := ToTagged(e["rows"]).(Node)
						r := rows["e"]
						if r == nil {
							r = []any{}
						}
						pending = append(pending, Node{"ev": "stage", "st": e["st"], "rows": r})
						continue
					}
					enc.Encode(callEvent(q, tdoc, c.SQL))
					for _, s := range pending {
						enc.Encode(s)
					}
					info.Events += len(pending) + 2
					pending = pending[:0]
					if e["err"] != nil {
						enc.Encode(Node{"ev": "ret", "ok": false})
					} else {
						rows, _ := ToTagged(e["rows"]).(Node)
						r := rows["e"]
						if r == nil {
							r = []any{}
						}
						enc.Encode(Node{"ev": "ret", "ok": true, "rows": r})
					}
					executed++
					info.Queries++
					if len(info.Samples) < 2 {
						info.Samples = append(info.Samples, strings.Join(strings.Fields(c.SQL), " "))
					}
				}
			}
			reasons := []string{}
			for k, v := range outside {
				reasons = append(reasons, fmt.Sprintf("%d x %s", v, k))
			}
			sort.Strings(reasons)
			info.Samples = append(info.Samples, fmt.Sprintf("repository test suite (%s): %d New calls recorded, %d translated into the specification's AST, %d executions of the tests and %d executions by the harness (tests that never call Exec) validated for '%s'; outside: %s",
				status, len(calls), translated, executed, byHarness, filter, strings.Join(reasons, "; ")))
			if info.Queries == 0 {
				// nothing to validate is a dead driver, not a pass
				fmt.Fprintln(os.Stderr, "REPO recorder: no call of the suite could be put in front of the specification")
				os.Exit(3)
			}
			return info
		}
	}
}

func mustJSON(v any) []byte {
	b, _ := json.Marshal(v)
	return b
}

// translatorSelfCheck: on generated ASTs the translator must invert the renderer (text level).
func translatorSelfCheck(seed int64, n int) string {
	g := NewGen(seed ^ 0x7a57)
	cols := []ColSpec{{"a", "num"}, {"c", "num"}, {"s", "str"}, {"b", "bool"}, {"n", "nnum"}}
	for i := 0; i < n; i++ {
		var q Node
		switch i % 3 {
		case 0:
			q = g.MixQuery()
		case 1:
			q = With(BaseQ(), "where", g.Pred(cols, 1+g.R.Intn(5)))
		default:
			q = g.OrderQuery(cols)
		}
		dropKey(q, "limstyle") // LIMIT m, n and LIMIT n OFFSET m are one AST
		text := Style{}.Query(q)
		back, err := TranslateSQL(text)
		if err != nil {
			return fmt.Sprintf("%q: %v", text, err)
		}
		if again := (Style{}).Query(back); again != text {
			return fmt.Sprintf("%q comes back as %q", text, again)
		}
	}
	return ""
}

func dropKey(v any, key string) {
	switch x := v.(type) {
	case []any:
		for _, e := range x {
			dropKey(e, key)
		}
	case map[string]any:
		delete(x, key)
		for _, e := range x {
			dropKey(e, key)
		}
	}
}

func callEvent(q, doc Node, sql string) Node {
	call := Node{"ev": "call", "q": q, "doc": doc, "opts": []any{}, "sql": sql}
	if b := BeyondClaims(q); len(b) > 0 {
		call["beyond"] = b
	}
	return call
}
