package h

import "sort"

// BeyondClaims lists what a query uses that no listed property makes a claim about. The specification
// (Genql.tla) gives these constructs a meaning - the engine's, as coded - and conformance is still checked,
// but a disagreement there is reported as BINDING-DRIFT, never as a violation of a property that says
// nothing about the construct:
//
//	substr            SUBSTR(s, from, len)
//	using             JOIN ... USING (...)
//	qualified-star    x.* (the qualifier is ignored by the engine)
//	predicate-value   a comparison / IS / NOT / AND / OR / LIKE / IN / BETWEEN used as a value (a select item,
//	                  an operand) rather than as a condition
//	unary-bang        ! as an operator on a value... is claimed (C02), so not listed
func BeyondClaims(q Node) []string {
	set := map[string]bool{}
	var expr func(e Node, cond bool)
	var query func(q Node)
	from := func(f Node) {}
	var fromRec func(f Node)
	fromRec = func(f Node) {
		switch f["k"] {
		case "derived":
			query(f["q"].(Node))
		case "join":
			if _, ok := f["using"]; ok {
				set["using"] = true
			} else {
				expr(f["on"].(Node), true)
			}
			fromRec(f["l"].(Node))
			fromRec(f["r"].(Node))
		}
	}
	from = fromRec
	expr = func(e Node, cond bool) {
		switch e["k"] {
		case "none", "col", "lit", "agg":
		case "substr":
			set["substr"] = true
			expr(e["s"].(Node), false)
			expr(e["from"].(Node), false)
			expr(e["len"].(Node), false)
		case "bin":
			expr(e["l"].(Node), false)
			expr(e["r"].(Node), false)
		case "un":
			expr(e["e"].(Node), false)
		case "cmp", "like":
			if !cond {
				set["predicate-value"] = true
			}
			expr(e["l"].(Node), false)
			expr(e["r"].(Node), false)
		case "in":
			if !cond {
				set["predicate-value"] = true
			}
			expr(e["l"].(Node), false)
			for _, x := range seq(e["list"]) {
				expr(x.(Node), false)
			}
		case "insub":
			if !cond {
				set["predicate-value"] = true
			}
			expr(e["l"].(Node), false)
			query(e["q"].(Node))
		case "between":
			if !cond {
				set["predicate-value"] = true
			}
			expr(e["e"].(Node), false)
			expr(e["lo"].(Node), false)
			expr(e["hi"].(Node), false)
		case "is":
			if !cond {
				set["predicate-value"] = true
			}
			expr(e["e"].(Node), false)
		case "and", "or":
			if !cond {
				set["predicate-value"] = true
			}
			expr(e["l"].(Node), cond)
			expr(e["r"].(Node), cond)
		case "not":
			if !cond {
				set["predicate-value"] = true
			}
			expr(e["e"].(Node), cond)
		case "case":
			for _, w := range seq(e["whens"]) {
				expr(w.(Node)["c"].(Node), true)
				expr(w.(Node)["v"].(Node), false)
			}
			expr(e["els"].(Node), false)
		case "fn":
			for i, a := range seq(e["args"]) {
				expr(a.(Node), e["f"] == "if" && i == 0)
			}
		case "sub", "exists":
			query(e["q"].(Node))
		}
	}
	query = func(q Node) {
		if q["k"] == "union" {
			query(q["l"].(Node))
			query(q["r"].(Node))
			return
		}
		for _, c := range seq(q["with"]) {
			query(c.(Node)["q"].(Node))
		}
		from(q["from"].(Node))
		for _, it := range seq(q["sel"]) {
			it := it.(Node)
			if it["k"] == "star" {
				if s, _ := it["qual"].(string); s != "" {
					set["qualified-star"] = true
				}
				continue
			}
			expr(it["e"].(Node), false)
		}
		expr(q["where"].(Node), true)
		expr(q["having"].(Node), true)
	}
	query(q)
	out := []string{}
	for k := range set {
		out = append(out, k)
	}
	sort.Strings(out)
	return out
}
