package h

import "github.com/vedadiyan/genql"

// leaves returns the innermost arrays (arrays none of whose elements is an array) in order.
func leaves(x []any) [][]any {
	inner := false
	for _, e := range x {
		if _, ok := e.([]any); ok {
			inner = true
		}
	}
	if !inner {
		return [][]any{x}
	}
	out := [][]any{}
	for _, e := range x {
		if a, ok := e.([]any); ok {
			out = append(out, leaves(a)...)
		}
	}
	return out
}

// C08: nested result = specification; each innermost array's part equals the same query run
// for real on that array alone; the mix=> form equals the concatenation of those runs.
func checkC08(c Node) Verdict {
	v := CheckEngine(c, EngineOpts{Extra: []string{"fam:" + c["fam"].(string)}})
	if !v.OK {
		return v
	}
	q := c["q"].(Node)
	doc := FromTagged(c["doc"]).(map[string]any)
	src := doc["m"].([]any)
	want, _ := ExpectedRows(c)
	flatQ := Style{}.Query(With(q, "from", Table("", "r")))
	var concat []any
	parts := [][]any{}
	for _, leaf := range leaves(src) {
		out := Run(map[string]any{"r": DeepCopy(any(leaf)), "w": doc["w"]}, flatQ, false)
		v.Execs++
		if out.Err != nil || out.Panic != nil {
			return fail("inner", v.SQL+" ; "+flatQ, append(v.Sig, "inner"), "the query run directly on an inner array failed: %s", out.Describe())
		}
		rows := out.Rows
		if rows == nil {
			rows = []any{}
		}
		parts = append(parts, rows)
		concat = append(concat, rows...)
		// ... and with the inner array standing where the nested table stood, under the table's own name
		if c["fam"] == "nested" {
			same := Run(map[string]any{"m": DeepCopy(any(leaf)), "w": doc["w"]}, v.SQL, false)
			v.Execs++
			if same.Err != nil || same.Panic != nil || !Equal(any(same.Rows), any(rows)) {
				return fail("inner", v.SQL, append(v.Sig, "inner", "same-name"), "the statement run directly on an inner array placed under the table's own name: %s, under another name: %s", same.Describe(), Canon(any(rows)))
			}
		}
	}
	if concat == nil {
		concat = []any{}
	}
	if c["fam"] == "mix" {
		if !Equal(any(want), any(concat)) {
			return fail("inner", v.SQL, append(v.Sig, "inner"), "mix=> result %s differs from the concatenation of the per-array runs %s", Canon(any(want)), Canon(any(concat)))
		}
	} else {
		got := leaves(want)
		if len(got) != len(parts) {
			return fail("inner", v.SQL, append(v.Sig, "inner"), "nesting differs: %d innermost arrays in the result, %d in the source", len(got), len(parts))
		}
		for i := range got {
			if !Equal(any(got[i]), any(parts[i])) {
				return fail("inner", v.SQL+" ; "+flatQ, append(v.Sig, "inner"), "inner array %d: nested result %s, direct run %s", i, Canon(any(got[i])), Canon(any(parts[i])))
			}
		}
	}
	// the table's name is the caller's business: the same case with the table called dual / DUAL (a key of the document
	// wins over the pseudo table of that name)
	if c["fam"] == "nested" {
		for _, name := range []string{"dual", "DUAL"} {
			sql := Style{}.Query(With(q, "from", Table("", name)))
			out := Run(map[string]any{name: DeepCopy(any(src)), "w": doc["w"]}, sql, false)
			v.Execs++
			if out.Err != nil || out.Panic != nil || !Equal(any(out.Rows), any(want)) {
				return fail("result", sql, append(v.Sig, "table-named-"+name), "the table renamed to %s: want %s got %s", name, Canon(any(want)), out.Describe())
			}
		}
	}
	v.Nontrivial = len(concat) > 0 && len(parts) >= 2
	// the same statement under an option set that every inner evaluation has to see as well: the literal 3 of
	// `a = 3` read from the variables of the call (GETVAR), with a completion callback installed
	if w := q["where"].(Node); w["k"] == "cmp" && w["op"] == "=" && w["r"].(Node)["k"] == "lit" {
		gv := Node{"k": "fn", "f": "getvar", "args": []any{Lit(TStr("wanted"))}}
		sql := Style{}.Query(With(q, "where", CmpE("=", w["l"].(Node), gv)))
		calls := 0
		opts := func() []genql.QueryOption {
			return []genql.QueryOption{genql.WithVars(map[string]any{"wanted": float64(3)}), genql.CompletedCallback(func() { calls++ })}
		}
		out := Run(FromTagged(c["doc"]).(map[string]any), sql, false, opts()...)
		v.Execs++
		if out.Err != nil || out.Panic != nil || !Equal(any(out.Rows), any(want)) {
			return fail("inner", sql, append(v.Sig, "options"), "with WithVars + CompletedCallback: %s, with the literal: %s", out.Describe(), Canon(any(want)))
		}
	}
	return v
}

func init() { Replay["C08"] = checkC08 }
