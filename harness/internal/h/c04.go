package h

import "strings"

var joinSpellings = map[string][]string{
	"inner": {"JOIN", "INNER JOIN", "HASH_JOIN", "STRAIGHT_JOIN", "PARALLEL JOIN", "PARALLEL HASH_JOIN", "PARALLEL STRAIGHT_JOIN"},
	"left":  {"LEFT JOIN", "LEFT HASH_JOIN", "PARALLEL LEFT JOIN", "PARALLEL LEFT HASH_JOIN"},
	"right": {"RIGHT JOIN", "RIGHT HASH_JOIN", "PARALLEL RIGHT JOIN", "PARALLEL RIGHT HASH_JOIN"},
}

// C04: the same (tables, ON, type) under every spelling of the join strategy; each result
// must be, as a multiset, the textbook one exported by the specification.
func checkC04(c Node) Verdict {
	q := c["q"].(Node)
	from := q["from"].(Node)
	want, wantErr := ExpectedRows(c)
	base := Features(q)
	equi, _ := c["equi"].(bool)
	if equi {
		base = append(base, "equi")
	}
	v := Verdict{OK: true, Sig: base, Nontrivial: len(want) > 0}
	reps := 1
	for _, kw := range joinSpellings[from["type"].(string)] {
		sig := append(append([]string{}, base...), "kw:"+strings.ReplaceAll(kw, " ", "_"))
		f2 := With(from, "kw", kw)
		sql := Style{}.Query(With(q, "from", f2))
		if v.SQL == "" {
			v.SQL = sql
		}
		n := reps
		if strings.HasPrefix(kw, "PARALLEL") {
			n = 3 // goroutine scheduling differs from run to run
		}
		for i := 0; i < 2*n; i++ {
			doc := FromTagged(c["doc"]).(map[string]any)
			if i >= n {
				// the same tables with the left side's numeric keys held as Go ints: equal numbers of different Go
				// types have to meet as well (the hash path leaves such keys to the nested loop)
				sig = append(append([]string{}, sig...), "typed-keys")
				// (on the right side every other row: one side then holds the same number under two Go types)
				for ti, tc := range []struct{ table, col string }{{"l", "a"}, {"r", "m"}} {
					for ri, r := range doc[tc.table].([]any) {
						if m, ok := r.(map[string]any); ok && (ti == 0 || ri%2 == 0) {
							if f, ok := m[tc.col].(float64); ok && f == float64(int(f)) {
								m[tc.col] = int(f)
							}
						}
					}
				}
			}
			out := Run(doc, sql, false)
			v.Execs++
			if out.Panic != nil {
				return fail("panic", sql, sig, "panic escaped the API: %v", out.Panic)
			}
			if wantErr {
				if out.Err == nil {
					return fail("noerror", sql, sig, "specification: error; engine returned %s", Canon(any(out.Rows)))
				}
				continue
			}
			if out.Err != nil {
				return fail("error", sql, sig, "specification: %s; engine returned error: %v", Canon(any(want)), out.Err)
			}
			if !BagEqual(out.Rows, want) {
				return fail("result", sql, sig, "as multisets: want %s got %s", Canon(any(want)), Canon(any(out.Rows)))
			}
		}
	}
	return v
}

func init() { Replay["C04"] = checkC04 }
