package h

import (
	"fmt"
	"math"
	"strconv"
	"strings"
)

var joinSpellings = map[string][]string{
	"inner": {"JOIN", "INNER JOIN", "HASH_JOIN", "STRAIGHT_JOIN", "PARALLEL JOIN", "PARALLEL HASH_JOIN", "PARALLEL STRAIGHT_JOIN"},
	"left":  {"LEFT JOIN", "LEFT HASH_JOIN", "PARALLEL LEFT JOIN", "PARALLEL LEFT HASH_JOIN"},
	"right": {"RIGHT JOIN", "RIGHT HASH_JOIN", "PARALLEL RIGHT JOIN", "PARALLEL RIGHT HASH_JOIN"},
}

// C04: the same (tables, ON, type) under every spelling of the join strategy; each result
// must be, as a multiset, the textbook one exported by the specification.
func checkC04(c Node) Verdict {
	q := c["q"].(Node)
	from := q["from"].(Node)
	want, wantErr := ExpectedRows(c)
	base := Features(q)
	equi, _ := c["equi"].(bool)
	if equi {
		base = append(base, "equi")
	}
	v := Verdict{OK: true, Sig: base, Nontrivial: len(want) > 0}
	reps := 1
	for _, kw := range joinSpellings[from["type"].(string)] {
		sig := append(append([]string{}, base...), "kw:"+strings.ReplaceAll(kw, " ", "_"))
		f2 := With(from, "kw", kw)
		sql := Style{}.Query(With(q, "from", f2))
		if v.SQL == "" {
			v.SQL = sql
		}
		n := reps
		if strings.HasPrefix(kw, "PARALLEL") {
			n = 3 // goroutine scheduling differs from run to run
		}
		for i := 0; i < 2*n; i++ {
			doc := FromTagged(c["doc"]).(map[string]any)
			if i >= n {
				// the same tables with the left side's numeric keys held as Go ints: equal numbers of different Go
				// types have to meet as well (the hash path leaves such keys to the nested loop)
				sig = append(append([]string{}, sig...), "typed-keys")
				// (on the right side every other row: one side then holds the same number under two Go types)
				for ti, tc := range []struct{ table, col string }{{"l", "a"}, {"r", "m"}} {
					for ri, r := range doc[tc.table].([]any) {
						if m, ok := r.(map[string]any); ok && (ti == 0 || ri%2 == 0) {
							if f, ok := m[tc.col].(float64); ok && f == float64(int(f)) {
								m[tc.col] = int(f)
							}
						}
					}
				}
			}
			out := Run(doc, sql, false)
			v.Execs++
			if out.Panic != nil {
				return fail("panic", sql, sig, "panic escaped the API: %v", out.Panic)
			}
			if wantErr {
				if out.Err == nil {
					return fail("noerror", sql, sig, "specification: error; engine returned %s", Canon(any(out.Rows)))
				}
				continue
			}
			if out.Err != nil {
				return fail("error", sql, sig, "specification: %s; engine returned error: %v", Canon(any(want)), out.Err)
			}
			if !BagEqual(out.Rows, want) {
				return fail("result", sql, sig, "as multisets: want %s got %s", Canon(any(want)), Canon(any(out.Rows)))
			}
		}
	}
	// the aliases are bound names: the specification's result does not depend on how they are spelled. The same case
	// under aliases one of which begins with the other, in both assignments
	if !wantErr {
		for _, ren := range []map[string]string{{"x": "t", "y": "t2"}, {"x": "t2", "y": "t"}, {"x": "orders", "y": "ord"}} {
			wantR := make([]any, len(want))
			for i, r := range want {
				row := map[string]any{}
				for k, val := range r.(map[string]any) {
					if nk, ok := ren[k]; ok {
						k = nk
					}
					row[k] = val
				}
				wantR[i] = row
			}
			for _, kw := range joinSpellings[from["type"].(string)] {
				if strings.HasPrefix(kw, "PARALLEL") {
					continue
				}
				sig := append(append([]string{}, base...), "kw:"+strings.ReplaceAll(kw, " ", "_"), "aliases:"+ren["x"]+"/"+ren["y"])
				sql := Style{}.Query(renameAliases(With(q, "from", With(from, "kw", kw)), ren).(Node))
				out := Run(FromTagged(c["doc"]).(map[string]any), sql, false)
				v.Execs++
				if out.Panic != nil || out.Err != nil || !BagEqual(out.Rows, wantR) {
					return fail("result", sql, sig, "aliases renamed; as multisets: want %s got %s", Canon(any(wantR)), out.Describe())
				}
			}
		}
	}
	return v
}

// renameAliases renames table aliases and the qualifiers of column paths throughout a query.
func renameAliases(v any, ren map[string]string) any {
	switch t := v.(type) {
	case map[string]any:
		out := Node{}
		for k, x := range t {
			out[k] = renameAliases(x, ren)
		}
		if as, ok := t["as"].(string); ok {
			if n, ok := ren[as]; ok {
				out["as"] = n
			}
		}
		if t["k"] == "col" {
			if p := seq(t["p"]); len(p) > 1 {
				if n, ok := ren[p[0].(string)]; ok {
					out["p"] = append([]any{n}, p[1:]...)
				}
			}
		}
		return out
	case []any:
		out := make([]any, len(t))
		for i, x := range t {
			out[i] = renameAliases(x, ren)
		}
		return out
	}
	return v
}

func init() { Replay["C04"] = checkC04 }

// C04 at volume. Joins.tla groups the rows of a side by the text of their key and pairs groups whose texts are EQUAL
// (HashCore / NestedCore): the model's key identity is injective. TLC checks that on tables of a few rows; whether the
// engine's catalog keeps distinct key texts apart can only show among very many distinct keys. This driver instantiates
// HashCore on two tables of n rows with pairwise distinct keys per side (l: 0..n-1, r: shift..shift+n-1), where the
// model's result is known in closed form - one pair per common key, in left order; a left join adds one NULL-extended
// row per left key without partner - and compares the engine's rows with it (keys as float64, as int and as strings).
func init() {
	Drivers["C04:volume"] = func(emit func(Verdict)) {
		n, shift := 560000, 300000
		kinds := []string{"float64", "int"}
		if Tier == "thorough" {
			n, shift = 1100000, 300000
			kinds = append(kinds, "string")
		}
		for _, kind := range kinds {
			key := func(i int) any {
				switch kind {
				case "int":
					return i
				case "string":
					return "user-" + strconv.Itoa(i)
				}
				return float64(i)
			}
			mk := func(from int) []any {
				rows := make([]any, n)
				for i := range rows {
					rows[i] = map[string]any{"k": key(from + i)}
				}
				return rows
			}
			for _, ty := range []string{"JOIN", "LEFT JOIN", "PARALLEL HASH_JOIN"} {
				sql := "SELECT x.k AS a, y.k AS b FROM l x " + ty + " r y ON x.k = y.k"
				sig := []string{"volume", "kind:" + kind, "join:" + ty}
				v := Verdict{OK: true, SQL: sql, Sig: sig, Execs: 1, Nontrivial: true}
				out := Run(map[string]any{"l": mk(0), "r": mk(shift)}, sql, false)
				if out.Panic != nil || out.Err != nil {
					v = fail("result", sql, sig, "%d rows a side, %s keys: %s", n, kind, out.Describe())
				} else {
					// the model's result as a bag: a = b = k for every common key k, (k, NULL) for the others in a left join
					seen := map[string]int{}
					bad := ""
					for _, r := range out.Rows {
						row, _ := r.(map[string]any)
						a, b := row["a"], row["b"]
						if b != nil && fmt.Sprint(a) != fmt.Sprint(b) {
							bad = fmt.Sprintf("a row pairs the unequal keys %v and %v", a, b)
							break
						}
						seen[fmt.Sprint(a)+"|"+fmt.Sprint(b != nil)]++
					}
					want := n - shift
					if ty == "LEFT JOIN" {
						want = n
					}
					if bad == "" && len(out.Rows) != want {
						bad = fmt.Sprintf("%d rows, the model has %d", len(out.Rows), want)
					}
					if bad == "" {
						for i := 0; i < n; i++ {
							matched := i >= shift
							if !matched && ty != "LEFT JOIN" {
								continue
							}
							if seen[fmt.Sprint(key(i))+"|"+fmt.Sprint(matched)] != 1 {
								bad = fmt.Sprintf("left key %v occurs %d times (partner present: %v), the model has it once", key(i), seen[fmt.Sprint(key(i))+"|"+fmt.Sprint(matched)], matched)
								break
							}
						}
					}
					if bad != "" {
						v = fail("result", sql, sig, "%d rows a side with pairwise distinct %s keys, %d in common: %s", n, kind, n-shift, bad)
					}
				}
				v.Key = kind + "/" + ty
				v.Case = Node{"sql": sql, "kind": kind, "n": n, "shift": shift}
				emit(v)
			}
		}
	}
}

// C04, key identity on several columns. The model pairs key groups whose texts are equal column by column
// (KeyTexts(row, cols) is a tuple); the engine glues the columns of a key into one text. This driver joins a table of
// tuples with itself on two string columns, the tuples drawn from a pool chosen so that different tuples read the same
// when their parts are written one after the other - with or without separators, with or without length prefixes:
// every row must meet exactly itself (HashCore in closed form again), under the hash and the nested-loop strategies.
func init() {
	Drivers["C04:keytext"] = func(emit func(Verdict)) {
		pool := []string{"", "0", "1", "10", "a", "ab", "b", "-", "a-", "-b", ":", "1:", "1:a-", "0:-", "x", "1x", "a b", " ", "b c",
			"aaaaaaaa1x", "10aaaaaaaa", "1010", "01", "2:ab-", "ab-1:", "%", "1:a-1:b-", "a-1:b", "11", "111"}
		rows := []any{}
		for _, p := range pool {
			for _, q := range pool {
				rows = append(rows, map[string]any{"p": p, "q": q})
			}
		}
		// one number, two spellings of zero (a JSON document can hold -0): the same key under every strategy
		for _, ty := range []string{"JOIN", "HASH_JOIN", "LEFT JOIN", "RIGHT JOIN", "PARALLEL HASH_JOIN", "PARALLEL JOIN", "STRAIGHT_JOIN"} {
			sql := "SELECT x.id AS l, y.id AS r FROM l x " + ty + " r y ON x.k = y.k"
			sig := []string{"keytext", "negative-zero", "join:" + ty}
			v := Verdict{OK: true, SQL: sql, Sig: sig, Execs: 1, Nontrivial: true}
			doc := jsonDecoded(map[string]any{"l": []any{map[string]any{"id": 1.0, "k": math.Copysign(0, -1)}, map[string]any{"id": 2.0, "k": 1.0}},
				"r": []any{map[string]any{"id": 3.0, "k": 0.0}, map[string]any{"id": 4.0, "k": 1.0}}})
			out := Run(doc, sql, false)
			want := []any{map[string]any{"l": 1.0, "r": 3.0}, map[string]any{"l": 2.0, "r": 4.0}}
			if out.Panic != nil || out.Err != nil || !BagEqual(out.Rows, want) {
				v = fail("result", sql, sig, "keys -0 / 1 against 0 / 1: want %s got %s", Canon(any(want)), out.Describe())
			}
			v.Key, v.Case = "negzero/"+ty, Node{"sql": sql}
			emit(v)
		}
		for _, ty := range []string{"JOIN", "HASH_JOIN", "LEFT JOIN", "PARALLEL HASH_JOIN", "STRAIGHT_JOIN"} {
			for _, on := range []string{"x.p = y.p AND x.q = y.q", "y.q = x.q AND y.p = x.p"} {
				sql := "SELECT x.p AS p, x.q AS q, y.p AS p2, y.q AS q2 FROM l x " + ty + " r y ON " + on
				sig := []string{"keytext", "join:" + ty}
				v := Verdict{OK: true, SQL: sql, Sig: sig, Execs: 1, Nontrivial: true}
				out := Run(map[string]any{"l": DeepCopy(any(rows)), "r": DeepCopy(any(rows))}, sql, false)
				if out.Panic != nil || out.Err != nil {
					v = fail("result", sql, sig, "%d tuples a side: %s", len(rows), out.Describe())
				} else {
					bad := ""
					for _, r := range out.Rows {
						row, _ := r.(map[string]any)
						if row["p"] != row["p2"] || row["q"] != row["q2"] {
							bad = fmt.Sprintf("the tuples (%q, %q) and (%q, %q) were joined", row["p"], row["q"], row["p2"], row["q2"])
							break
						}
					}
					if bad == "" && len(out.Rows) != len(rows) {
						bad = fmt.Sprintf("%d rows, the model has %d (every tuple meets exactly itself)", len(out.Rows), len(rows))
					}
					if bad != "" {
						v = fail("result", sql, sig, "%d pairwise distinct two-column keys: %s", len(rows), bad)
					}
				}
				v.Key, v.Case = ty+"/"+on, Node{"sql": sql}
				emit(v)
			}
		}
	}
}
