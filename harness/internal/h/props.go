package h

import (
	"math"
	"strconv"
	"strings"
)

// Replay checks per property: each takes one case exported by TLC (the JSON
// record printed by the MC module's Export constraint) and returns a verdict.
var Replay = map[string]func(c Node) Verdict{
	"C01": checkC01,
	"C05": checkC05,
	"C02": checkC02,
	"C03": checkC03,
	"C06": checkC06,
}

func tableLen(c Node, name string) int {
	doc := FromTagged(c["doc"]).(map[string]any)
	rows, _ := doc[name].([]any)
	return len(rows)
}

// C01: SELECT * FROM t WHERE p - exact sequence.
func checkC01(c Node) Verdict {
	v := CheckEngine(c, EngineOpts{})
	want, _ := ExpectedRows(c)
	n := tableLen(c, "t")
	v.Nontrivial = len(want) > 0 && len(want) < n // the predicate separates the rows
	if !v.OK {
		return v
	}
	// the same table with its numbers held in other Go numeric kinds (one scalar kind per column)
	arith := false
	for _, f := range Features(c["q"].(Node)) {
		if strings.HasPrefix(f, "bin:") || strings.HasPrefix(f, "un:") {
			arith = true // arithmetic accepts float64 operands only: not part of this property
		}
	}
	if (c["fam"] == "num" || c["fam"] == "ac") && !arith {
		q := c["q"].(Node)
		for _, kind := range []string{"int", "int64", "float32", "uint8"} {
			doc := FromTagged(c["doc"]).(map[string]any)
			for _, r := range doc["t"].([]any) {
				row := r.(map[string]any)
				for k, val := range row {
					if f, ok := val.(float64); ok && f >= 0 && f == float64(int64(f)) {
						switch kind {
						case "int":
							row[k] = int(f)
						case "int64":
							row[k] = int64(f)
						case "float32":
							row[k] = float32(f)
						default:
							row[k] = uint8(f)
						}
					}
				}
			}
			out := Run(doc, Style{}.Query(q), false)
			v.Execs++
			sig := append(Features(q), "kind:"+kind)
			if out.Panic != nil || out.Err != nil || !Equal(any(out.Rows), any(want)) {
				return fail("result", v.SQL, sig, "with the column held as %s: want %s got %s", kind, Canon(any(want)), out.Describe())
			}
		}
	}
	// order embeddings: a filter built from comparisons only means the same for any strictly increasing renaming of its
	// numbers, so the abstract 0, 1, 2 ... of the specification are also bound to float64 neighbours one unit in the
	// last place apart (column values and constants alike)
	if c["fam"] == "num" && !arith {
		q := c["q"].(Node)
		for _, em := range embeddings {
			doc := embedValue(FromTagged(c["doc"]), em).(map[string]any)
			wantE := embedValue(any(want), em)
			sql := Style{}.Query(embedLits(q, em).(Node))
			out := Run(doc, sql, false)
			v.Execs++
			if out.Panic != nil || out.Err != nil || !ExactEqual(any(out.Rows), wantE) {
				return fail("result", sql, append(Features(q), "embed:"+em.name), "numbers renamed in order (%s): want %s got %s", em.name, Canon(wantE), out.Describe())
			}
		}
	}
	// a predicate and its negation partition the rows: both statements run on one and
	// the same document object, the negated one second
	if negT, ok := c["neg"].(Node); ok && negT["t"] == "arr" {
		q := c["q"].(Node)
		nq := With(q, "where", NotE(q["where"].(Node)))
		doc := FromTagged(c["doc"]).(map[string]any)
		sig := append(Features(q), "second-statement")
		first := Run(doc, Style{}.Query(q), false)
		second := Run(doc, Style{}.Query(nq), false)
		v.Execs += 2
		wantNeg := FromTagged(negT).([]any)
		sql := Style{}.Query(q) + " ; " + Style{}.Query(nq)
		if first.Err != nil || first.Panic != nil || !Equal(any(first.Rows), any(want)) {
			return fail("result", sql, sig, "first statement on the shared document: want %s got %s", Canon(any(want)), first.Describe())
		}
		if second.Err != nil || second.Panic != nil || !Equal(any(second.Rows), any(wantNeg)) {
			return fail("result", sql, sig, "negated predicate as second statement on the same document: want %s got %s", Canon(any(wantNeg)), second.Describe())
		}
		if len(first.Rows)+len(second.Rows) != n {
			return fail("result", sql, sig, "predicate and negation do not partition the %d rows: %d + %d", n, len(first.Rows), len(second.Rows))
		}
	}
	return v
}

func stageRows(c Node, st string) ([]any, bool) {
	for _, h := range seq(c["hist"]) {
		h := h.(Node)
		if h["st"] == st {
			return FromTagged(Node{"t": "arr", "e": h["rows"]}).([]any), true
		}
	}
	return nil, false
}

// C05: ORDER BY / LIMIT / OFFSET. The key-tuple sequence is fixed by the specification;
// the order of tied rows is not, so a windowed result with ties is compared with the
// window of the engine's own un-windowed sequence (CheckEngine).
func checkC05(c Node) Verdict {
	v := CheckEngine(c, EngineOpts{})
	q := c["q"].(Node)
	before, _ := stageRows(c, "distinct")
	sorted, _ := stageRows(c, "order")
	want, _ := ExpectedRows(c)
	// non-trivial: sorting changes the sequence, or the window cuts it
	v.Nontrivial = !Equal(any(before), any(sorted)) || (hasWindow(q) && len(want) > 0 && len(want) < len(sorted))
	if !v.OK || q["k"] == "union" {
		return v
	}
	// what the engine returns for the case as it stands (checked against the specification above): where keys tie,
	// the variants below must keep the engine's own choice
	plain := Run(FromTagged(c["doc"]).(map[string]any), Style{}.Query(q), false)
	if plain.Panic != nil || plain.Err != nil {
		return v
	}
	// LIMIT / OFFSET counts written with a leading zero are the same decimal numbers
	if lim := num(q["limit"]); lim >= 0 && lim < 2000000000 {
		sql := Style{PadCounts: true}.Query(q)
		out := Run(FromTagged(c["doc"]).(map[string]any), sql, false)
		v.Execs += 2
		if out.Panic != nil || out.Err != nil || !ExactEqual(any(out.Rows), any(plain.Rows)) {
			return fail("result", sql, append(Features(q), "padded-counts"), "counts with a leading zero: want %s got %s", Canon(any(plain.Rows)), out.Describe())
		}
	}
	// the order of rows depends on the order of the keys only: the same case with its numbers renamed in order to
	// float64 neighbours and to int64 values no float64 tells apart
	for _, f := range Features(q) {
		if strings.HasPrefix(f, "bin:") || strings.HasPrefix(f, "un:") || strings.HasPrefix(f, "agg:") || strings.HasPrefix(f, "fn:") {
			return v
		}
	}
	for _, em := range append([]embedding{embedInt64}, embeddings[:2]...) {
		doc := embedValue(FromTagged(c["doc"]), em).(map[string]any)
		wantE := embedValue(any(plain.Rows), em)
		sql := Style{}.Query(embedLits(q, em).(Node))
		out := Run(doc, sql, false)
		v.Execs++
		if out.Panic != nil || out.Err != nil || !ExactEqual(any(out.Rows), wantE) {
			return fail("result", sql, append(Features(q), "embed:"+em.name), "numbers renamed in order (%s): want %s got %s", em.name, Canon(wantE), out.Describe())
		}
	}
	return v
}

// C02: projection - exact row sequence (keys and values).
func checkC02(c Node) Verdict {
	v := CheckEngine(c, EngineOpts{})
	want, _ := ExpectedRows(c)
	q := c["q"].(Node)
	sel := seq(q["sel"])
	simple := len(sel) == 1 && sel[0].(Node)["k"] == "item" && (sel[0].(Node)["e"].(Node)["k"] == "col" || sel[0].(Node)["e"].(Node)["k"] == "lit")
	v.Nontrivial = len(want) > 0 && !simple
	return v
}

// C03: GROUP BY / aggregates - exact row sequence (group order is part of the property),
// repeated in fresh queries because the statement says "identically on every run".
func checkC03(c Node) Verdict {
	reps := 3
	if Tier == "thorough" {
		reps = 8
	}
	v := CheckEngine(c, EngineOpts{Repeats: reps})
	kept, _ := stageRows(c, "where")
	if c["fam"] == "group" {
		v.Nontrivial = num(c["ngroups"]) >= 2
	} else {
		v.Nontrivial = len(kept) >= 1 && len(kept) < tableLen(c, "t")
	}
	return v
}

// C06: DISTINCT / UNION [ALL] - exact row sequence.
func checkC06(c Node) Verdict {
	v := CheckEngine(c, EngineOpts{})
	v.Nontrivial = num(c["dups"]) >= 1 // duplicate rows exist, so removing (or keeping) them is observable
	return v
}

// embedding is a strictly increasing map from the specification's small naturals to Go numbers, with the text of each as
// a constant.
type embedding struct {
	name string
	at   func(i int) any
	lit  func(i int) string
}

func ulpsFrom(name string, base float64) embedding {
	at := func(i int) float64 {
		x := base
		for ; i > 0; i-- {
			x = math.Nextafter(x, math.Inf(1))
		}
		return x
	}
	return embedding{name, func(i int) any { return at(i) }, func(i int) string { return strconv.FormatFloat(at(i), 'f', -1, 64) }}
}

var embeddings = []embedding{
	ulpsFrom("ulps above 0.3", 0.29999999999999993),
	{"integers below 2^53", func(i int) any { return 9007199254740970 + float64(i) }, func(i int) string { return strconv.Itoa(9007199254740970 + i) }},
	ulpsFrom("ulps above 1e21", 1e21),
	ulpsFrom("ulps above 1/3", 1.0/3),
}

// integers no float64 tells apart, held as int64 (one scalar kind per column)
var embedInt64 = embedding{"int64 above 2^53", func(i int) any { return int64(9007199254740992) + int64(i) }, func(i int) string { return strconv.Itoa(9007199254740992 + i) }}

func embedValue(v any, em embedding) any {
	switch t := v.(type) {
	case map[string]any:
		out := map[string]any{}
		for k, x := range t {
			out[k] = embedValue(x, em)
		}
		return out
	case []any:
		out := make([]any, len(t))
		for i, x := range t {
			out[i] = embedValue(x, em)
		}
		return out
	case float64:
		if t >= 0 && t == float64(int(t)) && t < 1000 {
			return em.at(int(t))
		}
	}
	return v
}

// embedLits rewrites the numeric literals of a query; the text is the shortest that reads back as the same float64.
func embedLits(v any, em embedding) any {
	switch t := v.(type) {
	case map[string]any:
		if t["t"] == "num" && num(t["d"]) == 1 && num(t["n"]) >= 0 {
			return Node{"t": "num", "n": t["n"], "d": t["d"], "raw": em.lit(int(num(t["n"])))}
		}
		out := Node{}
		for k, x := range t {
			out[k] = embedLits(x, em)
		}
		return out
	case []any:
		out := make([]any, len(t))
		for i, x := range t {
			out[i] = embedLits(x, em)
		}
		return out
	}
	return v
}

// C06 at volume. DISTINCT keeps the first occurrence of every distinct row (DistinctLaw: Len(Dis) = Cardinality(Range(Sel))):
// whether the engine's fingerprints keep different rows apart can only show among very many rows. A table of n pairwise
// different rows, each given twice, must come back as those n rows in first-occurrence order - with one and with two
// columns, and through UNION.
func init() {
	Drivers["C06:volume"] = func(emit func(Verdict)) {
		n := 700000
		if Tier == "thorough" {
			n = 1500000
		}
		one, two := make([]any, 0, 2*n), make([]any, 0, 2*n)
		for rep := 0; rep < 2; rep++ {
			for i := 0; i < n; i++ {
				one = append(one, map[string]any{"id": float64(i)})
				two = append(two, map[string]any{"a": float64(i % 1000), "b": float64(i / 1000)})
			}
		}
		for _, tc := range []struct {
			name, sql string
			doc       map[string]any
			first     func(i int) map[string]any
		}{
			{"one column", "SELECT DISTINCT id FROM t", map[string]any{"t": one}, func(i int) map[string]any { return map[string]any{"id": float64(i)} }},
			{"two columns", "SELECT DISTINCT a, b FROM t", map[string]any{"t": two}, func(i int) map[string]any {
				return map[string]any{"a": float64(i % 1000), "b": float64(i / 1000)}
			}},
			{"union", "SELECT id FROM t UNION SELECT id FROM t", map[string]any{"t": one[:n]}, func(i int) map[string]any { return map[string]any{"id": float64(i)} }},
		} {
			sig := []string{"volume", "distinct", tc.name}
			v := Verdict{OK: true, SQL: tc.sql, Sig: sig, Execs: 1, Nontrivial: true}
			out := Run(tc.doc, tc.sql, false)
			if out.Panic != nil || out.Err != nil {
				v = fail("result", tc.sql, sig, "%d distinct rows: %s", n, out.Describe())
			} else if len(out.Rows) != n {
				v = fail("result", tc.sql, sig, "%d pairwise different rows, each given twice: %d rows come back", n, len(out.Rows))
			} else {
				for i := 0; i < n; i++ {
					if !Equal(out.Rows[i], any(tc.first(i))) {
						v = fail("result", tc.sql, sig, "row %d: want %s got %s", i, Canon(any(tc.first(i))), Canon(out.Rows[i]))
						break
					}
				}
			}
			v.Key, v.Case = tc.name, Node{"sql": tc.sql, "n": n}
			emit(v)
		}
	}
}
