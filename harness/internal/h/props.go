package h

// Replay checks per property: each takes one case exported by TLC (the JSON
// record printed by the MC module's Export constraint) and returns a verdict.
var Replay = map[string]func(c Node) Verdict{
	"C01": checkC01,
}

func tableLen(c Node, name string) int {
	doc := FromTagged(c["doc"]).(map[string]any)
	rows, _ := doc[name].([]any)
	return len(rows)
}

// C01: SELECT * FROM t WHERE p - exact sequence.
func checkC01(c Node) Verdict {
	v := CheckEngine(c, EngineOpts{})
	want, _ := ExpectedRows(c)
	n := tableLen(c, "t")
	v.Nontrivial = len(want) > 0 && len(want) < n // the predicate separates the rows
	return v
}
