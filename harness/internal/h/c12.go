package h

import (
	"encoding/json"
	"fmt"
	"math"
	"reflect"
	"sort"
	"strings"
)

// NotPlain walks a result by reflection and returns a description of the first thing in it
// that is not plain self-contained JSON-like data ("" if all is plain).
func NotPlain(v any) string {
	return notPlain(v, "$", map[uintptr]bool{}, 0)
}

func notPlain(v any, path string, seen map[uintptr]bool, depth int) string {
	if depth > 200 {
		return path + ": nesting deeper than 200 (cycle?)"
	}
	switch x := v.(type) {
	case nil, bool, string:
		return ""
	case float64:
		if math.IsInf(x, 0) || math.IsNaN(x) {
			return fmt.Sprintf("%s: %v is not JSON-representable", path, x)
		}
		return ""
	case float32, int, int8, int16, int32, int64, uint, uint8, uint16, uint32, uint64:
		return ""
	case []any:
		if x != nil {
			p := reflect.ValueOf(x).Pointer()
			if len(x) > 0 && seen[p] {
				return path + ": reference cycle"
			}
			if len(x) > 0 {
				seen[p] = true
				defer delete(seen, p)
			}
		}
		for i, e := range x {
			if s := notPlain(e, fmt.Sprintf("%s[%d]", path, i), seen, depth+1); s != "" {
				return s
			}
		}
		return ""
	case []string:
		return ""
	case []map[string]any:
		// a typed table of the caller's own document handed through as a value: the caller's data, plain
		for i, e := range x {
			if s := notPlain(e, fmt.Sprintf("%s[%d]", path, i), seen, depth+1); s != "" {
				return s
			}
		}
		return ""
	case map[string]any:
		if x != nil {
			p := reflect.ValueOf(x).Pointer()
			if seen[p] {
				return path + ": reference cycle"
			}
			seen[p] = true
			defer delete(seen, p)
		}
		for k, e := range x {
			if k == "<-" {
				return path + ": navigation key \"<-\""
			}
			if s := notPlain(e, path+"."+k, seen, depth+1); s != "" {
				return s
			}
		}
		return ""
	}
	return fmt.Sprintf("%s: engine-internal value of type %T", path, v)
}

// groupingOrJoin: is grouping (GROUP BY, an aggregate) or a join involved anywhere in the query?
func groupingOrJoin(q Node) bool {
	for _, f := range Features(q) {
		if strings.HasPrefix(f, "join:") || strings.HasPrefix(f, "agg:") || f == "groupby" {
			return true
		}
	}
	return false
}

// C12: plain data (reflection walk, JSON round trip, no "<-"), and a second evaluation on an
// equal input gives an equal result (sequence when determined, multiset otherwise).
func checkC12(c Node) Verdict {
	q := c["q"].(Node)
	sql := Style{}.Query(q)
	form, _ := c["form"].(string)
	sig := append(Features(q), "pos:"+c["fam"].(string), "form:"+form)
	v := Verdict{OK: true, SQL: sql, Sig: sig}
	ties, _ := c["ties"].(bool)
	doc := FromTagged(c["doc"]).(map[string]any)
	sideEffects := false
	for _, f := range sig {
		sideEffects = sideEffects || strings.HasPrefix(f, "qual:")
	}
	ReExec = !sideEffects
	out := Run(doc, sql, false)
	ReExec = false
	v.Execs++
	if out.Panic != nil {
		return fail("panic", sql, sig, "panic escaped the API: %v", out.Panic)
	}
	if out.Again {
		// the same Query object evaluated again (on the same, untouched input): an equal result
		v.Execs++
		same := out.Panic2 == nil && out.Err2 == nil && (Canon(any(out.Rows2)) == Canon(any(out.Rows)) || (groupingOrJoin(q) && canonBag(out.Rows2) == canonBag(out.Rows)))
		if !same {
			return fail("nondet", sql, append(sig, "reexec"), "the same Query executed twice: first %s, then %s (err %v, panic %v)", Canon(any(out.Rows)), Canon(any(out.Rows2)), out.Err2, out.Panic2)
		}
	}
	want, wantErr := ExpectedRows(c)
	if out.Err != nil {
		if !wantErr {
			v.Drift = fmt.Sprintf("specification has a value, engine returned error: %v", out.Err)
		}
		return v
	}
	if s := NotPlain(any(out.Rows)); s != "" {
		return fail("notplain", sql, sig, "%s in %s", s, Canon(any(out.Rows)))
	}
	b, err := json.Marshal(out.Rows)
	if err != nil {
		return fail("notplain", sql, sig, "the result cannot be marshalled to JSON: %v", err)
	}
	var back any
	if err := json.Unmarshal(b, &back); err != nil {
		return fail("notplain", sql, sig, "the JSON form of the result cannot be read back: %v", err)
	}
	if out.Rows != nil && emptyAsNull(Canon(any(out.Rows))) != emptyAsNull(Canon(back)) {
		return fail("notplain", sql, sig, "JSON round trip changes the result: %s -> %s", Canon(any(out.Rows)), Canon(back))
	}
	v.Nontrivial = len(out.Rows) > 0
	// second and third evaluation on equal inputs (fresh documents, fresh queries)
	reps := 2
	totalOrder := q["k"] == "select" && len(seq(q["order"])) > 0 && !ties
	if ties {
		reps = 5 // an order that varies between evaluations shows in the tied rows only
	}
	if strings.HasPrefix(c["fam"].(string), "joinnull") || strings.HasPrefix(c["fam"].(string), "joinlimit") {
		reps = 8 // what NULL keys meet, or what a window keeps, may depend on map iteration order
	}
	for _, f := range sig {
		if f == "qual:async" || f == "qual:spinasync" {
			reps = 8 // goroutine interleavings differ from run to run
		}
	}
	for rep := 0; rep < reps; rep++ {
		doc2 := FromTagged(c["doc"]).(map[string]any)
		out2 := Run(doc2, sql, false)
		v.Execs++
		if out2.Err != nil || out2.Panic != nil {
			return fail("nondet", sql, sig, "the first evaluation succeeded, a repetition on an equal input: %s", out2.Describe())
		}
		// two real results: compared through their canonical renderings (numbers by value)
		// the identical sequence whenever ORDER BY determines a total order or no grouping / join is involved;
		// the equal multiset otherwise
		same := Canon(any(out2.Rows)) == Canon(any(out.Rows))
		if !same && !totalOrder && groupingOrJoin(q) {
			same = canonBag(out2.Rows) == canonBag(out.Rows)
		}
		if !same {
			return fail("nondet", sql, sig, "repetition on an equal input: first %s, then %s", Canon(any(out.Rows)), Canon(any(out2.Rows)))
		}
	}
	cut := false // a window that cuts through tied rows: which of them it keeps is not specified
	if ties && q["k"] == "select" {
		cut = num(q["limit"]) >= 0 || num(q["offset"]) >= 0
	}
	if strings.HasPrefix(c["fam"].(string), "joinnull") {
		cut = true // which rows a NULL / missing key joins is claimed nowhere
	}
	if strings.HasPrefix(c["fam"].(string), "joinlimit") {
		cut = true // which rows of a join a window without ORDER BY keeps is open
	}
	if !wantErr && !cut && c["res"].(Node)["t"] != "any" {
		ok := Equal(any(out.Rows), any(want))
		if ties {
			ok = BagEqual(out.Rows, want)
		}
		if !ok {
			v.Drift = fmt.Sprintf("value differs from the specification: want %s got %s", Canon(any(want)), Canon(any(out.Rows)))
		}
	}
	return v
}

// the engine returns nil slices for empty results, which JSON writes as null: "no rows"
// either way, so [] and null are not told apart by the round-trip comparison
func emptyAsNull(canon string) string {
	return strings.ReplaceAll(canon, "[]", "null")
}

func init() { Replay["C12"] = checkC12 }

func canonBag(rows []any) string {
	cs := make([]string, len(rows))
	for i, r := range rows {
		cs[i] = Canon(r)
	}
	sort.Strings(cs)
	return strings.Join(cs, "|")
}

// Statement texts outside the query AST of the specification (FROM dual, derived tables on both sides of a join with
// ASYNC items, subqueries over dual, tuples ...). What C12 states needs no model of their values: the result is plain
// data by reflection and JSON round trip, and evaluating the text again on an equal input gives an equal result
// (the sequence; the multiset for joins and groups).
var texts12 = []struct {
	sql  string
	bag  bool
	open bool // an error is as good an answer as a plain result
}{
	{"SELECT a, (SELECT * FROM dual) AS x FROM t", false, false},
	{"SELECT a, (SELECT * FROM (SELECT * FROM dual) d) AS x FROM t", false, false},
	{"SELECT a, (SELECT *, 1 AS one FROM dual) AS x FROM t WHERE a > 1", false, false},
	{"SELECT * FROM dual", false, false},
	{"WITH c AS (SELECT a FROM t) SELECT * FROM dual", false, false},
	{"WITH c AS (SELECT a FROM t) SELECT *, (SELECT COUNT(*) AS k FROM c) AS n FROM dual", false, false},
	{"WITH c AS (SELECT a FROM t) SELECT (SELECT COUNT(*) AS k FROM c) AS n, * FROM dual", false, false},
	{"WITH c AS (SELECT a FROM t) SELECT * FROM (SELECT * FROM dual) x", false, false},
	{"WITH c AS (SELECT a FROM t), d AS (SELECT * FROM c) SELECT a, (SELECT * FROM dual) AS x FROM d", false, false},
	{"SELECT (a, s) AS tup, (1, 2) FROM t", false, false},
	// numbers no document can hold: an error or a finite value, never +Inf / NaN
	{"SELECT 1e308 * 10 AS v FROM t", false, true},
	{"SELECT 1e308 + 1e308 AS v, a FROM t", false, true},
	{"SELECT -1e308 - 1e308 AS v FROM t", false, true},
	{"SELECT 1 / 1e-320 AS v FROM t", false, true},
	{"SELECT ARRAY(1e308 * 10, a) AS v FROM t", false, true},
	{"SELECT CHANGETYPE('NaN', 'double') AS v FROM t", false, true},
	{"SELECT CHANGETYPE('Inf', 'double') AS v, CHANGETYPE('-Infinity', 'double') AS w FROM t", false, true},
	{"SELECT SUM(big) AS s FROM u", false, true},
	{"SELECT AVG(big) AS s, MAX(big) AS m FROM u", false, true},
	{"SELECT a FROM t WHERE 1e308 * 10 > a", false, true},
	{"SELECT *, 1 AS one FROM dual", false, false},
	{"SELECT * FROM (SELECT a, ASYNC.CONCAT(s, '!') AS v FROM t) l JOIN (SELECT * FROM u) r ON l.a = r.c", true, false},
	{"SELECT l FROM (SELECT a, ASYNC.CONCAT(s, '!') AS v FROM t) l JOIN (SELECT c, ASYNC.CONCAT(c, '!') AS w FROM u) r ON l.a = r.c", true, false},
	{"SELECT * FROM (SELECT a, ASYNC.CONCAT(s, '!') AS v FROM t) l LEFT JOIN (SELECT c, (SELECT p FROM `<-.t[0].n`) AS ps FROM u) r ON l.a = r.c", true, false},
	{"SELECT * FROM (SELECT a, ASYNC.CONCAT(s, '!') AS v, SPINASYNC.CONCAT(s, '?') AS w FROM t) l JOIN (SELECT *, ASYNC.CONCAT(c, '!') AS v FROM u) r ON l.a >= r.c", true, false},
	{"SELECT * FROM (SELECT * FROM t) l JOIN (SELECT c, ASYNC.CONCAT(c, '!') AS w FROM u) r ON l.a = r.c", true, false},
	{"SELECT r FROM (SELECT * FROM u) l RIGHT JOIN (SELECT a, ASYNC.CONCAT(s, '!') AS v FROM t) r ON l.c = r.a", true, false},
	{"SELECT x.a, x.v FROM (SELECT a, ASYNC.CONCAT(s, '!') AS v FROM t) x", false, false},
	{"SELECT * FROM (SELECT a, ASYNC.CONCAT(s, '!') AS v FROM t) x", false, false},
	{"WITH c AS (SELECT a, ASYNC.CONCAT(s, '!') AS v FROM t) SELECT * FROM c l JOIN c r ON l.a = r.a", true, false},
	{"SELECT a, ASYNC.CONCAT(s, '!') AS v FROM t UNION SELECT c, ASYNC.CONCAT(c, '!') FROM u", false, false},
	{"SELECT FUSE(o) FROM t", false, false},
	{"SELECT FUSE(o), a FROM t", false, false},
	{"SELECT a, o AS p, o AS q, n AS m FROM t", false, false},
	{"SELECT a, FIRST(n) AS f, LAST(n) AS l, ELEMENTAT(n, 0) AS e FROM t", false, false},
	{"SELECT ARRAY(a, s, o, n) AS arr FROM t", false, false},
	{"SELECT a, UNWIND(n) AS p FROM t", false, false},
	{"SELECT g, COUNT(*) AS k, * FROM t GROUP BY g", true, false},
	// grouping columns whose values read alike when written one after the other ("a b", "c") / ("a", "b c")
	{"SELECT f, l, COUNT(*) AS n FROM p GROUP BY f, l", true, false},
	{"SELECT l, f, COUNT(*) AS n, SUM(v) AS s FROM p GROUP BY l, f", true, false},
	{"SELECT v FROM `p[(1:end)]`", false, false},
	{"SELECT v FROM `p[(begin:2)]` WHERE v > 0", false, false},
}

func doc12() map[string]any {
	n := func(ps ...float64) []any {
		out := []any{}
		for _, p := range ps {
			out = append(out, map[string]any{"p": p})
		}
		return out
	}
	return map[string]any{
		"t": []any{
			map[string]any{"a": 1.0, "g": 0.0, "s": "x", "o": map[string]any{"k": 1.0, "l": "y"}, "n": n(1, 2)},
			map[string]any{"a": 3.0, "g": 1.0, "s": "y", "o": map[string]any{"k": 2.0}, "n": n()},
			map[string]any{"a": 3.0, "g": 0.0, "s": "x", "o": map[string]any{"k": 2.0}, "n": n(3)},
		},
		"u": []any{map[string]any{"c": 3.0, "big": 1e308}, map[string]any{"c": 1.0, "big": 1.5e308}},
		"p": []any{map[string]any{"f": "a b", "l": "c", "v": 1.0}, map[string]any{"f": "a", "l": "b c", "v": 2.0}, map[string]any{"f": "a b", "l": "c", "v": 3.0},
			map[string]any{"f": "1", "l": "12", "v": 4.0}, map[string]any{"f": "11", "l": "2", "v": 5.0}},
	}
}

func init() {
	Drivers["C12:texts"] = func(emit func(Verdict)) {
		// a result is a function of (query, document), not of what the process evaluated before: one selector text with an
		// open range, first on a short table, then on a longer one (and back)
		for _, h := range []struct {
			sql  string
			lens []int
			want func(n int) []float64
		}{
			{"SELECT v FROM `q[(1:end)]`", []int{2, 5, 3, 5}, func(n int) []float64 { return seqF(2, n) }},
			{"SELECT v FROM `q[(begin:2)]`", []int{5, 2, 4}, func(n int) []float64 { return seqF(1, 2) }},
			{"SELECT v FROM `q[(0:end)]` WHERE v > 1", []int{1, 4, 2}, func(n int) []float64 { return seqF(2, n) }},
		} {
			sig := []string{"text", "history"}
			v := Verdict{OK: true, SQL: h.sql, Sig: sig, Nontrivial: true}
			for step, n := range h.lens {
				rows := []any{}
				for i := 1; i <= n; i++ {
					rows = append(rows, map[string]any{"v": float64(i)})
				}
				out := Run(map[string]any{"q": rows}, h.sql, false)
				v.Execs++
				want := []any{}
				for _, x := range h.want(n) {
					want = append(want, map[string]any{"v": x})
				}
				if out.Panic != nil || out.Err != nil || !Equal(any(out.Rows), any(want)) {
					v = fail("nondet", h.sql, sig, "step %d, a table of %d rows after tables of %v rows: want %s got %s", step+1, n, h.lens[:step], Canon(any(want)), out.Describe())
					break
				}
			}
			v.Key, v.Case = h.sql+"/history", Node{"sql": h.sql, "lens": fmt.Sprint(h.lens)}
			emit(v)
		}
		for _, tc := range texts12 {
			for _, variant := range []string{"plain", "json"} {
				sig := []string{"text", "variant:" + variant}
				v := Verdict{OK: true, SQL: tc.sql, Sig: sig, Nontrivial: true}
				mk := func() map[string]any {
					if variant == "json" {
						return jsonDecoded(doc12())
					}
					return doc12()
				}
				first := Run(mk(), tc.sql, false)
				v.Execs++
				check := func() {
					if first.Panic != nil {
						v = fail("panic", tc.sql, sig, "panic escaped the API: %v", first.Panic)
						return
					}
					if first.Err != nil {
						v.Nontrivial = false
						if !tc.open {
							v.Drift = fmt.Sprintf("statement text not accepted: %v", first.Err)
						}
						return
					}
					if s := NotPlain(any(first.Rows)); s != "" {
						v = fail("notplain", tc.sql, sig, "%s in %s", s, Canon(any(first.Rows)))
						return
					}
					b, err := json.Marshal(first.Rows)
					if err != nil {
						v = fail("notplain", tc.sql, sig, "the result cannot be marshalled to JSON: %v", err)
						return
					}
					var back any
					if err := json.Unmarshal(b, &back); err != nil || (first.Rows != nil && emptyAsNull(Canon(any(first.Rows))) != emptyAsNull(Canon(back))) {
						v = fail("notplain", tc.sql, sig, "JSON round trip changes the result: %s -> %s", Canon(any(first.Rows)), Canon(back))
						return
					}
					for rep := 0; rep < 6; rep++ {
						ReExec = rep == 0 // once, also a second Exec of the same Query
						again := Run(mk(), tc.sql, false)
						ReExec = false
						if again.Again && (again.Err2 != nil || again.Panic2 != nil || !(Canon(any(again.Rows2)) == Canon(any(again.Rows)) || (tc.bag && canonBag(again.Rows2) == canonBag(again.Rows)))) {
							v = fail("nondet", tc.sql, append(sig, "reexec"), "the same Query executed twice: first %s, then %s (err %v, panic %v)", Canon(any(again.Rows)), Canon(any(again.Rows2)), again.Err2, again.Panic2)
							return
						}
						v.Execs++
						same := again.Err == nil && again.Panic == nil && (Canon(any(again.Rows)) == Canon(any(first.Rows)) || (tc.bag && canonBag(again.Rows) == canonBag(first.Rows)))
						if !same {
							v = fail("nondet", tc.sql, sig, "repetition on an equal input: first %s, then %s", Canon(any(first.Rows)), again.Describe())
							return
						}
					}
				}
				check()
				v.Key, v.Case = tc.sql+"/"+variant, Node{"sql": tc.sql, "variant": variant}
				emit(v)
			}
		}
	}
}

func seqF(from, to int) []float64 {
	out := []float64{}
	for i := from; i <= to; i++ {
		out = append(out, float64(i))
	}
	return out
}
