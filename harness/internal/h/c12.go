package h

import (
	"encoding/json"
	"fmt"
	"math"
	"reflect"
	"sort"
	"strings"
)

// NotPlain walks a result by reflection and returns a description of the first thing in it
// that is not plain self-contained JSON-like data ("" if all is plain).
func NotPlain(v any) string {
	return notPlain(v, "$", map[uintptr]bool{}, 0)
}

func notPlain(v any, path string, seen map[uintptr]bool, depth int) string {
	if depth > 200 {
		return path + ": nesting deeper than 200 (cycle?)"
	}
	switch x := v.(type) {
	case nil, bool, string:
		return ""
	case float64:
		if math.IsInf(x, 0) || math.IsNaN(x) {
			return fmt.Sprintf("%s: %v is not JSON-representable", path, x)
		}
		return ""
	case float32, int, int8, int16, int32, int64, uint, uint8, uint16, uint32, uint64:
		return ""
	case []any:
		if x != nil {
			p := reflect.ValueOf(x).Pointer()
			if len(x) > 0 && seen[p] {
				return path + ": reference cycle"
			}
			if len(x) > 0 {
				seen[p] = true
				defer delete(seen, p)
			}
		}
		for i, e := range x {
			if s := notPlain(e, fmt.Sprintf("%s[%d]", path, i), seen, depth+1); s != "" {
				return s
			}
		}
		return ""
	case []string:
		return ""
	case map[string]any:
		if x != nil {
			p := reflect.ValueOf(x).Pointer()
			if seen[p] {
				return path + ": reference cycle"
			}
			seen[p] = true
			defer delete(seen, p)
		}
		for k, e := range x {
			if k == "<-" {
				return path + ": navigation key \"<-\""
			}
			if s := notPlain(e, path+"."+k, seen, depth+1); s != "" {
				return s
			}
		}
		return ""
	}
	return fmt.Sprintf("%s: engine-internal value of type %T", path, v)
}

// groupingOrJoin: is grouping (GROUP BY, an aggregate) or a join involved anywhere in the query?
func groupingOrJoin(q Node) bool {
	for _, f := range Features(q) {
		if strings.HasPrefix(f, "join:") || strings.HasPrefix(f, "agg:") || f == "groupby" {
			return true
		}
	}
	return false
}

// C12: plain data (reflection walk, JSON round trip, no "<-"), and a second evaluation on an
// equal input gives an equal result (sequence when determined, multiset otherwise).
func checkC12(c Node) Verdict {
	q := c["q"].(Node)
	sql := Style{}.Query(q)
	form, _ := c["form"].(string)
	sig := append(Features(q), "pos:"+c["fam"].(string), "form:"+form)
	v := Verdict{OK: true, SQL: sql, Sig: sig}
	ties, _ := c["ties"].(bool)
	doc := FromTagged(c["doc"]).(map[string]any)
	sideEffects := false
	for _, f := range sig {
		sideEffects = sideEffects || strings.HasPrefix(f, "qual:")
	}
	ReExec = !sideEffects
	out := Run(doc, sql, false)
	ReExec = false
	v.Execs++
	if out.Panic != nil {
		return fail("panic", sql, sig, "panic escaped the API: %v", out.Panic)
	}
	if out.Again {
		// the same Query object evaluated again (on the same, untouched input): an equal result
		v.Execs++
		same := out.Panic2 == nil && out.Err2 == nil && (Canon(any(out.Rows2)) == Canon(any(out.Rows)) || (groupingOrJoin(q) && canonBag(out.Rows2) == canonBag(out.Rows)))
		if !same {
			return fail("nondet", sql, append(sig, "reexec"), "the same Query executed twice: first %s, then %s (err %v, panic %v)", Canon(any(out.Rows)), Canon(any(out.Rows2)), out.Err2, out.Panic2)
		}
	}
	want, wantErr := ExpectedRows(c)
	if out.Err != nil {
		if !wantErr {
			v.Drift = fmt.Sprintf("specification has a value, engine returned error: %v", out.Err)
		}
		return v
	}
	if s := NotPlain(any(out.Rows)); s != "" {
		return fail("notplain", sql, sig, "%s in %s", s, Canon(any(out.Rows)))
	}
	b, err := json.Marshal(out.Rows)
	if err != nil {
		return fail("notplain", sql, sig, "the result cannot be marshalled to JSON: %v", err)
	}
	var back any
	if err := json.Unmarshal(b, &back); err != nil {
		return fail("notplain", sql, sig, "the JSON form of the result cannot be read back: %v", err)
	}
	if out.Rows != nil && emptyAsNull(Canon(any(out.Rows))) != emptyAsNull(Canon(back)) {
		return fail("notplain", sql, sig, "JSON round trip changes the result: %s -> %s", Canon(any(out.Rows)), Canon(back))
	}
	v.Nontrivial = len(out.Rows) > 0
	// second and third evaluation on equal inputs (fresh documents, fresh queries)
	reps := 2
	totalOrder := q["k"] == "select" && len(seq(q["order"])) > 0 && !ties
	if ties {
		reps = 5 // an order that varies between evaluations shows in the tied rows only
	}
	if strings.HasPrefix(c["fam"].(string), "joinnull") || strings.HasPrefix(c["fam"].(string), "joinlimit") {
		reps = 8 // what NULL keys meet, or what a window keeps, may depend on map iteration order
	}
	for _, f := range sig {
		if f == "qual:async" || f == "qual:spinasync" {
			reps = 8 // goroutine interleavings differ from run to run
		}
	}
	for rep := 0; rep < reps; rep++ {
		doc2 := FromTagged(c["doc"]).(map[string]any)
		out2 := Run(doc2, sql, false)
		v.Execs++
		if out2.Err != nil || out2.Panic != nil {
			return fail("nondet", sql, sig, "the first evaluation succeeded, a repetition on an equal input: %s", out2.Describe())
		}
		// two real results: compared through their canonical renderings (numbers by value)
		// the identical sequence whenever ORDER BY determines a total order or no grouping / join is involved;
		// the equal multiset otherwise
		same := Canon(any(out2.Rows)) == Canon(any(out.Rows))
		if !same && !totalOrder && groupingOrJoin(q) {
			same = canonBag(out2.Rows) == canonBag(out.Rows)
		}
		if !same {
			return fail("nondet", sql, sig, "repetition on an equal input: first %s, then %s", Canon(any(out.Rows)), Canon(any(out2.Rows)))
		}
	}
	cut := false // a window that cuts through tied rows: which of them it keeps is not specified
	if ties && q["k"] == "select" {
		cut = num(q["limit"]) >= 0 || num(q["offset"]) >= 0
	}
	if strings.HasPrefix(c["fam"].(string), "joinnull") {
		cut = true // which rows a NULL / missing key joins is claimed nowhere
	}
	if strings.HasPrefix(c["fam"].(string), "joinlimit") {
		cut = true // which rows of a join a window without ORDER BY keeps is open
	}
	if !wantErr && !cut && c["res"].(Node)["t"] != "any" {
		ok := Equal(any(out.Rows), any(want))
		if ties {
			ok = BagEqual(out.Rows, want)
		}
		if !ok {
			v.Drift = fmt.Sprintf("value differs from the specification: want %s got %s", Canon(any(want)), Canon(any(out.Rows)))
		}
	}
	return v
}

// the engine returns nil slices for empty results, which JSON writes as null: "no rows"
// either way, so [] and null are not told apart by the round-trip comparison
func emptyAsNull(canon string) string {
	return strings.ReplaceAll(canon, "[]", "null")
}

func init() { Replay["C12"] = checkC12 }

func canonBag(rows []any) string {
	cs := make([]string, len(rows))
	for i, r := range rows {
		cs[i] = Canon(r)
	}
	sort.Strings(cs)
	return strings.Join(cs, "|")
}
