package h

import (
	"crypto/sha1"
	"encoding/hex"
	"encoding/json"
	"fmt"
	"sort"
)

// Verdict is the worker's answer for one case.
type Verdict struct {
	OK         bool     `json:"ok"`
	Kind       string   `json:"kind,omitempty"`   // result error panic crash stage docmut ...
	Detail     string   `json:"detail,omitempty"` // human-readable: want / got
	SQL        string   `json:"sql,omitempty"`
	Sig        []string `json:"sig,omitempty"`   // features of the case, for known-finding matching
	Nontrivial bool     `json:"nt,omitempty"`    // counts towards distinct_nontrivial
	Key        string   `json:"key,omitempty"`   // identity of the case (distinctness)
	Drift      string   `json:"drift,omitempty"` // stage-level disagreement while the API-level result conforms
	Execs      int      `json:"execs,omitempty"` // real executions performed for this case
	Case       any      `json:"case,omitempty"`  // echoed on failure (replay file content)
}

// CaseKey hashes a case for distinctness counting.
func CaseKey(c any) string {
	b, _ := json.Marshal(c) // map keys are sorted by encoding/json
	s := sha1.Sum(b)
	return hex.EncodeToString(s[:8])
}

func fail(kind, sql string, sig []string, format string, a ...any) Verdict {
	return Verdict{OK: false, Kind: kind, SQL: sql, Sig: sig, Detail: fmt.Sprintf(format, a...)}
}

// Features walks a query AST and returns the set of construct names in it;
// known findings are matched on these (plus check-specific tags).
func Features(q Node) []string {
	set := map[string]bool{}
	var walk func(v any)
	walk = func(v any) {
		switch x := v.(type) {
		case []any:
			for _, e := range x {
				walk(e)
			}
		case map[string]any:
			if k, ok := x["k"].(string); ok {
				name := k
				switch k {
				case "cmp", "bin", "un", "is":
					name = k + ":" + x["op"].(string)
				case "in", "like", "between":
					if b, _ := x["neg"].(bool); b {
						name = "not" + k
					}
				case "agg", "fn":
					name = k + ":" + x["f"].(string)
					if q, _ := x["qual"].(string); q != "" {
						set["qual:"+q] = true
					}
				case "join":
					name = "join:" + x["type"].(string)
					if kw, _ := x["kw"].(string); kw != "" {
						set["joinkw:"+kw] = true
					}
				case "select":
					name = ""
					if d, _ := x["distinct"].(bool); d {
						set["distinct"] = true
					}
					if len(seq(x["group"])) > 0 {
						set["groupby"] = true
					}
					if len(seq(x["order"])) > 0 {
						set["orderby"] = true
					}
					if len(seq(x["with"])) > 0 {
						set["with"] = true
					}
					if num(x["limit"]) >= 0 {
						set["limit"] = true
					}
					if num(x["offset"]) >= 0 {
						set["offset"] = true
					}
				case "lit":
					name = ""
				}
				if name != "" {
					set[name] = true
				}
			}
			for _, e := range x {
				walk(e)
			}
		}
	}
	walk(q)
	out := make([]string, 0, len(set))
	for k := range set {
		out = append(out, k)
	}
	sort.Strings(out)
	return out
}
