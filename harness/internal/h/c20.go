package h

import (
	"encoding/json"
	"fmt"
	"io"
	"sync"

	"github.com/vedadiyan/genql"
)

func varsQuery(q Node) Node {
	out := With(BaseQ(), "sel", q["sel"])
	if l, ok := q["lim"]; ok && num(l) >= 0 {
		out["limit"] = int(num(l))
	}
	return out
}

// C20: a history of queries sharing one variable map; rows and the caller's map
// are compared after every query.
func checkC20(c Node) Verdict {
	prog := seq(c["prog"])
	vars := FromTagged(c["vars0"]).(map[string]any)
	results := seq(c["results"])
	sqls := ""
	sig := []string{"vars"}
	if len(prog) > 1 {
		sig = append(sig, "history")
	}
	v := Verdict{OK: true, Sig: sig, Nontrivial: num(c["ncalls"]) >= 2}
	for i, qn := range prog {
		qn := qn.(Node)
		sql := Style{}.Query(varsQuery(qn))
		sqls += sql + " ; "
		v.SQL = sqls
		doc := map[string]any{"t": FromTagged(qn["tbl"])}
		out := Run(doc, sql, false, Opts(nil, vars, nil)...)
		v.Execs++
		want := results[i].(Node)
		if out.Panic != nil || out.Err != nil {
			return fail("error", sqls, sig, "query %d: %s", i+1, out.Describe())
		}
		if wr := FromTagged(want["rows"]); !Equal(any(out.Rows), wr) {
			return fail("result", sqls, sig, "query %d rows: want %s got %s", i+1, Canon(wr), Canon(any(out.Rows)))
		}
		if wv := FromTagged(want["vars"]); !Equal(any(vars), wv) {
			return fail("vars", sqls, sig, "caller's variable map after query %d: want %s got %s", i+1, Canon(wv), Canon(any(vars)))
		}
	}
	// the names of the registers are the caller's business: the same history with k1 / k2 renamed to numbers (written
	// as numeric constants) whose %v text is in exponent form - SETVAR, GETVAR and the caller's map have to agree on
	// one spelling of such a name
	// - and to two names that differ in the case of a letter only: two registers
	for _, naming := range []struct {
		tag              string
		keyName, keyText map[string]string
		str              bool
	}{
		{"numeric-names", map[string]string{"k1": "1e+06", "k2": "1e-05"}, map[string]string{"k1": "1000000", "k2": "0.00001"}, false},
		{"case-names", map[string]string{"k1": "n", "k2": "N"}, map[string]string{"k1": "n", "k2": "N"}, true},
	} {
		keyName, keyText := naming.keyName, naming.keyText
		renameMap := func(m any) map[string]any {
			out := map[string]any{}
			for k, x := range m.(map[string]any) {
				if n, ok := keyName[k]; ok {
					k = n
				}
				out[k] = x
			}
			return out
		}
		var renameKeys func(v any) any
		renameKeys = func(v any) any {
			switch t := v.(type) {
			case map[string]any:
				out := Node{}
				for k, x := range t {
					out[k] = renameKeys(x)
				}
				if f, _ := t["f"].(string); t["k"] == "fn" && (f == "setvar" || f == "getvar") {
					args := append([]any{}, seq(out["args"])...)
					if lit, ok := args[0].(Node); ok && lit["k"] == "lit" {
						if txt, ok := keyText[CodePoints(lit["v"].(Node)["c"])]; ok {
							args[0] = Lit(Node{"t": "num", "n": float64(1), "d": float64(1), "raw": txt})
							if naming.str {
								args[0] = Lit(TStr(txt))
							}
							out["args"] = args
						}
					}
				}
				return out
			case []any:
				out := make([]any, len(t))
				for i, x := range t {
					out[i] = renameKeys(x)
				}
				return out
			}
			return v
		}
		vars2 := renameMap(FromTagged(c["vars0"]))
		rsig := append(append([]string{}, sig...), naming.tag)
		sqls2 := ""
		for i, qn := range prog {
			qn := qn.(Node)
			sql := Style{}.Query(renameKeys(varsQuery(qn)).(Node))
			sqls2 += sql + " ; "
			out := Run(map[string]any{"t": FromTagged(qn["tbl"])}, sql, false, Opts(nil, vars2, nil)...)
			v.Execs++
			want := results[i].(Node)
			if out.Panic != nil || out.Err != nil {
				return fail("error", sqls2, rsig, "query %d: %s", i+1, out.Describe())
			}
			if wr := FromTagged(want["rows"]); !Equal(any(out.Rows), wr) {
				return fail("result", sqls2, rsig, "query %d rows: want %s got %s", i+1, Canon(wr), Canon(any(out.Rows)))
			}
			if wv := renameMap(FromTagged(want["vars"])); !Equal(any(vars2), any(wv)) {
				return fail("vars", sqls2, rsig, "caller's variable map after query %d: want %s got %s", i+1, Canon(any(wv)), Canon(any(vars2)))
			}
		}
	}
	// the same single statement with an ORDER BY on a source column that is not projected (whose order is the reverse
	// of the source order): evaluation order is still source order - the map ends up the same, the rows are the same rows
	if len(prog) == 1 && num(prog[0].(Node)["lim"]) < 0 {
		qn := prog[0].(Node)
		vars2 := FromTagged(c["vars0"]).(map[string]any)
		rows := FromTagged(qn["tbl"]).([]any)
		for i, r := range rows {
			r.(map[string]any)["zz"] = float64(-i)
		}
		sql := Style{}.Query(varsQuery(qn)) + " ORDER BY zz"
		out := Run(map[string]any{"t": rows}, sql, false, Opts(nil, vars2, nil)...)
		v.Execs++
		want := results[0].(Node)
		osig := append(append([]string{}, sig...), "orderby-unprojected")
		if out.Panic != nil || out.Err != nil {
			return fail("error", sql, osig, "%s", out.Describe())
		}
		if wr, _ := FromTagged(want["rows"]).([]any); canonBag(out.Rows) != canonBag(wr) {
			return fail("result", sql, osig, "rows (as a multiset): want %s got %s", Canon(any(wr)), Canon(any(out.Rows)))
		}
		if wv := FromTagged(want["vars"]); !Equal(any(vars2), wv) {
			return fail("vars", sql, osig, "caller's variable map: want %s got %s", Canon(wv), Canon(any(vars2)))
		}
	}
	return v
}

// ---- Leg T: wrappers around the real SETVAR / GETVAR log one event per call -----------

var (
	varsLogMu sync.Mutex
	varsLog   func(Node)
)

func installVarsWrappers() {
	genql.RegisterImmediateFunction("setvar", func(q *genql.Query, cur genql.Map, fo *genql.FunctionOptions, args []any) (any, error) {
		rs, err := genql.SetVarFunc(q, cur, fo, args)
		varsLogMu.Lock()
		if varsLog != nil && len(args) == 2 {
			varsLog(Node{"ev": "set", "key": fmt.Sprint(args[0]), "val": ToTagged(args[1]), "ok": err == nil})
		}
		varsLogMu.Unlock()
		return rs, err
	})
	genql.RegisterImmediateFunction("getvar", func(q *genql.Query, cur genql.Map, fo *genql.FunctionOptions, args []any) (any, error) {
		rs, err := genql.GetVarFunc(q, cur, fo, args)
		varsLogMu.Lock()
		if varsLog != nil && len(args) == 1 {
			varsLog(Node{"ev": "get", "key": fmt.Sprint(args[0]), "val": ToTagged(rs), "ok": err == nil})
		}
		varsLogMu.Unlock()
		return rs, err
	})
}

func vItem(kind string, kv ...any) Node {
	n := Node{"k": kind}
	for i := 0; i+1 < len(kv); i += 2 {
		n[kv[i].(string)] = kv[i+1]
	}
	return n
}

// abstract item -> select-item AST (same shapes as MC_C20!ItemAst)
func itemAst(it Node) Node {
	keyLit := func(k string) Node { return Lit(TStr(k)) }
	get := func(k string) Node { return Node{"k": "fn", "f": "getvar", "args": []any{keyLit(k)}} }
	switch it["k"] {
	case "set":
		v := it["v"].(Node)
		var val Node
		switch v["k"] {
		case "col":
			val = Col(v["c"].(string))
		case "lit":
			val = Lit(v["v"].(Node))
		default:
			val = Bin("+", get(v["key"].(string)), Col(v["c"].(string)))
		}
		return Item(Node{"k": "fn", "f": "setvar", "args": []any{keyLit(it["key"].(string)), val}}, "")
	case "get":
		return Item(get(it["key"].(string)), it["as"].(string))
	}
	return Item(Col(it["c"].(string)), "")
}

func recordVars(w io.Writer, prog []Node, vars0 Node) (events int, sqls []string) {
	enc := json.NewEncoder(w)
	vars := FromTagged(vars0).(map[string]any)
	enc.Encode(Node{"ev": "start", "prog": prog, "vars0": vars0["f"]})
	events++
	for _, qn := range prog {
		sel := []any{}
		for _, it := range seq(qn["sel"]) {
			sel = append(sel, itemAst(it.(Node)))
		}
		tq := With(BaseQ(), "sel", sel)
		if l, ok := qn["lim"]; ok && num(l) >= 0 {
			tq["limit"] = int(num(l))
		}
		sql := Style{}.Query(tq)
		sqls = append(sqls, sql)
		doc := map[string]any{"t": FromTagged(Node{"t": "arr", "e": qn["tbl"]})}
		varsLogMu.Lock()
		varsLog = func(e Node) { enc.Encode(e); events++ }
		varsLogMu.Unlock()
		out := Run(doc, sql, false, Opts(nil, vars, nil)...)
		varsLogMu.Lock()
		varsLog = nil
		varsLogMu.Unlock()
		if out.Err != nil || out.Panic != nil {
			enc.Encode(Node{"ev": "ret", "ok": false, "rows": []any{}, "vars": Node{}})
		} else {
			enc.Encode(Node{"ev": "ret", "ok": true, "rows": ToTagged(any(out.Rows)).(Node)["e"], "vars": ToTagged(any(vars)).(Node)["f"]})
		}
		events++
	}
	return
}

func init() {
	Replay["C20"] = checkC20
	Retrace["C20"] = func(c Node, w io.Writer) {
		installVarsWrappers()
		evs := seq(c["trace"])
		if len(evs) == 0 {
			return
		}
		st := evs[0].(Node)
		prog := []Node{}
		for _, q := range seq(st["prog"]) {
			prog = append(prog, q.(Node))
		}
		f, _ := st["vars0"].(Node)
		if f == nil {
			f = Node{}
		}
		recordVars(w, prog, Node{"t": "obj", "f": f})
	}
	TraceGen["C20"] = func(seed int64, n int, tier string, w io.Writer) TraceInfo {
		installVarsWrappers()
		g := NewGen(seed)
		info := TraceInfo{}
		keys := []string{"k1", "k2", "k3"}
		for i := 0; i < n; i++ {
			vars0 := Node{}
			if g.R.Intn(2) == 0 {
				vars0[g.Str(keys)] = TInt(g.R.Intn(20))
			}
			prog := []Node{}
			for qn := 0; qn < 1+g.R.Intn(4); qn++ {
				sel := []any{}
				aliases := []string{"g", "h", "i", "j"}
				for k := 0; k < 1+g.R.Intn(6); k++ {
					switch g.R.Intn(5) {
					case 0:
						sel = append(sel, vItem("col", "c", g.Pick("a", "b").(string)))
					case 1, 2:
						sel = append(sel, vItem("get", "key", g.Str(keys), "as", aliases[g.R.Intn(len(aliases))]))
					default:
						var val Node
						switch g.R.Intn(3) {
						case 0:
							val = vItem("col", "c", g.Pick("a", "b").(string))
						case 1:
							val = vItem("lit", "v", TInt(g.R.Intn(9)))
						default:
							val = vItem("addvar", "key", g.Str(keys), "c", g.Pick("a", "b").(string))
						}
						sel = append(sel, vItem("set", "key", g.Str(keys), "v", val))
					}
				}
				rows := make([]any, g.R.Intn(7))
				for j := range rows {
					rows[j] = TObj(Node{"a": TInt(g.R.Intn(10)), "b": normNum(TNum(g.R.Intn(9), 2))})
				}
				lim := -1
				if g.R.Intn(3) == 0 {
					lim = g.R.Intn(5)
				}
				prog = append(prog, Node{"sel": sel, "tbl": rows, "lim": lim})
			}
			ev, sqls := recordVars(w, prog, Node{"t": "obj", "f": vars0})
			info.Queries++
			info.Events += ev
			if len(info.Samples) < 3 {
				info.Samples = append(info.Samples, sqls[0])
			}
		}
		return info
	}
}
