package h

import (
	"fmt"
	"hash/fnv"
	"math/rand"
	"strings"

	"github.com/vedadiyan/genql"
)

// SelectorText renders a selector AST (spec/Selector.tla) in the documented syntax.
func SelectorText(sel []any) string {
	segs := []string{}
	for _, sg := range sel {
		sg := sg.(Node)
		var b strings.Builder
		if fn, _ := sg["fn"].(string); fn != "" {
			b.WriteString(fn + "=>")
		}
		first := true
		for _, st := range seq(sg["steps"]) {
			st := st.(Node)
			switch st["k"] {
			case "key":
				if !first {
					b.WriteByte('.')
				}
				name := st["name"].(string)
				if plainIdent.MatchString(name) {
					b.WriteString(name)
				} else {
					b.WriteString("'" + name + "'")
				}
			case "idx":
				b.WriteByte('[')
				if k, _ := st["keep"].(bool); k {
					b.WriteString("keep=>")
				}
				for i, d := range seq(st["dims"]) {
					d := d.(Node)
					if i > 0 {
						b.WriteByte(':')
					}
					switch d["k"] {
					case "each":
						b.WriteString("each")
					case "at":
						fmt.Fprintf(&b, "%d", int(num(d["i"])))
					case "range":
						lo, hi := "begin", "end"
						if v := int(num(d["lo"])); v >= 0 {
							lo = fmt.Sprint(v)
						}
						if v := int(num(d["hi"])); v >= 0 {
							hi = fmt.Sprint(v)
						}
						b.WriteString("(" + lo + ":" + hi + ")")
					}
				}
				b.WriteByte(']')
			case "pipe":
				b.WriteByte('{')
				for i, it := range seq(st["items"]) {
					it := it.(Node)
					if i > 0 {
						b.WriteString(", ")
					}
					b.WriteString(it["key"].(string))
					if ty, _ := it["ty"].(string); ty != "" {
						b.WriteString("|" + ty)
					}
				}
				b.WriteByte('}')
			}
			first = false
		}
		segs = append(segs, b.String())
	}
	return strings.Join(segs, "::")
}

func selFeatures(sel []any) []string {
	set := map[string]bool{}
	for _, sg := range sel {
		sg := sg.(Node)
		if fn, _ := sg["fn"].(string); fn != "" {
			set["fn:"+fn] = true
		}
		for _, st := range seq(sg["steps"]) {
			st := st.(Node)
			set["step:"+st["k"].(string)] = true
			if k, _ := st["keep"].(bool); k {
				set["keep"] = true
			}
			for _, d := range seq(st["dims"]) {
				set["dim:"+d.(Node)["k"].(string)] = true
			}
		}
	}
	if len(sel) > 1 {
		set["continue"] = true
	}
	out := []string{}
	for k := range set {
		out = append(out, k)
	}
	return out
}

func execReader(doc any, text string) (v any, err error, pan any) {
	defer func() { pan = recover() }()
	v, err = genql.ExecReader(doc, text)
	return
}

var selAlphabet = []byte("[](){}':|=>.<-*, aeh01\\\"`\x00")

// C09: ExecReader on a fresh copy of the document; value / error equality, no panic, the
// document untouched; plus byte-level mutations of the selector text (no panic, document
// untouched - their meaning is not claimed).
var freshCounter int

// freshen renames every key of the confusable family apart (same suffix in the document
// and in both selectors), so that no text of this case is in the library's cache yet.
func freshen(v any, suffix string, names map[string]bool) any {
	switch x := v.(type) {
	case []any:
		out := make([]any, len(x))
		for i, e := range x {
			out[i] = freshen(e, suffix, names)
		}
		return out
	case map[string]any:
		out := map[string]any{}
		for k, e := range x {
			nk := k
			if names[k] {
				nk = k + suffix
			}
			if k == "name" {
				if sname, ok := e.(string); ok && names[sname] {
					out[k] = sname + suffix
					continue
				}
			}
			out[nk] = freshen(e, suffix, names)
		}
		return out
	}
	return v
}

var confusable = map[string]bool{"cd": true, "c d": true, "CD": true, "c  d": true, "cd_": true}

func quotedSelectorText(sel []any) string {
	// every key quoted
	parts := []string{}
	for _, sg := range sel {
		ks := []string{}
		for _, st := range seq(sg.(Node)["steps"]) {
			ks = append(ks, "'"+st.(Node)["name"].(string)+"'")
		}
		parts = append(parts, strings.Join(ks, "."))
	}
	return strings.Join(parts, "::")
}

// a history of two selectors evaluated in this order in one process
func checkC09History(c Node) Verdict {
	freshCounter++
	suffix := fmt.Sprintf("%dx%d", Seed%1000, freshCounter)
	fc := freshen(any(c), suffix, confusable).(map[string]any)
	doc := FromTagged(fc["doc"])
	pristine := DeepCopy(doc)
	t1, t2 := quotedSelectorText(seq(fc["before"])), quotedSelectorText(seq(fc["sel"]))
	sig := []string{"history", "step:key"}
	desc := fmt.Sprintf("ExecReader(doc, %q) ; ExecReader(doc, %q)", t1, t2)
	v := Verdict{OK: true, SQL: desc, Sig: sig, Execs: 2, Nontrivial: t1 != t2}
	for i, tx := range []string{t1, t2} {
		want := FromTagged([]any{fc["resbefore"], fc["res"]}[i])
		got, err, pan := execReader(doc, tx)
		if pan != nil {
			return fail("panic", desc, sig, "panic: %v", pan)
		}
		if err != nil || !Equal(got, want) {
			return fail("result", desc, sig, "selector %d of the history: want %s got %s (err %v)", i+1, Canon(want), Canon(got), err)
		}
	}
	if !Equal(doc, pristine) {
		return fail("docmut", desc, sig, "the document was modified")
	}
	return v
}

// the same selector text on two documents in a row: the second result must not remember the first
func checkC09Repeat(c Node) Verdict {
	freshCounter++
	// a text this process has not evaluated yet: the leading key is renamed apart in both documents
	suffix := fmt.Sprintf("r%dx%d", Seed%1000, freshCounter)
	fc := freshen(any(c), suffix, map[string]bool{"a": true}).(map[string]any)
	text := SelectorText(seq(fc["sel"]))
	sig := append(selFeatures(seq(fc["sel"])), "same-text-other-document")
	desc := fmt.Sprintf("ExecReader(doc1, %q) ; ExecReader(doc2, %q)", text, text)
	v := Verdict{OK: true, SQL: desc, Sig: sig, Execs: 2, Nontrivial: true}
	for i, pair := range [][2]any{{fc["docbefore"], fc["resdocbefore"]}, {fc["doc"], fc["res"]}} {
		doc := FromTagged(pair[0])
		pristine := DeepCopy(doc)
		want := pair[1].(Node)
		got, err, pan := execReader(doc, text)
		if pan != nil {
			return fail("panic", desc, sig, "panic: %v", pan)
		}
		switch want["t"] {
		case "any":
		case "err":
			if err == nil {
				return fail("noerror", desc, sig, "document %d: specification: error; got %s", i+1, Canon(got))
			}
		default:
			if err != nil || !Equal(got, FromTagged(want)) {
				return fail("result", desc, sig, "document %d: want %s got %s (err %v)", i+1, Canon(FromTagged(want)), Canon(got), err)
			}
		}
		if !Equal(doc, pristine) {
			return fail("docmut", desc, sig, "document %d was modified", i+1)
		}
	}
	return v
}

func checkC09(c Node) Verdict {
	if b, ok := c["before"].([]any); ok && len(b) > 0 {
		return checkC09History(c)
	}
	if d, ok := c["docbefore"].(Node); ok && d["t"] == "obj" {
		return checkC09Repeat(c)
	}
	sel := seq(c["sel"])
	text := SelectorText(sel)
	sig := selFeatures(sel)
	doc := FromTagged(c["doc"])
	pristine := DeepCopy(doc)
	res := c["res"].(Node)
	wantErr := res["t"] == "err"
	v := Verdict{OK: true, SQL: "ExecReader(doc, " + fmt.Sprintf("%q", text) + ")", Sig: sig, Execs: 1}
	got, err, pan := execReader(doc, text)
	if pan != nil {
		return fail("panic", v.SQL, sig, "panic: %v", pan)
	}
	if !Equal(doc, pristine) {
		return fail("docmut", v.SQL, sig, "the document was modified: %s", Canon(doc))
	}
	if res["t"] == "any" {
		// the documented grammar leaves this result open (%v text of a container, mix=> of an object)
		v.Sig = append(v.Sig, "unspecified")
	} else if wantErr {
		if err == nil {
			return fail("noerror", v.SQL, sig, "specification: error; ExecReader returned %s", Canon(got))
		}
	} else {
		want := FromTagged(res)
		if err != nil {
			return fail("error", v.SQL, sig, "specification: %s; ExecReader returned error: %v", Canon(want), err)
		}
		if !Equal(got, want) {
			return fail("result", v.SQL, sig, "want %s got %s", Canon(want), Canon(got))
		}
		v.Nontrivial = want != nil
	}
	// a second evaluation of the same text (the library keeps parsed selectors by text): the same answer
	got2, err2, pan2 := execReader(doc, text)
	v.Execs++
	if pan2 != nil {
		return fail("panic", v.SQL, append(sig, "again"), "second evaluation: panic: %v", pan2)
	}
	if (err == nil) != (err2 == nil) || (err == nil && !Equal(got2, got)) {
		return fail("result", v.SQL, append(sig, "again"), "first evaluation: %s (err %v); second: %s (err %v)", Canon(got), err, Canon(got2), err2)
	}
	// ... also when a continuation that cannot be parsed follows (an index no array has): an error, every time
	bad := text + "::zz[99999999999999999999]"
	for i := 0; i < 2; i++ {
		g, e, p := execReader(doc, bad)
		v.Execs++
		if p != nil {
			return fail("panic", "ExecReader(doc, "+fmt.Sprintf("%q", bad)+")", append(sig, "again"), "evaluation %d: panic: %v", i+1, p)
		}
		if e == nil {
			return fail("noerror", "ExecReader(doc, "+fmt.Sprintf("%q", bad)+")", append(sig, "again"), "evaluation %d of a selector whose last step indexes beyond any array returned %s", i+1, Canon(g))
		}
	}
	// indices and range bounds no Go int holds, directly on the case's value (an array in most documents): outside any
	// array, so an error - never a value, never a panic
	for _, idx := range []string{"[18446744073709551615]", "[9223372036854775808]", "[(9223372036854775808:2)]", "[(0:18446744073709551615)]",
		"[each:18446744073709551615]", "[keep=>9223372036854775808]", "[18446744073709551616]", "[(18446744073709551615:end)]"} {
		t := "a" + idx
		g, e, p := execReader(doc, t)
		v.Execs++
		if p != nil {
			return fail("panic", "ExecReader(doc, "+fmt.Sprintf("%q", t)+")", append(sig, "hugeindex"), "panic: %v", p)
		}
		if e == nil {
			return fail("noerror", "ExecReader(doc, "+fmt.Sprintf("%q", t)+")", append(sig, "hugeindex"), "an index beyond any array returned %s", Canon(g))
		}
	}
	if !Equal(doc, pristine) {
		return fail("docmut", v.SQL, sig, "the document was modified: %s", Canon(doc))
	}
	// the same selector as a FROM path of a query (New evaluates it outside exec's recover)
	if !wantErr && res["t"] != "any" {
		if want, ok := FromTagged(res).([]any); ok {
			allObj := true
			for _, e := range want {
				if _, ok := e.(map[string]any); !ok {
					allObj = false
				}
			}
			if allObj && !strings.Contains(text, "`") {
				out := Run(DeepCopy(doc).(map[string]any), "SELECT * FROM `"+text+"`", false)
				v.Execs++
				if out.Panic != nil || out.Err != nil || !Equal(any(out.Rows), any(want)) {
					return fail("result", "SELECT * FROM `"+text+"`", append(sig, "frompath"), "want %s got %s", Canon(any(want)), out.Describe())
				}
			}
		}
	}
	// mutations
	h := fnv.New64a()
	h.Write([]byte(text))
	r := rand.New(rand.NewSource(int64(h.Sum64()) ^ Seed))
	for k := 0; k < 2; k++ {
		m := []byte(text)
		for n := 0; n <= r.Intn(3); n++ {
			switch r.Intn(4) {
			case 0:
				if len(m) > 0 {
					i := r.Intn(len(m))
					m = append(m[:i], m[i+1:]...)
				}
			case 1:
				i := r.Intn(len(m) + 1)
				m = append(m[:i], append([]byte{selAlphabet[r.Intn(len(selAlphabet))]}, m[i:]...)...)
			case 2:
				if len(m) > 0 {
					m[r.Intn(len(m))] = selAlphabet[r.Intn(len(selAlphabet))]
				}
			default:
				if len(m) > 1 {
					i, j := r.Intn(len(m)), r.Intn(len(m))
					m[i], m[j] = m[j], m[i]
				}
			}
		}
		_, _, pan := execReader(doc, string(m))
		v.Execs++
		if pan != nil {
			return fail("panic", fmt.Sprintf("ExecReader(doc, %q)", string(m)), append(sig, "mutated"), "panic on a mutated selector: %v", pan)
		}
		if !Equal(doc, pristine) {
			return fail("docmut", fmt.Sprintf("ExecReader(doc, %q)", string(m)), append(sig, "mutated"), "the document was modified: %s", Canon(doc))
		}
	}
	return v
}

func init() { Replay["C09"] = checkC09 }
