package h

import (
	"fmt"
)

// EngineOpts tunes the generic replay of an Engine.tla behaviour.
type EngineOpts struct {
	Bag      bool     // the property fixes the result only as a multiset
	Repeats  int      // run the case this many times in fresh queries (order stability)
	Options  []string // genql options (wrapped, pg, arr)
	Style    Style
	Extra    []string // extra signature tags
	NoReExec bool     // the queries of this family have side effects (variables, harness-owned functions): one Exec only
}

// ExpectedRows decodes the `res` of an exported case: rows, or wantErr.
func ExpectedRows(c Node) (rows []any, wantErr bool) {
	res := c["res"].(Node)
	if res["t"] == "err" {
		return nil, true
	}
	v := FromTagged(res)
	if v == nil {
		return []any{}, false
	}
	return v.([]any), false
}

// OrderKeys returns the ORDER BY key paths of a select query.
func OrderKeys(q Node) [][]string {
	out := [][]string{}
	for _, o := range seq(q["order"]) {
		out = append(out, strs(o.(Node)["key"]))
	}
	return out
}

func pathGet(v any, p []string) any {
	for _, s := range p {
		m, ok := v.(map[string]any)
		if !ok {
			return nil
		}
		v = m[s]
	}
	return v
}

// sameKeySeq: both sequences have pairwise equal ORDER BY key tuples.
func sameKeySeq(got, want []any, keys [][]string) bool {
	if len(got) != len(want) {
		return false
	}
	for i := range got {
		for _, k := range keys {
			if !Equal(pathGet(got[i], k), pathGet(want[i], k)) {
				return false
			}
		}
	}
	return true
}

func withoutWindow(q Node) Node {
	c := Node{}
	for k, v := range q {
		c[k] = v
	}
	c["limit"], c["offset"] = float64(-1), float64(-1)
	return c
}

func hasWindow(q Node) bool {
	return num(q["limit"]) >= 0 || num(q["offset"]) >= 0
}

func window(s []any, off, lim int) []any {
	if off < 0 {
		off = 0
	}
	if lim < 0 {
		lim = len(s)
	}
	if off >= len(s) {
		return []any{}
	}
	end := off + lim
	if end > len(s) {
		end = len(s)
	}
	return s[off:end]
}

// CheckEngine replays one exported behaviour of Engine.tla against the real
// library and compares what the property fixes.
func CheckEngine(c Node, o EngineOpts) Verdict {
	q := c["q"].(Node)
	sql := o.Style.Query(q)
	sig := append(Features(q), o.Extra...)
	want, wantErr := ExpectedRows(c)
	ties, _ := c["ties"].(bool)
	keys := OrderKeys(q)
	reps := o.Repeats
	if reps < 1 {
		reps = 1
	}
	v := Verdict{OK: true, SQL: sql, Sig: sig}
	// one more pass with the caller's tables as typed Go slices ([]map[string]any instead of []any): the same document
	// to every reader of the statement, another Go type to the engine (which converts such tables when it builds the query)
	typedPass := reps
	// ... and one with equal parts of the document being one and the same Go object (a document built in Go may hold a
	// slice or a map in several places; the specification's values have no identity, so nothing may depend on it)
	for rep := 0; rep <= typedPass+1; rep++ {
		doc := FromTagged(c["doc"]).(map[string]any)
		if rep == typedPass {
			if wantErr || !TypedTables(doc) {
				continue
			}
			sig = append(append([]string{}, sig...), "typed-tables")
		}
		if rep == typedPass+1 {
			if wantErr || !ShareEqualParts(doc) {
				break
			}
			sig = append(append([]string{}, sig[:len(sig):len(sig)]...), "shared-parts")
		}
		ReExec = !o.NoReExec
		out := Run(doc, sql, rep == 0, Opts(o.Options, nil, nil)...)
		ReExec = false
		v.Execs++
		if out.Panic != nil {
			return fail("panic", sql, sig, "panic escaped the API: %v", out.Panic)
		}
		if out.Again {
			// the same Query object executed once more: the same answer (as a multiset where the order is open)
			v.Execs++
			same := out.Panic2 == nil && out.Err2 == nil && (Canon(any(out.Rows2)) == Canon(any(out.Rows)) || ((o.Bag || ties || groupingOrJoin(q)) && canonBag(out.Rows2) == canonBag(out.Rows)))
			if !same {
				second := Canon(any(out.Rows2))
				if out.Panic2 != nil {
					second = fmt.Sprintf("PANIC %v", out.Panic2)
				} else if out.Err2 != nil {
					second = fmt.Sprintf("ERROR %v", out.Err2)
				}
				return fail("reexec", sql, append(sig, "reexec"), "the same Query executed twice: first %s, then %s", Canon(any(out.Rows)), second)
			}
		}
		if wantErr {
			if out.Err == nil {
				return fail("noerror", sql, sig, "specification: error; engine returned %s", Canon(any(out.Rows)))
			}
			continue
		}
		if out.Err != nil {
			return fail("error", sql, sig, "specification: %s; engine returned error: %v", Canon(any(want)), out.Err)
		}
		switch {
		case o.Bag:
			if !BagEqual(out.Rows, want) {
				return fail("result", sql, sig, "as multisets: want %s got %s", Canon(any(want)), Canon(any(out.Rows)))
			}
		case ties:
			// ORDER BY leaves the order of tied rows open: the key-tuple sequence is fixed; the
			// windowed result must be exactly the window of the engine's own un-windowed sequence
			if !sameKeySeq(out.Rows, want, keys) {
				return fail("result", sql, sig, "key sequence: want %s got %s", Canon(any(want)), Canon(any(out.Rows)))
			}
			if hasWindow(q) {
				doc2 := FromTagged(c["doc"]).(map[string]any)
				full := Run(doc2, o.Style.Query(withoutWindow(q)), false, Opts(o.Options, nil, nil)...)
				v.Execs++
				if full.Err != nil || full.Panic != nil {
					return fail("error", sql, sig, "un-windowed run failed: %s", full.Describe())
				}
				exp := window(full.Rows, int(num(q["offset"])), int(num(q["limit"])))
				if !Equal(any(out.Rows), any(exp)) {
					return fail("result", sql, sig, "window of the ordered sequence: want %s got %s", Canon(any(exp)), Canon(any(out.Rows)))
				}
			} else if !BagEqual(out.Rows, want) {
				return fail("result", sql, sig, "as multisets: want %s got %s", Canon(any(want)), Canon(any(out.Rows)))
			}
		default:
			if !Equal(any(out.Rows), any(want)) {
				return fail("result", sql, sig, "want %s got %s", Canon(any(want)), Canon(any(out.Rows)))
			}
		}
		if rep == 0 {
			v.Drift = stageDrift(c, out, ties || o.Bag)
		}
	}
	return v
}

// stageDrift compares the hook events of the top-level query with the stages
// of the exported behaviour. It never produces a violation by itself.
func stageDrift(c Node, out Outcome, unordered bool) string {
	for _, hst := range seq(c["hist"]) {
		hst := hst.(Node)
		st := hst["st"].(string)
		if st == "ret" || st == "union" || st == "cte" || st == "dual" {
			continue
		}
		if e, _ := hst["err"].(bool); e {
			continue
		}
		got, ok := out.TopStage(st)
		if !ok {
			return fmt.Sprintf("stage %q: no hook event", st)
		}
		want := FromTagged(Node{"t": "arr", "e": hst["rows"]})
		g := FromTagged(StripMarkers(got))
		if unordered && (st == "order" || st == "window" || st == "from" || st == "where" || st == "group" || st == "select" || st == "distinct") {
			gs, _ := g.([]any)
			if !BagEqual(gs, want.([]any)) && st != "window" {
				return fmt.Sprintf("stage %q: want %s got %s", st, Canon(want), Canon(g))
			}
			continue
		}
		if !Equal(g, want) {
			return fmt.Sprintf("stage %q: want %s got %s", st, Canon(want), Canon(g))
		}
	}
	return ""
}

// TypedTables turns every top-level table of the document that consists of objects only into a []map[string]any
// (in place); false if there was none.
func TypedTables(doc map[string]any) bool {
	any_ := false
	for k, v := range doc {
		rows, ok := v.([]any)
		if !ok || len(rows) == 0 {
			continue
		}
		typed := make([]map[string]any, 0, len(rows))
		for _, r := range rows {
			m, ok := r.(map[string]any)
			if !ok {
				typed = nil
				break
			}
			typed = append(typed, m)
		}
		if typed != nil {
			doc[k] = typed
			any_ = true
		}
	}
	return any_
}

// ShareEqualParts rebuilds the document so that equal non-empty arrays and objects below the top-level tables are one
// and the same Go value wherever they occur; false when nothing occurs twice.
func ShareEqualParts(doc map[string]any) bool {
	pool := map[string]any{}
	shared := false
	var intern func(v any, depth int) any
	intern = func(v any, depth int) any {
		switch t := v.(type) {
		case []any:
			for i := range t {
				t[i] = intern(t[i], depth+1)
			}
			if len(t) == 0 || depth < 1 {
				return t
			}
			key := "a" + Canon(any(t))
			if p, ok := pool[key]; ok {
				shared = true
				return p
			}
			pool[key] = t
		case map[string]any:
			for k := range t {
				t[k] = intern(t[k], depth+1)
			}
			if len(t) == 0 || depth < 1 {
				return t
			}
			key := "o" + Canon(any(t))
			if p, ok := pool[key]; ok {
				shared = true
				return p
			}
			pool[key] = t
		}
		return v
	}
	for k, v := range doc {
		doc[k] = intern(v, 0)
	}
	return shared
}
