package h

import (
	"fmt"
	"math"
	"math/big"
	"strconv"
)

// C02 beyond TLC's integers. Values.tla / Genql.tla give arithmetic its meaning over the rationals (Arith: + - * / exact,
// % as a - b * trunc(a / b)); TLC evaluates that on numerators and denominators below 2^31. This driver evaluates the
// very same definitions with math/big on operands TLC cannot hold (dividends beyond 2^53, divisors that are no dyadic
// fractions, neighbours in the last place) and compares with what the engine computes: + - * / must give the float64
// nearest to the exact value (the engine's numbers are float64), % - whose exact value is always representable - the
// exact value.
func bigArith(op string, x, y float64) (*big.Rat, bool) {
	a, b := new(big.Rat).SetFloat64(x), new(big.Rat).SetFloat64(y)
	switch op {
	case "+":
		return a.Add(a, b), true
	case "-":
		return a.Sub(a, b), true
	case "*":
		return a.Mul(a, b), true
	case "/":
		if b.Sign() == 0 {
			return nil, false
		}
		return a.Quo(a, b), true
	case "%":
		if b.Sign() == 0 {
			return nil, false
		}
		q := new(big.Rat).Quo(a, b)
		t := new(big.Int).Quo(q.Num(), q.Denom()) // truncates toward zero
		return a.Sub(a, new(big.Rat).Mul(b, new(big.Rat).SetInt(t))), true
	}
	return nil, false
}

var bigPairs = [][2]float64{
	{1e17, 3}, {1e21, 7}, {1e17, 0.3}, {7, 0.3}, {100, 0.3}, {1, 0.1}, {9007199254740994, 3}, {-1e17, 3}, {1e17, -7},
	{123456789012345678, 1000}, {0.1, 0.2}, {0.3, 0.1}, {1e15 + 0.5, 0.25}, {4611686018427387904, 10}, {1e300, 1e-10},
	{5, 3}, {-7, 2}, {2.5, 0.5}, {1e22, 1e-3}, {3, 1e17}, {0.7, 0.1}, {1e16, 0.7},
}

func init() {
	Drivers["C02:bignum"] = func(emit func(Verdict)) {
		for _, p := range bigPairs {
			for _, op := range []string{"+", "-", "*", "/", "%"} {
				exact, ok := bigArith(op, p[0], p[1])
				if !ok {
					continue
				}
				want, _ := exact.Float64()
				if math.IsInf(want, 0) {
					continue
				}
				if op == "%" && new(big.Rat).SetFloat64(want).Cmp(exact) != 0 {
					panic(fmt.Sprintf("remainder of %v %% %v not representable", p[0], p[1]))
				}
				forms := []struct {
					name, sql string
					doc       map[string]any
				}{
					{"columns", "SELECT (a " + op + " b) AS v FROM t", map[string]any{"t": []any{map[string]any{"a": p[0], "b": p[1]}}}},
					{"columns-json", "SELECT (a " + op + " b) AS v FROM t", jsonDecoded(map[string]any{"t": []any{map[string]any{"a": p[0], "b": p[1]}}})},
				}
				ta, tb := strconv.FormatFloat(p[0], 'f', -1, 64), strconv.FormatFloat(p[1], 'f', -1, 64)
				if len(ta) <= 18 && len(tb) <= 18 && p[0] >= 0 && p[1] >= 0 {
					forms = append(forms, struct {
						name, sql string
						doc       map[string]any
					}{"constants", "SELECT (" + ta + " " + op + " " + tb + ") AS v FROM t", map[string]any{"t": []any{map[string]any{"a": 0.0}}}})
				}
				for _, f := range forms {
					sig := []string{"bignum", "bin:" + op, "form:" + f.name}
					v := Verdict{OK: true, SQL: f.sql, Sig: sig, Execs: 1, Nontrivial: true}
					out := Run(f.doc, f.sql, false)
					wantRows := []any{map[string]any{"v": want}}
					if out.Panic != nil || out.Err != nil || !Equal(any(out.Rows), any(wantRows)) {
						v = fail("result", f.sql, sig, "a = %v, b = %v: the exact value is %s, the nearest float64 %v; got %s", p[0], p[1], exact.RatString(), want, out.Describe())
					}
					v.Key = fmt.Sprintf("%s/%v/%v/%s", op, p[0], p[1], f.name)
					v.Case = Node{"sql": f.sql, "a": p[0], "b": p[1], "form": f.name}
					emit(v)
				}
			}
		}
	}
}
