// Package h is the Go side of the binding between the TLA+ specification and
// the real genql library: value codec (tagged encoding <-> Go values), AST
// renderers (abstract query -> SQL text), executors and recorders.
package h

import (
	"encoding/json"
	"fmt"
	"math"
	"math/big"
	"reflect"
	"sort"
	"strings"
	"sync"
	"unicode/utf8"
)

// Node is an abstract-syntax or tagged-value record exactly as TLC's ToJson
// prints it and as the trace specs read it back.
type Node = map[string]any

// ---- tagged encoding -> Go values -----------------------------------------

// FromTagged converts a tagged value (see spec/Values.tla) into the Go value
// the engine would see in a JSON-decoded document.
func FromTagged(v any) any {
	m, ok := v.(map[string]any)
	if !ok {
		panic(fmt.Sprintf("not a tagged value: %#v", v))
	}
	switch m["t"] {
	case "null":
		return nil
	case "bool":
		return m["b"].(bool)
	case "num":
		return num(m["n"]) / num(m["d"])
	case "str":
		return CodePoints(m["c"])
	case "arr":
		es := seq(m["e"])
		out := make([]any, len(es))
		for i, e := range es {
			out[i] = FromTagged(e)
		}
		return out
	case "obj":
		out := map[string]any{}
		// TLC prints a function with empty domain as []
		if f, ok := m["f"].(map[string]any); ok {
			for k, e := range f {
				out[k] = FromTagged(e)
			}
		}
		return out
	case "err":
		return ErrValue{}
	case "any":
		return AnyValue{}
	case "alien":
		// something that is not plain data (encoded by ToTagged); equal to nothing
		why, _ := m["why"].(string)
		return AlienValue{Why: why}
	case "enc", "hash":
		// uninterpreted texts of Builtins.tla: only their laws are fixed
		b, _ := json.Marshal(m)
		o := Opaque{Kind: m["t"].(string), Key: string(b)}
		if n, ok := m["n"]; ok {
			o.HexLen = int(num(n))
		}
		return o
	}
	panic(fmt.Sprintf("unknown tag in %#v", v))
}

// ErrValue is the decoded form of the specification's Err.
type ErrValue struct{}

// AlienValue stands for a real value that is not plain JSON-like data.
type AlienValue struct{ Why string }

// StripMarkers removes the engine's temporary "<-" keys from a tagged value (they are
// legitimately present in rows between two stages of a query that evaluates subqueries).
func StripMarkers(v any) any {
	switch x := v.(type) {
	case []any:
		out := make([]any, len(x))
		for i, e := range x {
			out[i] = StripMarkers(e)
		}
		return out
	case map[string]any:
		out := make(map[string]any, len(x))
		for k, e := range x {
			if k == "<-" {
				if n, ok := e.(map[string]any); ok && n["t"] == "alien" {
					continue
				}
			}
			out[k] = StripMarkers(e)
		}
		return out
	}
	return v
}

// AnyValue is the decoded form of the specification's Unspec: a result the properties
// leave open (the checks then only demand that no panic escapes).
type AnyValue struct{}

// Opaque is an uninterpreted text of the specification (ENCODE / HASH result). A real
// value matches it when it is a string of the right shape, and the same specification
// value is matched by the same string every time (purity).
type Opaque struct {
	Kind   string
	Key    string
	HexLen int
}

var (
	opaqueMu    sync.Mutex
	opaqueSeen  = map[string]string{}
	opaqueOwner = map[string]string{}
)

func (o Opaque) matches(got any) bool {
	s, ok := got.(string)
	if !ok || s == "" {
		return false
	}
	if o.Kind == "hash" {
		if len(s) != o.HexLen {
			return false
		}
		for _, c := range s {
			if !(c >= '0' && c <= '9' || c >= 'a' && c <= 'f') {
				return false
			}
		}
	}
	opaqueMu.Lock()
	defer opaqueMu.Unlock()
	if prev, ok := opaqueSeen[o.Key]; ok {
		return prev == s
	}
	// ... and two different specification values are not matched by one string: ENCODE is invertible, and a digest
	// shared by two of the few dozen values of the domain is not a collision but an answer that belongs to the other
	// value (a result that depends on what was computed before)
	if other, ok := opaqueOwner[o.Kind+"\x00"+s]; ok && other != o.Key {
		return false
	}
	opaqueSeen[o.Key] = s
	opaqueOwner[o.Kind+"\x00"+s] = o.Key
	return true
}

func num(v any) float64 {
	switch x := v.(type) {
	case float64:
		return x
	case json.Number:
		f, _ := x.Float64()
		return f
	case int:
		return float64(x)
	case int64:
		return float64(x)
	}
	panic(fmt.Sprintf("not a number: %#v", v))
}

func seq(v any) []any {
	if v == nil {
		return nil
	}
	if s, ok := v.([]any); ok {
		return s
	}
	// a TLA+ function with an empty domain is printed as [] as well; a
	// non-empty record can never be a sequence
	panic(fmt.Sprintf("not a sequence: %#v", v))
}

// CodePoints turns a JSON array of code points into a Go string.
func CodePoints(v any) string {
	var b strings.Builder
	for _, c := range seq(v) {
		b.WriteRune(rune(num(c)))
	}
	return b.String()
}

// ---- Go values -> tagged encoding ------------------------------------------

// Rational approximates f by n/d with a small denominator; ok is false when
// no denominator up to maxDen reproduces f within 1e-12 relative error (the
// trace specs compare exactly on rationals).
func Rational(f float64) (n, d int64, ok bool) {
	if math.IsNaN(f) || math.IsInf(f, 0) || math.Abs(f) > 1e9 {
		return 0, 1, false
	}
	const maxDen = 100000
	// continued fractions
	sign := int64(1)
	x := f
	if x < 0 {
		sign, x = -1, -x
	}
	var h0, h1, k0, k1 int64 = 0, 1, 1, 0
	y := x
	for i := 0; i < 40; i++ {
		a := int64(math.Floor(y))
		h2, k2 := a*h1+h0, a*k1+k0
		if k2 > maxDen || h2 > math.MaxInt32 {
			break
		}
		h0, h1, k0, k1 = h1, h2, k1, k2
		if math.Abs(float64(h1)/float64(k1)-x) <= 1e-12*math.Max(1, x) {
			return sign * h1, k1, true
		}
		fr := y - float64(a)
		if fr < 1e-15 {
			break
		}
		y = 1 / fr
	}
	if k1 != 0 && math.Abs(float64(h1)/float64(k1)-x) <= 1e-12*math.Max(1, x) {
		return sign * h1, k1, true
	}
	return 0, 1, false
}

// ToTagged encodes a Go value produced by (or fed to) the engine. Values that
// are not JSON-representable plain data are encoded as [t |-> "alien"] with a
// description, which no specification value ever equals.
func ToTagged(v any) any {
	return toTagged(v, 0, visited{})
}

func toTagged(v any, depth int, vs visited) any {
	if depth > 64 {
		return Node{"t": "alien", "why": "cycle or depth > 64"}
	}
	p, ok := vs.enter(v)
	if !ok {
		return Node{"t": "alien", "why": "cycle or depth > 64"}
	}
	defer vs.leave(p)
	switch x := v.(type) {
	case nil:
		return Node{"t": "null"}
	case bool:
		return Node{"t": "bool", "b": x}
	case float64:
		return taggedNum(x)
	case float32:
		return taggedNum(float64(x))
	case int:
		return taggedNum(float64(x))
	case int64:
		return taggedNum(float64(x))
	case int32:
		return taggedNum(float64(x))
	case string:
		cps := make([]any, 0, len(x))
		if !utf8.ValidString(x) {
			return Node{"t": "alien", "why": "invalid utf-8"}
		}
		for _, r := range x {
			cps = append(cps, int(r))
		}
		return Node{"t": "str", "c": cps}
	case []any:
		es := make([]any, len(x))
		for i, e := range x {
			es[i] = toTagged(e, depth+1, vs)
		}
		return Node{"t": "arr", "e": es}
	case map[string]any:
		f := Node{}
		for k, e := range x {
			if k == "<-" {
				// the engine's temporary back-reference: it points at an enclosing
				// document (a cycle); noted, never followed
				f[k] = Node{"t": "alien", "why": "marker"}
				continue
			}
			f[k] = toTagged(e, depth+1, vs)
		}
		return Node{"t": "obj", "f": f}
	case []string:
		es := make([]any, len(x))
		for i, e := range x {
			es[i] = toTagged(e, depth+1, vs)
		}
		return Node{"t": "arr", "e": es}
	case []map[string]any:
		// a typed table of the caller's document handed through as a value
		es := make([]any, len(x))
		for i, e := range x {
			es[i] = toTagged(e, depth+1, vs)
		}
		return Node{"t": "arr", "e": es}
	}
	return Node{"t": "alien", "why": fmt.Sprintf("%T", v)}
}

func taggedNum(f float64) any {
	n, d, ok := Rational(f)
	if !ok {
		return Node{"t": "alien", "why": fmt.Sprintf("number %v", f)}
	}
	return Node{"t": "num", "n": n, "d": d}
}

// ---- comparison of real values with expected values --------------------------

// DeepCopy copies plain JSON-like data.
func DeepCopy(v any) any {
	switch x := v.(type) {
	case []any:
		out := make([]any, len(x))
		for i, e := range x {
			out[i] = DeepCopy(e)
		}
		return out
	case map[string]any:
		out := make(map[string]any, len(x))
		for k, e := range x {
			out[k] = DeepCopy(e)
		}
		return out
	}
	return v
}

func asFloat(v any) (float64, bool) {
	switch x := v.(type) {
	case float64:
		return x, true
	case float32:
		return float64(x), true
	case int:
		return float64(x), true
	case int64:
		return float64(x), true
	case int32:
		return float64(x), true
	case int16:
		return float64(x), true
	case int8:
		return float64(x), true
	case uint:
		return float64(x), true
	case uint64:
		return float64(x), true
	case uint32:
		return float64(x), true
	case uint16:
		return float64(x), true
	case uint8:
		return float64(x), true
	}
	return 0, false
}

// Equal compares a value returned by the engine (got) with the expected plain
// value (want, built by FromTagged). Numbers compare by value across Go numeric
// types, exactly when want is dyadic, else within 1e-12 relative. Anything that
// is not plain data (pointer, func, named engine type, cycle) is unequal.
func Equal(got, want any) bool {
	return equal(got, want, 0, visited{})
}

// visited guards against reference cycles in engine-produced values: a map that is being
// processed further up the current path is a cycle (expected values are trees). One set per
// top-level call, so concurrent callers do not see each other.
type visited map[uintptr]bool

func (vs visited) enter(v any) (uintptr, bool) {
	m, ok := v.(map[string]any)
	if !ok || m == nil {
		return 0, true
	}
	p := reflect.ValueOf(m).Pointer()
	if vs[p] {
		return p, false
	}
	vs[p] = true
	return p, true
}

func (vs visited) leave(p uintptr) {
	if p != 0 {
		delete(vs, p)
	}
}

func equal(got, want any, depth int, vs visited) bool {
	if depth > 64 {
		return false
	}
	p, ok := vs.enter(got)
	if !ok {
		return false
	}
	defer vs.leave(p)
	switch w := want.(type) {
	case Opaque:
		return w.matches(got)
	case AnyValue:
		return true
	case nil:
		return got == nil
	case bool:
		g, ok := got.(bool)
		return ok && g == w
	case float64:
		g, ok := asFloat(got)
		if !ok {
			return false
		}
		if g == w {
			return true
		}
		return math.Abs(g-w) <= 1e-12*math.Max(math.Abs(g), math.Abs(w))
	case string:
		g, ok := got.(string)
		return ok && g == w
	case []any:
		if gm, isTyped := got.([]map[string]any); isTyped {
			ga := make([]any, len(gm))
			for i := range gm {
				ga[i] = gm[i]
			}
			got = ga
		}
		g, ok := got.([]any)
		if !ok {
			if gs, ok2 := got.([]string); ok2 {
				if len(gs) != len(w) {
					return false
				}
				for i := range gs {
					if !equal(gs[i], w[i], depth+1, vs) {
						return false
					}
				}
				return true
			}
			return false
		}
		if len(g) != len(w) {
			return false
		}
		for i := range g {
			if !equal(g[i], w[i], depth+1, vs) {
				return false
			}
		}
		return true
	case map[string]any:
		g, ok := got.(map[string]any)
		if !ok || len(g) != len(w) {
			return false
		}
		for k, e := range w {
			ge, ok := g[k]
			if !ok || !equal(ge, e, depth+1, vs) {
				return false
			}
		}
		return true
	}
	return false
}

// Canon renders plain data canonically (sorted keys) for bag comparison and
// for diagnostics; non-plain values are rendered with their Go type so that
// they never collide with plain ones.
func Canon(v any) string {
	var b strings.Builder
	canon(&b, v, 0, visited{})
	return b.String()
}

func canon(b *strings.Builder, v any, depth int, vs visited) {
	if depth > 64 || b.Len() > 1<<16 {
		b.WriteString("<cycle>")
		return
	}
	p, ok := vs.enter(v)
	if !ok {
		b.WriteString("<cycle>")
		return
	}
	defer vs.leave(p)
	if f, ok := asFloat(v); ok {
		n, d, ok := Rational(f)
		if ok {
			fmt.Fprintf(b, "%d/%d", n, d)
		} else {
			fmt.Fprintf(b, "%v", f)
		}
		return
	}
	switch x := v.(type) {
	case nil:
		b.WriteString("null")
	case bool:
		fmt.Fprintf(b, "%v", x)
	case string:
		fmt.Fprintf(b, "%q", x)
	case []map[string]any:
		xs := make([]any, len(x))
		for i := range x {
			xs[i] = x[i]
		}
		canon(b, xs, depth, vs)
	case []any:
		b.WriteByte('[')
		for i, e := range x {
			if i > 0 {
				b.WriteByte(',')
			}
			canon(b, e, depth+1, vs)
		}
		b.WriteByte(']')
	case map[string]any:
		keys := make([]string, 0, len(x))
		for k := range x {
			keys = append(keys, k)
		}
		sort.Strings(keys)
		b.WriteByte('{')
		for i, k := range keys {
			if i > 0 {
				b.WriteByte(',')
			}
			fmt.Fprintf(b, "%q:", k)
			canon(b, x[k], depth+1, vs)
		}
		b.WriteByte('}')
	case Opaque:
		b.WriteString("<" + x.Kind + ">")
	default:
		fmt.Fprintf(b, "<%T>", v)
	}
}

// BagEqual compares two row sequences as multisets (Equal on elements).
func BagEqual(got []any, want []any) bool {
	if len(got) != len(want) {
		return false
	}
	used := make([]bool, len(want))
outer:
	for _, g := range got {
		for j, w := range want {
			if !used[j] && Equal(g, w) {
				used[j] = true
				continue outer
			}
		}
		return false
	}
	return true
}

// exactRat is the mathematical value of a Go number.
func exactRat(v any) (*big.Rat, bool) {
	switch x := v.(type) {
	case float64:
		if math.IsNaN(x) || math.IsInf(x, 0) {
			return nil, false
		}
		return new(big.Rat).SetFloat64(x), true
	case float32:
		return new(big.Rat).SetFloat64(float64(x)), true
	case int:
		return new(big.Rat).SetInt64(int64(x)), true
	case int64:
		return new(big.Rat).SetInt64(x), true
	case int32:
		return new(big.Rat).SetInt64(int64(x)), true
	case int16:
		return new(big.Rat).SetInt64(int64(x)), true
	case int8:
		return new(big.Rat).SetInt64(int64(x)), true
	case uint:
		return new(big.Rat).SetInt(new(big.Int).SetUint64(uint64(x))), true
	case uint64:
		return new(big.Rat).SetInt(new(big.Int).SetUint64(x)), true
	case uint32:
		return new(big.Rat).SetInt64(int64(x)), true
	case uint16:
		return new(big.Rat).SetInt64(int64(x)), true
	case uint8:
		return new(big.Rat).SetInt64(int64(x)), true
	}
	return nil, false
}

// ExactEqual compares two plain values (maps, slices, scalars) with numbers compared by their exact mathematical
// values - no tolerance: for cases whose numbers lie one unit in the last place apart.
func ExactEqual(got, want any) bool {
	if a, ok := exactRat(got); ok {
		b, ok := exactRat(want)
		return ok && a.Cmp(b) == 0
	}
	switch w := want.(type) {
	case nil:
		return got == nil
	case []any:
		g, ok := got.([]any)
		if !ok || len(g) != len(w) {
			return false
		}
		for i := range g {
			if !ExactEqual(g[i], w[i]) {
				return false
			}
		}
		return true
	case map[string]any:
		g, ok := got.(map[string]any)
		if !ok || len(g) != len(w) {
			return false
		}
		for k, x := range w {
			y, ok := g[k]
			if !ok || !ExactEqual(y, x) {
				return false
			}
		}
		return true
	}
	return reflect.DeepEqual(got, want)
}
