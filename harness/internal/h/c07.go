package h

import (
	"sort"
	"strings"
)

func mentionsBack(n any) bool {
	switch x := n.(type) {
	case []any:
		for _, e := range x {
			if mentionsBack(e) {
				return true
			}
		}
	case map[string]any:
		for _, e := range x {
			if mentionsBack(e) {
				return true
			}
		}
	case string:
		return x == "<-"
	}
	return false
}

// stagedRun evaluates a composed query the staged way with the real engine: every CTE
// body is executed on its own and its result put into a fresh plain document, a derived
// table likewise; then the outer query runs over that document.
func stagedRun(q Node, tdoc Node, execs *int) Outcome {
	doc := FromTagged(tdoc).(map[string]any)
	for _, c := range seq(q["with"]) {
		c := c.(Node)
		out := Run(DeepCopy(doc).(map[string]any), Style{}.Query(c["q"].(Node)), false)
		*execs++
		if out.Err != nil || out.Panic != nil {
			return out
		}
		doc[c["name"].(string)] = DeepCopy(any(out.Rows))
		if out.Rows == nil {
			doc[c["name"].(string)] = []any{}
		}
		if body := c["q"].(Node); body["k"] == "select" && body["from"].(Node)["k"] == "dual" && len(out.Rows) == 1 {
			// a query over dual hands its one row on as an object (New + Exec wrap it for the caller)
			doc[c["name"].(string)] = DeepCopy(out.Rows[0])
		}
	}
	outer := With(q, "with", []any{})
	if from := q["from"].(Node); from["k"] == "derived" {
		out := Run(DeepCopy(doc).(map[string]any), Style{}.Query(from["q"].(Node)), false)
		*execs++
		if out.Err != nil || out.Panic != nil {
			return out
		}
		rows := DeepCopy(any(out.Rows))
		if out.Rows == nil {
			rows = []any{}
		}
		doc["zz_derived"] = rows
		outer["from"] = Table(from["as"].(string), "zz_derived")
	}
	*execs++
	return Run(doc, Style{}.Query(outer), false)
}

// C07: composed evaluation equals the specification, equals staged evaluation with the
// real engine, and a select-list subquery equals its standalone run on the row.
func checkC07(c Node) Verdict {
	ties, _ := c["ties"].(bool)
	c["ties"] = ties
	isJoin := false
	for _, f := range Features(c["q"].(Node)) {
		if strings.HasPrefix(f, "join:") {
			isJoin = true // the rows of a join come in no particular order
		}
	}
	v := CheckEngine(c, EngineOpts{Bag: isJoin, Extra: []string{"fam:" + c["fam"].(string)}})
	want, wantErr := ExpectedRows(c)
	v.Nontrivial = len(want) > 0
	if !v.OK || wantErr {
		return v
	}
	q := c["q"].(Node)
	sig := v.Sig
	fam := c["fam"].(string)
	if q["k"] == "select" && (len(seq(q["with"])) > 0 || q["from"].(Node)["k"] == "derived") {
		st := stagedRun(q, c["doc"].(Node), &v.Execs)
		if st.Err != nil || st.Panic != nil {
			return fail("staged", v.SQL, append(sig, "staged"), "staged evaluation failed while the composed query succeeded: %s", st.Describe())
		}
		ok := Equal(any(st.Rows), any(want))
		if isJoin {
			ok = BagEqual(st.Rows, want)
		}
		if ties {
			ok = sameKeySeq(st.Rows, want, OrderKeys(q)) && BagEqual(st.Rows, want)
		}
		if !ok {
			return fail("staged", v.SQL, append(sig, "staged"), "staged evaluation returns %s, composed %s", Canon(any(st.Rows)), Canon(any(want)))
		}
	}
	// the names of CTEs are bound names: the case means the same with every CTE renamed - here to ordinary words that
	// happen to be (non-reserved) keywords of the grammar
	if ren := cteRenaming(q, c["doc"].(Node)); len(ren) > 0 {
		sql := Style{}.Query(renameCtes(q, ren).(Node))
		out := Run(FromTagged(c["doc"]).(map[string]any), sql, false)
		v.Execs++
		ok := out.Err == nil && out.Panic == nil && Equal(any(out.Rows), any(want))
		if out.Err == nil && out.Panic == nil && (isJoin || ties) {
			ok = BagEqual(out.Rows, want)
		}
		if !ok {
			return fail("result", sql, append(sig, "cte-renamed"), "CTEs renamed: want %s got %s", Canon(any(want)), out.Describe())
		}
	}
	if fam == "sub" {
		// select-list subquery standalone on each kept row (only without <-)
		sel := seq(q["sel"])
		last := sel[len(sel)-1].(Node)
		if e, ok := last["e"].(Node); ok && e["k"] == "sub" && !mentionsBack(e["q"]) {
			kept, _ := stageRows(c, "where")
			subSQL := Style{}.Query(e["q"].(Node))
			for i, r := range kept {
				row, ok := DeepCopy(r).(map[string]any)
				if !ok {
					continue
				}
				out := Run(row, subSQL, false)
				v.Execs++
				wv := want[i].(map[string]any)[last["as"].(string)]
				wl, _ := wv.([]any)
				if obj, isObj := wv.(map[string]any); isObj {
					wl = []any{obj} // a subquery over dual yields its one row as an object; run alone, New + Exec return it as a one-row result
				}
				if out.Err != nil || out.Panic != nil || !Equal(any(out.Rows), any(wl)) {
					return fail("standalone", v.SQL+" ; "+subSQL, append(sig, "standalone"), "subquery standalone on row %d returns %s, inside the query %s", i, out.Describe(), Canon(wv))
				}
			}
		}
	}
	return v
}

func init() { Replay["C07"] = checkC07 }

// cteRenaming maps every CTE name of a query to a keyword-like word; empty when there is no CTE or when a CTE shares
// its name with a table of the document (renaming would then change what unscoped references mean).
func cteRenaming(q Node, doc Node) map[string]string {
	names := map[string]bool{}
	var walk func(v any)
	walk = func(v any) {
		switch x := v.(type) {
		case []any:
			for _, e := range x {
				walk(e)
			}
		case map[string]any:
			if w, ok := x["with"].([]any); ok {
				for _, c := range w {
					names[c.(Node)["name"].(string)] = true
				}
			}
			for _, e := range x {
				walk(e)
			}
		}
	}
	walk(q)
	top, _ := FromTagged(doc).(map[string]any)
	sorted := []string{}
	for n := range names {
		if _, clash := top[n]; clash {
			return nil
		}
		sorted = append(sorted, n)
	}
	sort.Strings(sorted)
	words := []string{"status", "first", "data", "names", "last"}
	ren := map[string]string{}
	for i, n := range sorted {
		if i >= len(words) {
			return nil
		}
		ren[n] = words[i]
	}
	return ren
}

// renameCtes renames CTE definitions and the references to them: the first name of a FROM path (behind any <- steps)
// and the first key of a path selector.
func renameCtes(v any, ren map[string]string) any {
	switch t := v.(type) {
	case map[string]any:
		out := Node{}
		for k, x := range t {
			out[k] = renameCtes(x, ren)
		}
		if w, ok := t["with"].([]any); ok {
			nw := make([]any, len(w))
			for i, c := range w {
				cn := renameCtes(c, ren).(Node)
				if n, ok := ren[cn["name"].(string)]; ok {
					cn["name"] = n
				}
				nw[i] = cn
			}
			out["with"] = nw
		}
		if t["k"] == "table" {
			p := append([]any{}, seq(t["p"])...)
			for i, s := range p {
				if s == "<-" {
					continue
				}
				if n, ok := ren[s.(string)]; ok {
					p[i] = n
				}
				break
			}
			out["p"] = p
		}
		if t["k"] == "sel" {
			for _, s := range seq(out["sel"]) {
				steps := seq(s.(Node)["steps"])
				if len(steps) > 0 {
					if st := steps[0].(Node); st["k"] == "key" {
						if n, ok := ren[st["name"].(string)]; ok {
							st["name"] = n
						}
					}
				}
			}
		}
		return out
	case []any:
		out := make([]any, len(t))
		for i, x := range t {
			out[i] = renameCtes(x, ren)
		}
		return out
	}
	return v
}
