package h

import "strings"

func mentionsBack(n any) bool {
	switch x := n.(type) {
	case []any:
		for _, e := range x {
			if mentionsBack(e) {
				return true
			}
		}
	case map[string]any:
		for _, e := range x {
			if mentionsBack(e) {
				return true
			}
		}
	case string:
		return x == "<-"
	}
	return false
}

// stagedRun evaluates a composed query the staged way with the real engine: every CTE
// body is executed on its own and its result put into a fresh plain document, a derived
// table likewise; then the outer query runs over that document.
func stagedRun(q Node, tdoc Node, execs *int) Outcome {
	doc := FromTagged(tdoc).(map[string]any)
	for _, c := range seq(q["with"]) {
		c := c.(Node)
		out := Run(DeepCopy(doc).(map[string]any), Style{}.Query(c["q"].(Node)), false)
		*execs++
		if out.Err != nil || out.Panic != nil {
			return out
		}
		doc[c["name"].(string)] = DeepCopy(any(out.Rows))
		if out.Rows == nil {
			doc[c["name"].(string)] = []any{}
		}
	}
	outer := With(q, "with", []any{})
	if from := q["from"].(Node); from["k"] == "derived" {
		out := Run(DeepCopy(doc).(map[string]any), Style{}.Query(from["q"].(Node)), false)
		*execs++
		if out.Err != nil || out.Panic != nil {
			return out
		}
		rows := DeepCopy(any(out.Rows))
		if out.Rows == nil {
			rows = []any{}
		}
		doc["zz_derived"] = rows
		outer["from"] = Table(from["as"].(string), "zz_derived")
	}
	*execs++
	return Run(doc, Style{}.Query(outer), false)
}

// C07: composed evaluation equals the specification, equals staged evaluation with the
// real engine, and a select-list subquery equals its standalone run on the row.
func checkC07(c Node) Verdict {
	ties, _ := c["ties"].(bool)
	c["ties"] = ties
	isJoin := false
	for _, f := range Features(c["q"].(Node)) {
		if strings.HasPrefix(f, "join:") {
			isJoin = true // the rows of a join come in no particular order
		}
	}
	v := CheckEngine(c, EngineOpts{Bag: isJoin, Extra: []string{"fam:" + c["fam"].(string)}})
	want, wantErr := ExpectedRows(c)
	v.Nontrivial = len(want) > 0
	if !v.OK || wantErr {
		return v
	}
	q := c["q"].(Node)
	sig := v.Sig
	fam := c["fam"].(string)
	if q["k"] == "select" && (len(seq(q["with"])) > 0 || q["from"].(Node)["k"] == "derived") {
		st := stagedRun(q, c["doc"].(Node), &v.Execs)
		if st.Err != nil || st.Panic != nil {
			return fail("staged", v.SQL, append(sig, "staged"), "staged evaluation failed while the composed query succeeded: %s", st.Describe())
		}
		ok := Equal(any(st.Rows), any(want))
		if isJoin {
			ok = BagEqual(st.Rows, want)
		}
		if ties {
			ok = sameKeySeq(st.Rows, want, OrderKeys(q)) && BagEqual(st.Rows, want)
		}
		if !ok {
			return fail("staged", v.SQL, append(sig, "staged"), "staged evaluation returns %s, composed %s", Canon(any(st.Rows)), Canon(any(want)))
		}
	}
	if fam == "sub" {
		// select-list subquery standalone on each kept row (only without <-)
		sel := seq(q["sel"])
		last := sel[len(sel)-1].(Node)
		if e, ok := last["e"].(Node); ok && e["k"] == "sub" && !mentionsBack(e["q"]) {
			kept, _ := stageRows(c, "where")
			subSQL := Style{}.Query(e["q"].(Node))
			for i, r := range kept {
				row, ok := DeepCopy(r).(map[string]any)
				if !ok {
					continue
				}
				out := Run(row, subSQL, false)
				v.Execs++
				wv := want[i].(map[string]any)[last["as"].(string)]
				wl, _ := wv.([]any)
				if out.Err != nil || out.Panic != nil || !Equal(any(out.Rows), any(wl)) {
					return fail("standalone", v.SQL+" ; "+subSQL, append(sig, "standalone"), "subquery standalone on row %d returns %s, inside the query %s", i, out.Describe(), Canon(wv))
				}
			}
		}
	}
	return v
}

func init() { Replay["C07"] = checkC07 }
