package h

import (
	"errors"
	"fmt"
	"hash/fnv"
	"math/rand"
	"sort"
	"strings"

	"github.com/vedadiyan/genql"
)

// the constructs of the C10 matrix (MC_C10 enumerates their names x options x documents).
// {T} is the table path (t or root.t), {U} the second table.
var constructs10 = map[string]string{
	"plain":                  "SELECT a FROM {T} WHERE a > 1",
	"natural_join":           "SELECT * FROM {T} x NATURAL JOIN {U} y",
	"bare_join":              "SELECT * FROM {T} x JOIN {U} y",
	"cross_join":             "SELECT * FROM {T} x CROSS JOIN {U} y",
	"using_join":             "SELECT * FROM {T} x JOIN {U} y USING (a)",
	"into_join":              "SELECT * FROM {T} x JOIN {U} y INTO z ON x.a = y.c",
	"two_tables":             "SELECT * FROM {T}, {U}",
	"union3":                 "SELECT a FROM {T} UNION SELECT c FROM {U} UNION ALL SELECT a FROM {T}",
	"union4_limit":           "SELECT a FROM {T} UNION SELECT a FROM {T} UNION SELECT a FROM {T} UNION SELECT c FROM {U} LIMIT 2",
	"union_star_mismatch":    "SELECT * FROM {T} UNION SELECT c, c FROM {U}",
	"self_cte":               "WITH c AS (SELECT * FROM c) SELECT * FROM c",
	"mutual_cte":             "WITH c AS (SELECT * FROM d), d AS (SELECT * FROM c) SELECT * FROM d",
	"self_cte_subquery":      "WITH c AS (SELECT a FROM {T} WHERE a IN (SELECT a FROM `<-c`)) SELECT * FROM c",
	"cte_unused":             "WITH c AS (SELECT nosuch(a) FROM {T}) SELECT a FROM {T}",
	"cte_index_path":         "WITH c AS (SELECT a, n FROM {T}) SELECT * FROM `c[0].n`",
	"cte_key_path":           "WITH c AS (SELECT a, o FROM {T}) SELECT k FROM c.o",
	"cte_in_cte_path":        "WITH c AS (SELECT a, n FROM {T}), d AS (SELECT * FROM `c[each].n`) SELECT * FROM `d[0]`",
	"cte_path_in_subquery":   "WITH c AS (SELECT a, n FROM {T}) SELECT a, (SELECT p FROM `<-c[0].n`) AS s FROM {T}",
	"unbalanced_open":        "SELECT [1, 2 AS v FROM {T}",
	"unbalanced_close":       "SELECT 1] AS v FROM {T}",
	"brackets_nested":        "SELECT [[1], [a, [s]]] AS v FROM {T}",
	"bracket_in_literal":     "SELECT '[' AS v, [1] AS w FROM {T}",
	"from_index_out":         "SELECT * FROM `{T}[9]`",
	"from_range_out":         "SELECT * FROM `{T}[(2:99)]`",
	"from_range_inverted":    "SELECT * FROM `{T}[(3:1)]`",
	"from_wrong_dims":        "SELECT * FROM `{T}[0:0:0]`",
	"from_each_each":         "SELECT * FROM `{T}[each:each]`",
	"from_unknown_fn":        "SELECT * FROM `nosuch=>{T}`",
	"from_pipe":              "SELECT * FROM `{T}{a|number, s|string}`",
	"from_missing":           "SELECT * FROM nosuchtable",
	"parallel_join_fail":     "SELECT * FROM {T} x PARALLEL JOIN {U} y ON x.a <= y.c AND failing(1)",
	"parallel_join_panic":    "SELECT * FROM {T} x PARALLEL LEFT JOIN {U} y ON x.a <= y.c AND kaboom(1)",
	"parallel_hash_join":     "SELECT * FROM {T} x PARALLEL HASH_JOIN {U} y ON x.a = y.c",
	"parallel_join_type":     "SELECT * FROM {T} x PARALLEL JOIN {U} y ON x.s <= y.c",
	"join_on_function":       "SELECT * FROM {T} x JOIN {U} y ON kaboom(x.a) = y.c",
	"async_fail":             "SELECT a, ASYNC.failing(a) AS v FROM {T}",
	"async_panic":            "SELECT a, ASYNC.kaboom(a) AS v FROM {T}",
	"async_panic_error":      "SELECT a, ASYNC.kaboome(a) AS v FROM {T}",
	"spin_panic":             "SELECT a, SPIN.kaboom(a) FROM {T}",
	"spinasync_panic":        "SELECT a, SPINASYNC.kaboom(a) FROM {T}",
	"once_panic":             "SELECT a, ONCE.kaboom(a) AS v FROM {T}",
	"sync_panic":             "SELECT a, kaboom(a) AS v FROM {T}",
	"sync_panic_where":       "SELECT a FROM {T} WHERE kaboom(a) > 1",
	"panic_in_cte":           "WITH c AS (SELECT kaboom(a) AS a FROM {T}) SELECT * FROM c",
	"panic_in_derived":       "SELECT * FROM (SELECT kaboom(a) AS a FROM {T}) x",
	"panic_in_subquery":      "SELECT a, (SELECT kaboom(p) AS p FROM n) AS s FROM {T}",
	"async_in_derived":       "SELECT * FROM (SELECT a, ASYNC.kaboom(a) AS v FROM {T}) x",
	"await_async":            "SELECT a, AWAIT(ASYNC.failing(a)) AS v FROM {T}",
	"distinct_subquery_star": "SELECT DISTINCT *, (SELECT p FROM n) AS s FROM {T}",
	"distinct_exists_star":   "SELECT DISTINCT * FROM {T} WHERE EXISTS (SELECT * FROM n)",
	"star_subquery_back":     "SELECT *, (SELECT c FROM `<-u`) AS s FROM {T} ORDER BY a",
	"concat_row_back":        "SELECT CONCAT((SELECT * FROM n), 'x') AS v FROM {T}",
	"group_by_array":         "SELECT n, COUNT(*) AS k FROM {T} GROUP BY n",
	"group_by_function":      "SELECT COUNT(*) AS k FROM {T} GROUP BY CONCAT(s, 'x')",
	"order_by_missing":       "SELECT a FROM {T} ORDER BY nosuch DESC",
	"order_by_mixed":         "SELECT mixed FROM {T} ORDER BY mixed",
	"order_by_expr":          "SELECT a FROM {T} ORDER BY a + 1",
	"limit_huge":             "SELECT a FROM {T} LIMIT 999999999 OFFSET 999999999",
	"limit_overflow":         "SELECT a FROM {T} LIMIT 99999999999999999999",
	"limit_expr":             "SELECT a FROM {T} LIMIT 1 + 1",
	"substr_out":             "SELECT SUBSTRING(s, 0, 50) AS v FROM {T}",
	"substr_null":            "SELECT SUBSTRING(nosuch, 1, 2) AS v FROM {T}",
	"div_zero":               "SELECT a / 0 AS v, a DIV 0 AS w, a % 0 AS x FROM {T}",
	"shift_huge":             "SELECT a << 999 AS v, a >> -1 AS w FROM {T}",
	"unknown_function":       "SELECT nosuch(a) AS v FROM {T}",
	"aggregate_of_aggregate": "SELECT SUM(COUNT(*)) AS v FROM {T}",
	"aggregate_in_where":     "SELECT a FROM {T} WHERE SUM(a) > 1",
	"having_no_group":        "SELECT a FROM {T} HAVING a > 1",
	"case_non_bool":          "SELECT CASE WHEN a THEN 1 ELSE 2 END AS v FROM {T}",
	"not_non_bool":           "SELECT a FROM {T} WHERE NOT a",
	"in_non_array":           "SELECT a FROM {T} WHERE a IN (s)",
	"in_subquery_star":       "SELECT a FROM {T} WHERE a IN (SELECT * FROM `<-u`)",
	"exists_scalar":          "SELECT a FROM {T} WHERE EXISTS (SELECT * FROM s)",
	"elementat_negative":     "SELECT ELEMENTAT(n, -1) AS v, ELEMENTAT(n, 99) AS w FROM {T}",
	"fuse_scalar":            "SELECT FUSE(a) FROM {T}",
	"defaultkey_many":        "SELECT DEFAULTKEY(o) AS v FROM {T}",
	"changetype_bad":         "SELECT CHANGETYPE(s, 'integer') AS v, CHANGETYPE(a, 'nosuch') AS w FROM {T}",
	"decode_garbage":         "SELECT DECODE('zz', 'hex') AS v, DECODE(s, 'base64') AS w FROM {T}",
	"global_non_subquery":    "SELECT GLOBAL.FIRST(a) AS v FROM {T}",
	"scoped_unknown":         "SELECT NOSUCHQUAL.CONCAT(s) AS v FROM {T}",
	"raise":                  "SELECT RAISE('stop') AS v FROM {T}",
	"deep_expression":        "SELECT {DEEP} AS v FROM {T}",
	"deep_subqueries":        "SELECT (SELECT (SELECT (SELECT (SELECT a FROM `<-<-<-<-{T}`) AS w FROM n) AS x FROM n) AS y FROM n) AS z FROM {T}",
	"back_beyond_root":       "SELECT (SELECT * FROM `<-<-<-<-<-nosuch`) AS v FROM {T}",
	"empty":                  "",
	"garbage":                "SELEC a FRM {T}",
	"not_select":             "DELETE FROM {T} WHERE a = 1",
	"insert":                 "INSERT INTO {T} (a) VALUES (1)",
	"semicolons":             "SELECT a FROM {T}; SELECT a FROM {T}",
	"only_comment":           "/* nothing */ -- at all",
	"unterminated_string":    "SELECT 'abc FROM {T}",
	"unterminated_backtick":  "SELECT `abc FROM {T}",
	"unterminated_dquote":    "SELECT \"abc FROM {T}",
	"trailing_backslash":     "SELECT 'abc\\",
	"nul_bytes":              "SELECT a\x00 FROM {T}\x00",
	"invalid_utf8":           "SELECT '\xff\xfe' AS v FROM {T} WHERE s = '\xc3'",
	"dual_star":              "SELECT * FROM dual",
	"cte_dual_star":          "WITH c AS (SELECT * FROM dual) SELECT * FROM c",
	"cte_dual_star_distinct": "WITH c AS (SELECT * FROM dual) SELECT DISTINCT * FROM c",
	"cte_dual_star_union":    "WITH c AS (SELECT * FROM dual) SELECT * FROM c UNION SELECT * FROM c",
	"cte_dual_star_order":    "WITH c AS (SELECT * FROM dual) SELECT * FROM c ORDER BY t",
	"derived_dual_distinct":  "SELECT DISTINCT * FROM (SELECT * FROM dual) x",
	"cte_star_twice":         "WITH c AS (SELECT * FROM {T}), d AS (SELECT * FROM c) SELECT DISTINCT * FROM d UNION SELECT * FROM c",
	"parallel_hash_panic":    "SELECT * FROM {T} x PARALLEL LEFT HASH_JOIN {U} y ON x.a = y.c AND kaboom(1) = 1",
	"parallel_join_like":     "SELECT * FROM {T} x PARALLEL JOIN {U} y ON x.s LIKE y.pat OR x.s NOT LIKE y.pat2",
	"setvar_no_vars":         "SELECT a, SETVAR('k', a) FROM {T}",
	"getvar_no_vars":         "SELECT a, GETVAR('k') AS v FROM {T}",
	"setvar_getvar_no_vars":  "SELECT SETVAR('k', a), GETVAR('k') AS v, SETVAR('j', GETVAR('k')) FROM {T} WHERE a > 0",
	"cte_backref_distinct":   "WITH c AS (SELECT (SELECT `<-` AS up FROM dual) AS x FROM {T}) SELECT DISTINCT * FROM c",
	// the back-reference in some rows only: the first row scalar and a later one cyclic, and the other way round
	"cte_backref_case_distinct":  "WITH c AS (SELECT a, CASE WHEN a > 1 THEN (SELECT `<-` AS up FROM dual) ELSE 0 END AS x FROM {T}) SELECT DISTINCT * FROM c",
	"cte_backref_case_distinct2": "WITH c AS (SELECT a, CASE WHEN a < 3 THEN (SELECT `<-` AS up FROM dual) ELSE 0 END AS x FROM {T}) SELECT DISTINCT * FROM c",
	"cte_backref_case_order":     "WITH c AS (SELECT a, CASE WHEN a > 1 THEN (SELECT `<-` AS up FROM dual) ELSE 0 END AS x FROM {T}) SELECT * FROM c ORDER BY x",
	"cte_backref_case_group":     "WITH c AS (SELECT a, CASE WHEN a > 1 THEN (SELECT `<-` AS up FROM dual) ELSE 0 END AS x FROM {T}) SELECT x, COUNT(*) AS n FROM c GROUP BY x",
	"cte_backref_order":          "WITH c AS (SELECT (SELECT `<-` AS up FROM dual) AS x, a FROM {T}) SELECT * FROM c ORDER BY x",
	"cte_backref_order2":         "WITH c AS (SELECT (SELECT `<-` AS up FROM dual) AS x, 1 AS k, a FROM {T}) SELECT * FROM c ORDER BY k, x",
	"cte_backref_order3":         "WITH c AS (SELECT (SELECT `<-` AS up FROM dual) AS x, 1 AS k, a FROM {T}) SELECT * FROM c ORDER BY k DESC, k, x DESC",
	"cte_backref_group":          "WITH c AS (SELECT (SELECT `<-` AS up FROM dual) AS x, a FROM {T}) SELECT x, COUNT(*) AS n FROM c GROUP BY x",
	"cte_backref_where":          "WITH c AS (SELECT (SELECT `<-` AS up FROM dual) AS x, a FROM {T}) SELECT a FROM c WHERE x = x OR x > 1",
	"cte_backref_like":           "WITH c AS (SELECT (SELECT `<-` AS up FROM dual) AS x, a FROM {T}) SELECT a FROM c WHERE x LIKE 'm%' OR x NOT LIKE '%z'",
	"cte_backref_in":             "WITH c AS (SELECT (SELECT `<-` AS up FROM dual) AS x, a FROM {T}) SELECT a FROM c WHERE x IN (1, 'a') OR x NOT IN (2)",
	"cte_backref_between":        "WITH c AS (SELECT (SELECT `<-` AS up FROM dual) AS x, a FROM {T}) SELECT a FROM c WHERE x BETWEEN 1 AND 5",
	"cte_backref_concat":         "WITH c AS (SELECT (SELECT `<-` AS up FROM dual) AS x, a FROM {T}) SELECT CONCAT(x, 'a') AS v, TO_UPPER(x) AS u FROM c",
	"cte_backref_sum":            "WITH c AS (SELECT (SELECT `<-` AS up FROM dual) AS x, a FROM {T}) SELECT SUM(x) AS s, MIN(x) AS mn, MAX(x) AS mx, AVG(x) AS av FROM c",
	"cte_backref_changetype":     "WITH c AS (SELECT (SELECT `<-` AS up FROM dual) AS x, a FROM {T}) SELECT CHANGETYPE(x, 'double') AS d, CHANGETYPE(x, 'string') AS s FROM c",
	"cte_backref_join":           "WITH c AS (SELECT (SELECT `<-` AS up FROM dual) AS x, a FROM {T}) SELECT l.a FROM c l JOIN c r ON l.x = r.x",
	"cte_backref_hashjoin":       "WITH c AS (SELECT (SELECT `<-` AS up FROM dual) AS x, a FROM {T}) SELECT l.a FROM c l PARALLEL HASH_JOIN c r ON l.x = r.x",
	"cte_backref_setvar":         "WITH c AS (SELECT (SELECT `<-` AS up FROM dual) AS x, a FROM {T}) SELECT SETVAR(x, 1), GETVAR(x) AS v FROM c",
	"cte_backref_raise":          "WITH c AS (SELECT (SELECT `<-` AS up FROM dual) AS x, a FROM {T}) SELECT RAISE(x) FROM c",
	"cte_backref_arith":          "WITH c AS (SELECT (SELECT `<-` AS up FROM dual) AS x, a FROM {T}) SELECT x + 1 AS v, -x AS n FROM c",
	"cte_backref_case":           "WITH c AS (SELECT (SELECT `<-` AS up FROM dual) AS x, a FROM {T}) SELECT CASE WHEN x = 1 THEN 1 WHEN x > x THEN 2 ELSE x END AS v FROM c",
	"select_backref":             "SELECT `<-` AS up, a FROM {T}",
	"derived_backref_union":      "SELECT * FROM (SELECT `<-` AS up FROM {T}) x UNION SELECT * FROM (SELECT `<-` AS up FROM {T}) y",
	"parallel_join_inner":        "SELECT * FROM {T} PARALLEL JOIN {U} ON a > c",
	"dual_subquery":              "SELECT (SELECT a FROM {T}) AS v FROM dual",
	"select_star_alias":          "SELECT x.* FROM {T} x",
	"window_function":            "SELECT ROW_NUMBER() OVER (ORDER BY a) AS v FROM {T}",
	"interval":                   "SELECT a + INTERVAL 1 DAY AS v FROM {T}",
	"cast":                       "SELECT CAST(a AS CHAR) AS v, CONVERT(s, SIGNED) AS w FROM {T}",
	"between_null":               "SELECT a FROM {T} WHERE a BETWEEN NULL AND s",
	"like_huge_pattern":          "SELECT a FROM {T} WHERE s LIKE '{PERCENTS}'",
	"is_on_object":               "SELECT a FROM {T} WHERE o IS TRUE",
	"compare_objects":            "SELECT a FROM {T} WHERE o > n ORDER BY o",
}

func init() {
	deep := "a"
	for i := 0; i < 300; i++ {
		deep = "(" + deep + " + 1)"
	}
	constructs10["deep_expression"] = strings.ReplaceAll(constructs10["deep_expression"], "{DEEP}", deep)
	constructs10["like_huge_pattern"] = strings.ReplaceAll(constructs10["like_huge_pattern"], "{PERCENTS}", strings.Repeat("%a", 400))
	genql.RegisterFunction("kaboom", func(q *genql.Query, cur genql.Map, fo *genql.FunctionOptions, args []any) (any, error) {
		panic("kaboom: a user function panics with a value that is not an error")
	})
	genql.RegisterFunction("kaboome", func(q *genql.Query, cur genql.Map, fo *genql.FunctionOptions, args []any) (any, error) {
		panic(errors.New("kaboome: a user function panics with an error"))
	})
	genql.RegisterFunction("failing", func(q *genql.Query, cur genql.Map, fo *genql.FunctionOptions, args []any) (any, error) {
		return nil, errors.New("failing: error")
	})
}

// ConstructNames is what spec/mc/C10_*.cfg lists.
func ConstructNames() []string {
	out := []string{}
	for k := range constructs10 {
		out = append(out, k)
	}
	sort.Strings(out)
	return out
}

var wideCounter int

func doc10(kind string) map[string]any {
	switch kind {
	case "empty":
		return map[string]any{"t": []any{}, "u": []any{}}
	case "wide":
		// more rows than any fixed number of workers or slots: 40 keys on one side, rows with an inner dimension at the end
		rows := []any{}
		for i := 1; i <= 40; i++ {
			rows = append(rows, map[string]any{"a": float64(i), "s": fmt.Sprintf("s%d", i), "mixed": float64(i), "n": []any{map[string]any{"p": float64(i)}}, "o": map[string]any{"k": float64(i)}})
		}
		u := []any{}
		wideCounter++
		for i := 1; i <= 60; i++ {
			// (the LIKE patterns are new to the process in every document)
			u = append(u, map[string]any{"c": float64(i * 2), "pat": fmt.Sprintf("%%s%d_%d%%", i, wideCounter), "pat2": fmt.Sprintf("s%d%%%d", i%7, wideCounter)})
		}
		return map[string]any{"t": rows, "u": u}
	case "grid":
		// rows that are arrays themselves (an inner dimension)
		rows := []any{}
		for i := 1; i <= 24; i++ {
			rows = append(rows, []any{map[string]any{"a": float64(i)}, map[string]any{"a": float64(-i)}})
		}
		return map[string]any{"t": rows, "u": []any{map[string]any{"c": float64(1)}, map[string]any{"c": float64(2)}}}
	case "wrongshape":
		return map[string]any{"t": map[string]any{"a": "x", "n": float64(3), "s": nil, "o": []any{1.0}}, "u": "scalar", "extra": nil}
	}
	return map[string]any{
		"t": []any{
			map[string]any{"a": float64(1), "s": "x", "mixed": float64(2), "n": []any{map[string]any{"p": float64(1)}, map[string]any{"p": float64(5)}}, "o": map[string]any{"k": float64(1), "l": "y"}},
			map[string]any{"a": float64(3), "s": "y", "mixed": "two", "n": []any{}, "o": map[string]any{"k": float64(2)}},
			map[string]any{"a": nil, "s": nil, "mixed": nil, "n": nil, "o": nil},
		},
		"u": []any{map[string]any{"c": float64(3)}, map[string]any{"c": float64(1)}},
	}
}

var mutAlphabet = []byte(" ()[]{}'\"`\\,.*=<>-+/|&%$#@!;:\x00\n\t0aAeSELECTFROMWHEREJOINUNION")

func mutate(r *rand.Rand, s string) string {
	m := []byte(s)
	for n := 0; n <= r.Intn(4); n++ {
		switch r.Intn(6) {
		case 0:
			if len(m) > 0 {
				i := r.Intn(len(m))
				m = append(m[:i], m[i+1:]...)
			}
		case 1:
			i := r.Intn(len(m) + 1)
			m = append(m[:i], append([]byte{mutAlphabet[r.Intn(len(mutAlphabet))]}, m[i:]...)...)
		case 2:
			if len(m) > 0 {
				m[r.Intn(len(m))] = mutAlphabet[r.Intn(len(mutAlphabet))]
			}
		case 3:
			if len(m) > 3 {
				i := r.Intn(len(m) - 2)
				j := i + 1 + r.Intn(len(m)-i-1)
				dup := append([]byte{}, m[i:j]...)
				m = append(m[:j], append(dup, m[j:]...)...)
			}
		case 4:
			if len(m) > 3 {
				i := r.Intn(len(m) - 2)
				j := i + 1 + r.Intn(len(m)-i-1)
				m = append(m[:i], m[j:]...)
			}
		default:
			if len(m) > 1 {
				i, j := r.Intn(len(m)), r.Intn(len(m))
				m[i], m[j] = m[j], m[i]
			}
		}
	}
	return string(m)
}

// C10: one cell of the matrix, then seeded byte-level mutations of its query text. Whatever
// happens, New / Exec must return (a result or an error). A panic that escapes the API is caught
// here; a dying process or a hang is seen by the orchestrator and attributed to this cell.
func checkC10(c Node) Verdict {
	name := c["construct"].(string)
	tpl, ok := constructs10[name]
	if !ok {
		return Verdict{OK: false, Kind: "harness", Detail: "unknown construct " + name}
	}
	opts := []string{}
	table, second := "t", "u"
	if b, _ := c["wrapped"].(bool); b {
		opts = append(opts, "wrapped")
		table, second = "root.t", "root.u"
	}
	if b, _ := c["pg"].(bool); b {
		opts = append(opts, "pg")
	}
	if b, _ := c["arr"].(bool); b {
		opts = append(opts, "arr")
	}
	sql := strings.ReplaceAll(strings.ReplaceAll(tpl, "{T}", table), "{U}", second)
	sig := []string{"construct:" + name, "doc:" + c["doc"].(string)}
	for _, o := range opts {
		sig = append(sig, "opt:"+o)
	}
	v := Verdict{OK: true, SQL: sql, Sig: sig, Nontrivial: true}
	run := func(q string, tag string) *Verdict {
		var errs []error
		out := Run(doc10(c["doc"].(string)), q, false, append(Opts(opts, nil, nil), genql.UnReportedErrors(func(e error) { errs = append(errs, e) }))...)
		v.Execs++
		if out.Panic != nil {
			f := fail("panic", q, append(append([]string{}, sig...), tag), "a panic escaped New / Exec: %v", out.Panic)
			return &f
		}
		return nil
	}
	if bad := run(sql, "exact"); bad != nil {
		return *bad
	}
	h := fnv.New64a()
	h.Write([]byte(sql))
	r := rand.New(rand.NewSource(int64(h.Sum64()) ^ Seed))
	n := 6
	if Tier == "thorough" {
		n = 60
	}
	for i := 0; i < n; i++ {
		if bad := run(mutate(r, sql), "mutated"); bad != nil {
			return *bad
		}
	}
	return v
}

func init() {
	Replay["C10"] = checkC10
	Drivers["C10:names"] = func(emit func(Verdict)) {
		fmt.Println(strings.Join(ConstructNames(), " "))
	}
}
