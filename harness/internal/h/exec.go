package h

import (
	"fmt"
	"sync"

	"github.com/vedadiyan/genql"
)

// StageEvent is one observation of the verifStage hook.
type StageEvent struct {
	Top   bool   // emitted by the query object New returned (not by a nested query)
	Stage string // from where group select distinct order window
	Rows  any    // tagged encoding, snapshot taken inside the hook
}

// Outcome is everything a single New + Exec exposes through the public API
// (plus the hook events).
type Outcome struct {
	Rows    []any
	Err     error // error returned by New or Exec
	InNew   bool  // the error came from New
	Panic   any   // value of a panic that escaped New or Exec
	Stages  []StageEvent
	SQL     string
	Doc     any // the caller's document after the call
	Options []string
	// with ReExec on: what a second Exec of the same *Query returned
	Again  bool
	Rows2  []any
	Err2   error
	Panic2 any
}

// ReExec makes Run call Exec a second time on the query object it has just executed successfully (a Query may be
// executed any number of times; what it returns is a function of the query and the document, not of earlier runs).
// Set by the checks of properties whose queries have no side effects by design.
var ReExec bool

var (
	recMu  sync.Mutex
	recTop *genql.Query
	recOn  bool
	recEvs []StageEvent
)

func init() {
	genql.VerifStage = func(q *genql.Query, stage string, rows any) {
		recMu.Lock()
		defer recMu.Unlock()
		if !recOn {
			return
		}
		recEvs = append(recEvs, StageEvent{Top: q == recTop && recTop != nil, Stage: stage, Rows: ToTagged(rows)})
	}
}

// Opts translates option names into genql options.
func Opts(names []string, vars map[string]any, consts map[string]any) []genql.QueryOption {
	out := []genql.QueryOption{}
	for _, n := range names {
		switch n {
		case "wrapped":
			out = append(out, genql.Wrapped())
		case "pg":
			out = append(out, genql.PostgresEscapingDialect())
		case "arr":
			out = append(out, genql.IdomaticArrays())
		case "errhandler":
			out = append(out, genql.UnReportedErrors(func(error) {}))
		}
	}
	if vars != nil {
		out = append(out, genql.WithVars(vars))
	}
	if consts != nil {
		out = append(out, genql.WithConstants(consts))
	}
	return out
}

// Run executes one query with the real library. record enables the stage
// recorder (single-threaded use only).
func Run(doc map[string]any, sql string, record bool, opts ...genql.QueryOption) (out Outcome) {
	out.SQL = sql
	out.Doc = doc
	if record {
		recMu.Lock()
		recOn, recTop, recEvs = true, nil, nil
		recMu.Unlock()
		defer func() {
			recMu.Lock()
			out.Stages = recEvs
			recOn, recTop, recEvs = false, nil, nil
			recMu.Unlock()
		}()
	}
	defer func() {
		if r := recover(); r != nil {
			out.Panic = r
			out.Rows = nil
		}
	}()
	q, err := genql.New(doc, sql, opts...)
	if err != nil {
		out.Err, out.InNew = err, true
		return
	}
	if record {
		recMu.Lock()
		recTop = q
		recMu.Unlock()
	}
	rows, err := q.Exec()
	if err != nil {
		out.Err = err
		return
	}
	out.Rows = rows
	if ReExec {
		if record {
			recMu.Lock()
			recOn = false // the stage events of the second run are not part of the recorded history
			recMu.Unlock()
		}
		func() {
			defer func() {
				if r := recover(); r != nil {
					out.Panic2 = r
				}
			}()
			out.Again = true
			out.Rows2, out.Err2 = q.Exec()
		}()
	}
	return
}

// Describe summarises an outcome for diagnostics.
func (o Outcome) Describe() string {
	switch {
	case o.Panic != nil:
		return fmt.Sprintf("PANIC %v", o.Panic)
	case o.Err != nil:
		return fmt.Sprintf("ERROR %v", o.Err)
	}
	return Canon(any(o.Rows))
}

// TopStage returns the rows (tagged) of the first top-level event of a stage.
func (o Outcome) TopStage(stage string) (any, bool) {
	for _, e := range o.Stages {
		if e.Top && e.Stage == stage {
			return e.Rows, true
		}
	}
	return nil, false
}
