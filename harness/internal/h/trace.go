package h

import "io"

// TraceInfo summarises a generated trace file.
type TraceInfo struct {
	Queries int      `json:"queries"`
	Events  int      `json:"events"`
	Samples []string `json:"samples"`
	Cfg     string   `json:"cfg,omitempty"` // TLC configuration of the trace specification, when it has constants
}

// TraceGen: per property, drive the real library on generated inputs beyond the
// exhaustive bounds and record one ndjson event per specification action.
var TraceGen = map[string]func(seed int64, n int, tier string, w io.Writer) TraceInfo{}

// Tier and Seed of the current worker invocation.
var (
	Tier       = "quick"
	Seed int64 = 1
)

// Retrace: re-execute a recorded history (case = {"trace": [events]}) and write a fresh trace.
var Retrace = map[string]func(c Node, w io.Writer){}

// Drivers: self-contained exploration drivers ("<prop>:<mode>"), emitting one verdict per case.
var Drivers = map[string]func(emit func(Verdict)){}

// engineRetrace re-runs the call event of an EngineTrace history.
func engineRetrace(c Node, w io.Writer) {
	evs := seq(c["trace"])
	if len(evs) == 0 {
		return
	}
	call := evs[0].(Node)
	opts := []string{}
	for _, o := range seq(call["opts"]) {
		opts = append(opts, o.(string))
	}
	RecordEngine(w, call["q"].(Node), call["doc"].(Node), Style{}, opts)
}

// TraceFeatures returns the signature of a recorded history.
func TraceFeatures(prop string, c Node) ([]string, string) {
	evs := seq(c["trace"])
	if len(evs) == 0 {
		return nil, ""
	}
	call, _ := evs[0].(Node)
	if q, ok := call["q"].(Node); ok {
		return Features(q), Style{}.Query(q)
	}
	return nil, ""
}
