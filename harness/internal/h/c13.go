package h

import (
	"bytes"
	"encoding/json"
	"fmt"
	"io"
	"os"
	"os/exec"
	"runtime"
	"strconv"
	"strings"
	"sync"
	"sync/atomic"
	"time"

	"github.com/vedadiyan/genql"
)

// ---- C13: concurrent queries --------------------------------------------------------------
//
// A scenario class fixes what the goroutines share (nothing but the library's process-wide
// state / one document) and which engine features they use. Every goroutine compares what it
// gets with the result of the same query run alone beforehand. The binary is built with
// -race; each scenario runs in a child process so that a race report, a `concurrent map`
// fatal error, a deadlock or a crash is attributed to that scenario.

type scenario13 struct {
	Name     string
	Vary     bool // every goroutine's table has another length (the selector text is the same)
	Shared   bool // one document object read by every goroutine
	Fresh    bool // selector texts no goroutine has used before (cache insertions)
	SameText bool // round i uses table t_i in every goroutine: the same new statement text everywhere at the same time
	Typed    bool // the tables are typed Go slices ([]map[string]any) of different lengths that begin at one address (prefixes of one list)
	Refused  bool // every other goroutine runs the statement on a table whose rows are arrays: alone that is an error (the join
	// cannot merge such rows) - and next to it the healthy PARALLEL joins have to go on returning their rows
	Cold bool // nothing is evaluated before the goroutines start, and every round begins right after a
	// RegisterImmediateFunction (which has returned): whatever the library derives lazily from its registries
	// is derived by the concurrent queries themselves. The expectation is written down, not obtained from the library
	SQL     string // %s = table name
	Options []string
}

var scenarios13 = []scenario13{
	{Name: "separate-fresh-filter", Fresh: true, SQL: "SELECT a FROM %s WHERE a > 1"},
	{Name: "separate-cached-filter", SQL: "SELECT a FROM %s WHERE a > 1"},
	{Name: "separate-nestedpath", Fresh: true, SQL: "SELECT `n[(0:1)].p` AS p FROM %s WHERE a > 0"},
	{Name: "shared-filter", Shared: true, SQL: "SELECT a FROM %s WHERE a > 1"},
	{Name: "shared-projection", Shared: true, SQL: "SELECT a + 1 AS b, s FROM %s"},
	{Name: "shared-subquery", Shared: true, SQL: "SELECT a, (SELECT p FROM n WHERE p > 1) AS s FROM %s"},
	{Name: "shared-exists", Shared: true, SQL: "SELECT a FROM %s WHERE EXISTS (SELECT * FROM n WHERE p > a)"},
	{Name: "shared-insub", Shared: true, SQL: "SELECT a FROM %s WHERE a IN (SELECT c FROM `<-u`)"},
	{Name: "shared-cte", Shared: true, SQL: "WITH c AS (SELECT a FROM %s WHERE a > 1) SELECT * FROM c"},
	{Name: "shared-groupby", Shared: true, SQL: "SELECT g, COUNT(*) AS k, SUM(a) AS s FROM %s GROUP BY g"},
	{Name: "shared-orderby", Shared: true, SQL: "SELECT a, s FROM %s ORDER BY a DESC LIMIT 3"},
	{Name: "shared-wrapped", Shared: true, SQL: "SELECT a FROM root.%s WHERE a >= 2", Options: []string{"wrapped"}},
	{Name: "separate-paralleljoin", SQL: "SELECT * FROM %s x PARALLEL JOIN u y ON x.a <= y.c"},
	{Name: "shared-paralleljoin", Shared: true, SQL: "SELECT * FROM %s x PARALLEL LEFT HASH_JOIN u y ON x.a = y.c"},
	{Name: "separate-openrange", Vary: true, SQL: "SELECT a FROM `%s[(1:end)]`"},
	{Name: "separate-openrange-begin", Vary: true, SQL: "SELECT a FROM `%s[(begin:2)]` WHERE a > 0"},
	{Name: "separate-cte-path", SQL: "WITH c AS (SELECT a, n FROM %s) SELECT * FROM `c[0].n`"},
	{Name: "shared-cte-path", Shared: true, SQL: "WITH c AS (SELECT a, n FROM %s) SELECT p FROM `c[each].n[(0:1)]`"},
	{Name: "separate-subquery-async", SQL: "SELECT a, (SELECT ASYNC.slow(p) AS v FROM n) AS r FROM %s"},
	{Name: "shared-subquery-async", Shared: true, SQL: "SELECT a, (SELECT ASYNC.slow(p) AS v, SPINASYNC.slow(p) FROM n) AS r FROM %s"},
	{Name: "separate-derived-async", SQL: "SELECT * FROM (SELECT a, ASYNC.slow(a) AS v FROM %s) x"},
	{Name: "separate-async", SQL: "SELECT a, ASYNC.slow(a) AS v FROM %s"},
	{Name: "shared-star-orderby", Shared: true, SQL: "SELECT * FROM %s ORDER BY a DESC"},
	{Name: "shared-star", Shared: true, SQL: "SELECT * FROM %s"},
	{Name: "shared-star-limit", Shared: true, SQL: "SELECT * FROM %s LIMIT 2 OFFSET 1"},
	{Name: "shared-distinct-orderby", Shared: true, SQL: "SELECT DISTINCT g FROM %s ORDER BY g DESC"},
	{Name: "shared-unaliased-join", Shared: true, SQL: "SELECT * FROM %s JOIN u ON a = c"},
	{Name: "separate-typed-prefixes", Typed: true, SQL: "SELECT a FROM %s WHERE a > 0"},
	{Name: "refused-next-to-healthy", Refused: true, SQL: "SELECT * FROM %s x PARALLEL JOIN u y ON x.a >= y.c"},
	{Name: "cold-functions", Cold: true, SQL: "SELECT CONCAT(s, 'x') AS v, IF(a > 3, 'hi', 'lo') AS w FROM %s"},
	{Name: "cold-functions-shared", Cold: true, Shared: true, SQL: "SELECT TO_UPPER(s) AS v, ASYNC.slow(a) AS w FROM %s WHERE a < 3"},
	// one statement text in every goroutine at the same time (new texts round after round, so that whatever the library
	// keeps per text is built while the others are building theirs): USING joins and a WITH in front of a UNION are
	// rewritten while the query is built
	{Name: "sametext-using-join", SameText: true, SQL: "SELECT x.a, y.s FROM %[1]s x JOIN %[1]s y USING (a)"},
	{Name: "sametext-with-union", SameText: true, SQL: "WITH c AS (SELECT a FROM %[1]s) SELECT a FROM c UNION SELECT a FROM c WHERE a > 1"},
	{Name: "separate-with-union", SQL: "WITH c AS (SELECT a FROM %[1]s) SELECT a FROM c UNION ALL SELECT a FROM c WHERE a > 1"},
	{Name: "separate-using-join", SQL: "SELECT x.a, y.s FROM %[1]s x LEFT JOIN %[1]s y USING (a)"},
	// calls that run in goroutines of their own with arguments that register work of their own (subqueries, EXISTS)
	{Name: "separate-async-subquery-arg", SQL: "SELECT a, ASYNC.slow((SELECT MAX(p) AS m FROM n)) AS v, ASYNC.CONCAT((SELECT p FROM n WHERE p > 2), '!') AS w FROM %s"},
	{Name: "shared-async-subquery-arg", Shared: true, SQL: "SELECT a, ASYNC.CONCAT((SELECT p FROM n), '!') AS w, SPINASYNC.CONCAT((SELECT p FROM n), '?'), (SELECT p FROM n) AS ps FROM %s"},
	// the ON condition of a PARALLEL join is evaluated by one goroutine per key: an EXISTS in it leaves work for later
	{Name: "separate-paralleljoin-exists", SQL: "SELECT x.a, y.c FROM %s x PARALLEL JOIN u y ON x.a <= y.c AND EXISTS (SELECT * FROM `<-u` WHERE c > 4)"},
	{Name: "shared-paralleljoin-exists", Shared: true, SQL: "SELECT x.a, y.c FROM %s x PARALLEL LEFT JOIN u y ON x.a >= y.c AND NOT EXISTS (SELECT * FROM `<-u` WHERE c > 40)"},
	{Name: "shared-async", Shared: true, SQL: "SELECT a, ASYNC.slow(a) AS v, SPINASYNC.slow(a) FROM %s"},
}

func doc13(table string) map[string]any { return doc13n(table, 6) }

func doc13n(table string, n int) map[string]any {
	rows := []any{}
	for i := 1; i <= n; i++ {
		nested := []any{}
		for p := 1; p <= 1+i%3; p++ {
			nested = append(nested, map[string]any{"p": float64(p * 2)})
		}
		rows = append(rows, map[string]any{"a": float64(i), "g": float64(i % 2), "s": fmt.Sprintf("s%d", i), "n": nested})
	}
	return map[string]any{table: rows, "u": []any{map[string]any{"c": float64(2)}, map[string]any{"c": float64(5)}}}
}

func init() {
	genql.RegisterFunction("slow", func(q *genql.Query, cur genql.Map, fo *genql.FunctionOptions, args []any) (any, error) {
		time.Sleep(50 * time.Microsecond)
		f, _ := asFloat(args[0])
		return f * 10, nil
	})
}

// RunScenario13 is the child-process body: N goroutines x iters queries.
func RunScenario13(name string, n, iters int) int {
	var sc *scenario13
	for i := range scenarios13 {
		if scenarios13[i].Name == name {
			sc = &scenarios13[i]
		}
	}
	if sc == nil {
		fmt.Fprintln(os.Stderr, "unknown scenario", name)
		return 2
	}
	bag := strings.Contains(sc.SQL, "JOIN")
	expect := func(table string) []any {
		out := Run(doc13(table), fmt.Sprintf(sc.SQL, table), false, Opts(sc.Options, nil, nil)...)
		if out.Err != nil || out.Panic != nil {
			fmt.Fprintln(os.Stderr, "SEQUENTIAL-FAIL", out.Describe())
			os.Exit(3)
		}
		return out.Rows
	}
	if sc.Typed || sc.Refused {
		return runSpecial13(sc, n, iters)
	}
	shared := doc13("t")
	var wantShared []any
	if sc.Cold {
		for i := 1; i <= 6; i++ {
			switch sc.Name {
			case "cold-functions":
				wantShared = append(wantShared, map[string]any{"v": fmt.Sprintf("s%dx", i), "w": map[bool]string{true: "hi", false: "lo"}[i > 3]})
			case "cold-functions-shared":
				if i < 3 {
					wantShared = append(wantShared, map[string]any{"v": fmt.Sprintf("S%d", i), "w": float64(i * 10)})
				}
			}
		}
		return runCold13(sc, n, iters, shared, wantShared)
	}
	wantShared = expect("t")
	var mismatches int64
	var first atomic.Value
	var wg sync.WaitGroup
	start := make(chan struct{})
	for g := 0; g < n; g++ {
		wg.Add(1)
		go func(g int) {
			defer wg.Done()
			<-start
			for i := 0; i < iters; i++ {
				table := "t"
				if sc.Fresh {
					table = fmt.Sprintf("t_%d_%d_%s", g, i, strconv.FormatInt(time.Now().UnixNano()%1000, 36))
				}
				if sc.SameText {
					table = fmt.Sprintf("t_%d", i)
				}
				var doc map[string]any
				var want []any
				if sc.Shared {
					doc, want = shared, wantShared
				} else if sc.Vary {
					// same selector text, another array length in every goroutine: the expectation is written
					// down here, not obtained from the library (whose state an earlier evaluation may have bent)
					n := 3 + (g+i)%5
					doc = doc13n(table, n)
					want = []any{}
					lo, hi := 1, n
					if strings.Contains(sc.SQL, "begin:2") {
						lo, hi = 0, 2
					}
					for k := lo; k < hi; k++ {
						want = append(want, map[string]any{"a": float64(k + 1)})
					}
				} else {
					doc = doc13(table)
					want = wantShared
					if sc.Fresh || sc.SameText {
						want = nil
					}
				}
				out := Run(doc, fmt.Sprintf(sc.SQL, table), false, Opts(sc.Options, nil, nil)...)
				if want == nil {
					// a fresh table name: the rows are the same as for "t"
					want = wantShared
				}
				ok := out.Err == nil && out.Panic == nil
				if ok {
					if bag {
						ok = canonBag(out.Rows) == canonBag(want)
					} else {
						ok = Canon(any(out.Rows)) == Canon(any(want))
					}
				}
				if !ok {
					if atomic.AddInt64(&mismatches, 1) == 1 {
						first.Store(fmt.Sprintf("goroutine %d iteration %d: got %s, alone it returns %s", g, i, out.Describe(), Canon(any(want))))
					}
				}
			}
		}(g)
	}
	close(start)
	done := make(chan struct{})
	go func() { wg.Wait(); close(done) }()
	select {
	case <-done:
	case <-time.After(150 * time.Second):
		fmt.Fprintln(os.Stderr, "DEADLOCK-OR-HANG: goroutines did not finish within 150s")
		return 5
	}
	if !Equal(any(shared), any(doc13("t"))) {
		fmt.Fprintln(os.Stderr, "SHARED-DOCUMENT-MODIFIED")
		return 6
	}
	if mismatches > 0 {
		fmt.Fprintln(os.Stderr, "CROSSTALK", mismatches, first.Load())
		return 4
	}
	return 0
}

// runSpecial13: scenarios whose expectation is written down here, not obtained from the library
func runSpecial13(sc *scenario13, n, iters int) int {
	var mismatches int64
	var first atomic.Value
	note := func(format string, a ...any) {
		if atomic.AddInt64(&mismatches, 1) == 1 {
			first.Store(fmt.Sprintf(format, a...))
		}
	}
	list := make([]map[string]any, 12)
	for i := range list {
		list[i] = map[string]any{"a": float64(i + 1)}
	}
	var wg sync.WaitGroup
	start := make(chan struct{})
	for g := 0; g < n; g++ {
		wg.Add(1)
		go func(g int) {
			defer wg.Done()
			<-start
			for i := 0; i < iters; i++ {
				switch {
				case sc.Typed:
					k := 2 + (g+i)%9
					out := Run(map[string]any{"t": list[:k]}, fmt.Sprintf(sc.SQL, "t"), false)
					want := []any{}
					for j := 1; j <= k; j++ {
						want = append(want, map[string]any{"a": float64(j)})
					}
					if out.Err != nil || out.Panic != nil || Canon(any(out.Rows)) != Canon(any(want)) {
						note("goroutine %d iteration %d: a table of %d rows returned %s", g, i, k, out.Describe())
					}
				case sc.Refused && g%2 == 1:
					grid := []any{}
					for j := 0; j < 16; j++ {
						grid = append(grid, []any{map[string]any{"a": float64(j)}})
					}
					out := Run(map[string]any{"t": grid, "u": []any{map[string]any{"c": float64(1)}}}, "SELECT * FROM t PARALLEL JOIN u ON t.a >= u.c", false)
					if out.Panic != nil {
						note("goroutine %d iteration %d: panic escaped: %v", g, i, out.Panic)
					}
				default:
					doc := doc13("t")
					out := Run(doc, fmt.Sprintf(sc.SQL, "t"), false)
					// rows of t with a >= 2 meet c = 2, those with a >= 5 also c = 5: 5 + 2 pairs
					if out.Err != nil || out.Panic != nil || len(out.Rows) != 7 {
						note("goroutine %d iteration %d: the healthy join returned %s", g, i, out.Describe())
					}
				}
			}
		}(g)
	}
	close(start)
	done := make(chan struct{})
	go func() { wg.Wait(); close(done) }()
	select {
	case <-done:
	case <-time.After(150 * time.Second):
		fmt.Fprintln(os.Stderr, "DEADLOCK-OR-HANG: goroutines did not finish within 150s")
		return 5
	}
	if mismatches > 0 {
		fmt.Fprintln(os.Stderr, "CROSSTALK", mismatches, first.Load())
		return 4
	}
	return 0
}

// runCold13: rounds of { RegisterImmediateFunction ; n goroutines x 2 queries }, nothing evaluated in between
func runCold13(sc *scenario13, n, iters int, shared map[string]any, want []any) int {
	var mismatches int64
	var first atomic.Value
	rounds := iters/4 + 1
	for round := 0; round < rounds; round++ {
		genql.RegisterImmediateFunction(fmt.Sprintf("cold13_%d", round), func(q *genql.Query, cur genql.Map, fo *genql.FunctionOptions, args []any) (any, error) {
			return nil, nil
		})
		var wg sync.WaitGroup
		start := make(chan struct{})
		for g := 0; g < n; g++ {
			wg.Add(1)
			go func(g int) {
				defer wg.Done()
				<-start
				for i := 0; i < 2; i++ {
					doc := shared
					if !sc.Shared {
						doc = doc13("t")
					}
					out := Run(doc, fmt.Sprintf(sc.SQL, "t"), false, Opts(sc.Options, nil, nil)...)
					if out.Err != nil || out.Panic != nil || Canon(any(out.Rows)) != Canon(any(want)) {
						if atomic.AddInt64(&mismatches, 1) == 1 {
							first.Store(fmt.Sprintf("round %d goroutine %d: got %s, expected %s", round, g, out.Describe(), Canon(any(want))))
						}
					}
				}
			}(g)
		}
		close(start)
		done := make(chan struct{})
		go func() { wg.Wait(); close(done) }()
		select {
		case <-done:
		case <-time.After(150 * time.Second):
			fmt.Fprintln(os.Stderr, "DEADLOCK-OR-HANG: goroutines did not finish within 150s")
			return 5
		}
	}
	if !Equal(any(shared), any(doc13("t"))) {
		fmt.Fprintln(os.Stderr, "SHARED-DOCUMENT-MODIFIED")
		return 6
	}
	if mismatches > 0 {
		fmt.Fprintln(os.Stderr, "CROSSTALK", mismatches, first.Load())
		return 4
	}
	return 0
}

func init() {
	Drivers["C13:race"] = func(emit func(Verdict)) {
		self, _ := os.Executable()
		ns := []int{2, 4, 8}
		iters := 60
		if Tier == "thorough" {
			ns = []int{2, 3, 4, 8, 16}
			iters = 300
		}
		var mu sync.Mutex
		var wg sync.WaitGroup
		sem := make(chan struct{}, runtime.NumCPU()/2+1)
		for _, sc := range scenarios13 {
			for _, n := range ns {
				wg.Add(1)
				go func(sc scenario13, n int) {
					defer wg.Done()
					sem <- struct{}{}
					defer func() { <-sem }()
					cmd := exec.Command(self, "-p", "C13", "-mode", "scenario", "-scenario", sc.Name, "-n", fmt.Sprint(n), "-iters", fmt.Sprint(iters))
					cmd.Env = append(os.Environ(), "GORACE=halt_on_error=1 exitcode=66")
					var stderr bytes.Buffer
					cmd.Stderr = &stderr
					done := make(chan error, 1)
					cmd.Start()
					go func() { done <- cmd.Wait() }()
					var err error
					select {
					case err = <-done:
					case <-time.After(6 * time.Minute):
						cmd.Process.Kill()
						err = fmt.Errorf("timeout")
					}
					sig := []string{"scenario:" + sc.Name}
					if sc.Shared {
						sig = append(sig, "shared-document")
					} else {
						sig = append(sig, "separate-documents")
					}
					if sc.Fresh {
						sig = append(sig, "fresh-selectors")
					}
					desc := fmt.Sprintf("%d goroutines x %d: %s", n, iters, fmt.Sprintf(sc.SQL, "t"))
					v := Verdict{OK: true, SQL: desc, Sig: sig, Execs: n * iters, Nontrivial: true, Key: sc.Name + "/" + fmt.Sprint(n)}
					se := stderr.String()
					switch {
					case err == nil:
					case strings.Contains(se, "DATA RACE"):
						v = fail("race", desc, sig, "%s", tailStr(firstRace(se), 1800))
					case strings.Contains(se, "fatal error: concurrent map"):
						v = fail("crash", desc, sig, "%s", tailStr(se, 1200))
					case strings.Contains(se, "CROSSTALK"):
						v = fail("crosstalk", desc, sig, "%s", tailStr(se, 1200))
					case strings.Contains(se, "SHARED-DOCUMENT-MODIFIED"):
						v = fail("docmut", desc, sig, "the shared document differs after the run")
					case strings.Contains(se, "DEADLOCK-OR-HANG") || err.Error() == "timeout":
						v = fail("hang", desc, sig, "%s", tailStr(se, 600))
					case strings.Contains(se, "SEQUENTIAL-FAIL"):
						v = Verdict{OK: false, Kind: "harness", Detail: "scenario query fails even alone: " + tailStr(se, 400)}
					default:
						v = fail("crash", desc, sig, "child process ended with %v: %s", err, tailStr(se, 1200))
					}
					v.Key = sc.Name + "/" + fmt.Sprint(n)
					v.Case = Node{"scenario": sc.Name, "n": n, "iters": iters}
					mu.Lock()
					emit(v)
					mu.Unlock()
				}(sc, n)
			}
		}
		wg.Wait()
	}
}

func tailStr(s string, n int) string {
	if len(s) > n {
		return s[:n] + "..."
	}
	return s
}

func firstRace(s string) string {
	i := strings.Index(s, "WARNING: DATA RACE")
	if i < 0 {
		return s
	}
	return s[i:]
}

var _ = json.Marshal

// ---- Leg T: the cache protocol hook, with the lock fact, under free-running goroutines ------

func goid() int {
	var buf [64]byte
	n := runtime.Stack(buf[:], false)
	f := strings.Fields(string(buf[:n]))
	if len(f) >= 2 {
		id, _ := strconv.Atoi(f[1])
		return id
	}
	return -1
}

func init() {
	TraceGen["C13"] = func(seed int64, n int, tier string, w io.Writer) TraceInfo {
		enc := json.NewEncoder(w)
		info := TraceInfo{}
		var mu sync.Mutex
		var events []Node
		gids := map[int]int{}
		genql.VerifCache = func(ev string, selector string, held bool) {
			id := goid()
			mu.Lock()
			if _, ok := gids[id]; !ok {
				gids[id] = len(gids) + 1
			}
			events = append(events, Node{"g": gids[id], "ev": ev, "sel": selector, "held": held})
			mu.Unlock()
		}
		defer func() { genql.VerifCache = nil }()
		for run := 0; run < n; run++ {
			mu.Lock()
			events = events[:0]
			gids = map[int]int{}
			mu.Unlock()
			goroutines := 2 + (run+int(seed))%7
			doc := doc13("t")
			var wg sync.WaitGroup
			start := make(chan struct{})
			for g := 0; g < goroutines; g++ {
				wg.Add(1)
				go func(g int) {
					defer wg.Done()
					<-start
					for i := 0; i < 6; i++ {
						// fresh texts (never seen by the library's cache) and texts shared between goroutines
						texts := []string{fmt.Sprintf("t[%d].a::'r%ds%dg%di%d'", i%6, run, seed, g, i), fmt.Sprintf("t[each].n[(0:1)].p::'r%ds%d'", run, seed), "t[0].a"}
						genql.ExecReader(doc, texts[i%3])
					}
				}(g)
			}
			close(start)
			wg.Wait()
			mu.Lock()
			enc.Encode(Node{"ev": "begin"})
			for _, e := range events {
				enc.Encode(e)
			}
			info.Events += len(events) + 1
			mu.Unlock()
			info.Queries++
		}
		info.Samples = []string{"N goroutines x ExecReader(doc, fresh / shared selector texts) with the cache hook recording lock / store / read / unlock and the TryLock fact"}
		return info
	}
}
