package h

import (
	"encoding/json"
	"fmt"
	"io"
	"math/rand"
	"sort"
	"strings"
	"sync"
	"sync/atomic"
	"time"

	"github.com/vedadiyan/genql"
)

// ---- harness-owned functions for C14 -----------------------------------------------------
//
//   mark(a)      unqualified, first select item: gates the main goroutine at the start of row a
//   af(a, i)     the qualified function (ASYNC / SPINASYNC / SPIN), i = select-list position:
//                arrives, waits for its start gate, waits for its finish gate, returns a*10
//   sf(a)        an unqualified call: a*10          of(a)   the ONCE function: a*10
//   imm(a)       registered as immediate
//   ff(a, k)     an unqualified call that fails for a = k: a*10 otherwise
//
// One scenario at a time per process.

type callID struct{ row, item int }

type asyncRun struct {
	id       int
	mu       sync.Mutex
	gated    bool
	arrived  map[callID]chan struct{} // closed when the function body is entered
	startG   map[callID]chan struct{}
	finishG  map[callID]chan struct{}
	finished map[callID]bool
	inv      map[callID]int
	markAt   map[int]chan struct{} // closed when the main goroutine reaches mark(row)
	markG    map[int]chan struct{}
	onceInv  int
	seq      int64
	events   []Node
	latency  func(c callID) time.Duration
}

var cur14 atomic.Pointer[asyncRun]

func (r *asyncRun) ch(m map[callID]chan struct{}, c callID) chan struct{} {
	r.mu.Lock()
	defer r.mu.Unlock()
	if m[c] == nil {
		m[c] = make(chan struct{})
	}
	return m[c]
}

func (r *asyncRun) mch(m map[int]chan struct{}, i int) chan struct{} {
	r.mu.Lock()
	defer r.mu.Unlock()
	if m[i] == nil {
		m[i] = make(chan struct{})
	}
	return m[i]
}

func (r *asyncRun) log(e Node) {
	r.mu.Lock()
	r.seq++
	e["seq"] = r.seq
	r.events = append(r.events, e)
	r.mu.Unlock()
}

func newAsyncRun(gated bool) *asyncRun {
	return &asyncRun{gated: gated, arrived: map[callID]chan struct{}{}, startG: map[callID]chan struct{}{}, finishG: map[callID]chan struct{}{},
		finished: map[callID]bool{}, inv: map[callID]int{}, markAt: map[int]chan struct{}{}, markG: map[int]chan struct{}{}}
}

func argInt(v any) int {
	f, _ := asFloat(v)
	return int(f)
}

func init() {
	genql.RegisterFunction("mark", func(q *genql.Query, cur genql.Map, fo *genql.FunctionOptions, args []any) (any, error) {
		r := cur14.Load()
		if r == nil || len(args) != 1 {
			return nil, fmt.Errorf("mark: no scenario")
		}
		row := argInt(args[0])
		r.log(Node{"ev": "row", "r": row})
		if r.gated {
			close(r.mch(r.markAt, row))
			<-r.mch(r.markG, row)
		}
		return args[0], nil
	})
	genql.RegisterFunction("af", func(q *genql.Query, cur genql.Map, fo *genql.FunctionOptions, args []any) (any, error) {
		r := cur14.Load()
		if r == nil || len(args) != 3 || argInt(args[2]) != r.id {
			return nil, fmt.Errorf("af: no scenario") // a SPIN call outliving its query
		}
		c := callID{argInt(args[0]), argInt(args[1])}
		r.mu.Lock()
		r.inv[c]++
		r.mu.Unlock()
		r.log(Node{"ev": "start", "r": c.row, "i": c.item})
		if r.gated {
			close(r.ch(r.arrived, c))
			<-r.ch(r.startG, c)
			<-r.ch(r.finishG, c)
		} else if r.latency != nil {
			time.Sleep(r.latency(c))
		}
		r.mu.Lock()
		r.finished[c] = true
		r.mu.Unlock()
		r.log(Node{"ev": "finish", "r": c.row, "i": c.item})
		return float64(c.row * 10), nil
	})
	genql.RegisterFunction("sf", func(q *genql.Query, cur genql.Map, fo *genql.FunctionOptions, args []any) (any, error) {
		return float64(argInt(args[0]) * 10), nil
	})
	genql.RegisterFunction("ff", func(q *genql.Query, cur genql.Map, fo *genql.FunctionOptions, args []any) (any, error) {
		if len(args) == 2 && argInt(args[0]) == argInt(args[1]) {
			return nil, fmt.Errorf("ff: row %d fails", argInt(args[0]))
		}
		return float64(argInt(args[0]) * 10), nil
	})
	genql.RegisterFunction("of", func(q *genql.Query, cur genql.Map, fo *genql.FunctionOptions, args []any) (any, error) {
		if r := cur14.Load(); r != nil {
			r.mu.Lock()
			r.onceInv++
			r.mu.Unlock()
		}
		return float64(argInt(args[0]) * 10), nil
	})
	genql.RegisterFunction("ofn", func(q *genql.Query, cur genql.Map, fo *genql.FunctionOptions, args []any) (any, error) {
		if r := cur14.Load(); r != nil {
			r.mu.Lock()
			r.onceInv++
			r.mu.Unlock()
		}
		return nil, nil // a ONCE function whose result is NULL
	})
	genql.RegisterImmediateFunction("imm", func(q *genql.Query, cur genql.Map, fo *genql.FunctionOptions, args []any) (any, error) {
		return float64(argInt(args[0]) * 10), nil
	})
}

var runCounter int

// placement wraps the select list into a nested query: "" (top level), "derived", "cte", and a derived
// table as the left / right side of a join with the table u (k = 1..n); "limit0" / "offsetall" cut the window to nothing
func placed(inner, placement string) string {
	switch placement {
	case "limit0":
		return inner + " LIMIT 0"
	case "offsetall":
		return inner + " LIMIT 5 OFFSET 7"
	case "joinboth":
		// below the top level, both sides derived tables with ASYNC calls of their own
		return "SELECT * FROM (SELECT * FROM (" + inner + ") x JOIN (SELECT k, ASYNC.sf(k) AS w FROM u) y ON x.m = y.k) z"
	case "joinleft":
		return "SELECT * FROM (" + inner + ") x JOIN u y ON x.m = y.k"
	case "joinright":
		return "SELECT * FROM u y JOIN (" + inner + ") x ON y.k = x.m"
	case "derived":
		return "SELECT * FROM (" + inner + ") x"
	case "cte":
		return "WITH c AS (" + inner + ") SELECT * FROM c"
	}
	return inner
}

func placedWant(rows []any, placement string) []any {
	out := []any{}
	switch placement {
	case "limit0", "offsetall":
	case "dim2":
		k := (len(rows) + 1) / 2
		return []any{append([]any{}, rows[:k]...), append([]any{}, rows[k:]...)}
	case "derived":
		for _, r := range rows {
			out = append(out, map[string]any{"x": r})
		}
	case "joinleft", "joinright":
		for _, r := range rows {
			out = append(out, map[string]any{"x": r, "y": map[string]any{"k": r.(map[string]any)["m"]}})
		}
	case "joinboth":
		for _, r := range rows {
			m := r.(map[string]any)["m"].(float64)
			out = append(out, map[string]any{"z": map[string]any{"x": r, "y": map[string]any{"k": m, "w": m * 10}}})
		}
	default:
		return rows
	}
	return out
}

// join output order is not part of the claim: rows are put in the order of x.m
func byXM(rows []any) []any {
	out := append([]any{}, rows...)
	key := func(r any) float64 {
		if m, ok := r.(map[string]any); ok {
			if x, ok := m["x"].(map[string]any); ok {
				f, _ := asFloat(x["m"])
				return f
			}
		}
		return -1
	}
	sort.SliceStable(out, func(i, j int) bool { return key(out[i]) < key(out[j]) })
	return out
}

func asyncSQL(items []string, run int) string { return asyncSQLf(items, run, 0) }

func asyncSQLf(items []string, run, failrow int) string {
	parts := []string{"mark(a) AS m"}
	for i, k := range items {
		n := i + 1
		switch k {
		case "col":
			parts = append(parts, fmt.Sprintf("a * 10 AS c%d", n))
		case "sync":
			parts = append(parts, fmt.Sprintf("sf(a) AS c%d", n))
		case "fail":
			parts = append(parts, fmt.Sprintf("ff(a, %d) AS c%d", failrow, n))
		case "async":
			parts = append(parts, fmt.Sprintf("ASYNC.af(a, %d, %d) AS c%d", n, run, n))
		case "spinasync":
			parts = append(parts, fmt.Sprintf("SPINASYNC.af(a, %d, %d) AS c%d", n, run, n))
		case "spin":
			parts = append(parts, fmt.Sprintf("SPIN.af(a, %d, %d) AS c%d", n, run, n))
		case "once":
			parts = append(parts, fmt.Sprintf("ONCE.of(a) AS c%d", n))
		case "oncenull":
			parts = append(parts, fmt.Sprintf("ONCE.ofn(a) AS c%d", n))
		case "oncearg":
			// 1 on the first row, a division by zero on the second: read for the one invocation only
			parts = append(parts, fmt.Sprintf("ONCE.of(a / (2 - a)) AS c%d", n))
		}
	}
	return "SELECT " + strings.Join(parts, ", ") + " FROM t"
}

func asyncDoc(nrows int) map[string]any {
	rows, u := []any{}, []any{}
	for i := 1; i <= nrows; i++ {
		rows = append(rows, map[string]any{"a": float64(i)})
		u = append(u, map[string]any{"k": float64(i)})
	}
	return map[string]any{"t": rows, "u": u}
}

// expected output rows per Async.tla at Return
func asyncWant(items []string, nrows int) []any {
	rows := []any{}
	for r := 1; r <= nrows; r++ {
		row := map[string]any{"m": float64(r)}
		for i, k := range items {
			key := fmt.Sprintf("c%d", i+1)
			switch k {
			case "col", "sync", "async", "fail":
				row[key] = float64(r * 10)
			case "once", "oncearg":
				row[key] = float64(10)
			case "oncenull":
				row[key] = nil
			}
		}
		rows = append(rows, row)
	}
	return rows
}

const stepTimeout = 30 * time.Second // generous: the machine may be busy; a step that never comes stays away however long one waits

func waitCh(ch chan struct{}) bool {
	select {
	case <-ch:
		return true
	case <-time.After(stepTimeout):
		return false
	}
}

type execResult struct {
	rows []any
	err  error
	pan  any
}

func checkAsyncOutcome(r *asyncRun, items []string, nrows int, res execResult, sql string, sig []string, placement string, failrow int) *Verdict {
	if res.pan != nil {
		v := fail("panic", sql, sig, "panic escaped the API: %v", res.pan)
		return &v
	}
	if failrow > 0 {
		// the query fails at row failrow: every call it got to has completed, none ran twice
		if res.err == nil {
			v := fail("noerror", sql, sig, "the failing call of row %d did not fail the query: %s", failrow, Canon(any(res.rows)))
			return &v
		}
		r.mu.Lock()
		defer r.mu.Unlock()
		for c, n := range r.inv {
			k := items[c.item-1]
			if n > 1 {
				v := fail("invocations", sql, sig, "%s call of row %d was invoked %d times", k, c.row, n)
				return &v
			}
			if (k == "async" || k == "spinasync") && !r.finished[c] {
				v := fail("incomplete", sql, sig, "Exec returned its error while the %s call of row %d had not completed", k, c.row)
				return &v
			}
		}
		return nil
	}
	if res.err != nil {
		v := fail("error", sql, sig, "Exec failed: %v", res.err)
		return &v
	}
	r.mu.Lock()
	defer r.mu.Unlock()
	for i, k := range items {
		for row := 1; row <= nrows; row++ {
			c := callID{row, i + 1}
			switch k {
			case "async", "spinasync":
				if r.inv[c] != 1 {
					v := fail("invocations", sql, sig, "%s call of row %d was invoked %d times when Exec returned", k, row, r.inv[c])
					return &v
				}
				if !r.finished[c] {
					v := fail("incomplete", sql, sig, "Exec returned while the %s call of row %d had not completed", k, row)
					return &v
				}
			case "spin":
				if r.inv[c] > 1 {
					v := fail("invocations", sql, sig, "spin call of row %d was invoked %d times", row, r.inv[c])
					return &v
				}
			}
		}
		if (k == "once" || k == "oncenull" || k == "oncearg") && r.onceInv != 1 && nrows > 0 {
			v := fail("invocations", sql, sig, "the ONCE function was invoked %d times in one query", r.onceInv)
			return &v
		}
	}
	want := placedWant(asyncWant(items, nrows), placement)
	if placement == "joinboth" {
		// order by z.x.m
		unwrapped := []any{}
		for _, r := range res.rows {
			if m, ok := r.(map[string]any); ok {
				unwrapped = append(unwrapped, m["z"])
			}
		}
		sorted := byXM(unwrapped)
		res.rows = []any{}
		for _, r := range sorted {
			res.rows = append(res.rows, map[string]any{"z": r})
		}
	} else if strings.HasPrefix(placement, "join") {
		res.rows = byXM(res.rows)
	}
	if !Equal(any(res.rows), any(want)) {
		v := fail("result", sql, sig, "rows when Exec returned: want %s got %s", Canon(any(want)), Canon(any(res.rows)))
		return &v
	}
	return nil
}

// checkC14: force one exported schedule of Async.tla onto the real engine.
func checkC14(c Node) Verdict {
	if c["hist"] != nil {
		return checkRegistry(c)
	}
	placements := []string{""}
	if n, _ := c["nested"].(bool); n {
		placements = []string{"derived", "cte", "joinleft", "joinright", "joinboth"}
	}
	if c["window"] == "empty" {
		placements = []string{"limit0", "offsetall"}
	}
	if n, _ := c["nested"].(bool); !n && c["window"] != "empty" && num(c["failrow"]) == 0 && num(c["nrows"]) >= 2 {
		once := false
		for _, k := range strs(c["items"]) {
			once = once || k == "once" || k == "oncenull" || k == "oncearg"
		}
		if !once {
			// the same rows as a two-dimensional table: every inner array is evaluated by a copy of the query, whose
			// pending calls the query has to wait for just the same
			placements = append(placements, "dim2")
		}
	}
	var v Verdict
	for _, p := range placements {
		v = checkC14Placed(c, p)
		if !v.OK {
			return v
		}
	}
	v.Execs = len(placements)
	return v
}

func checkC14Placed(c Node, placement string) Verdict {
	items := strs(c["items"])
	nrows := int(num(c["nrows"]))
	failrow := int(num(c["failrow"]))
	runCounter++
	sql := placed(asyncSQLf(items, runCounter, failrow), placement)
	sig := []string{"schedule", "placement:" + placement}
	if failrow > 0 {
		sig = append(sig, "failing")
	}
	for _, k := range items {
		sig = append(sig, "kind:"+k)
	}
	r := newAsyncRun(true)
	r.id = runCounter
	cur14.Store(r)
	defer cur14.Store(nil)
	done := make(chan execResult, 1)
	go func() {
		var res execResult
		defer func() {
			if p := recover(); p != nil {
				res.pan = p
			}
			done <- res
		}()
		doc := asyncDoc(nrows)
		if placement == "dim2" {
			rows := doc["t"].([]any)
			k := (len(rows) + 1) / 2
			doc["t"] = []any{append([]any{}, rows[:k]...), append([]any{}, rows[k:]...)}
		}
		q, err := genql.New(doc, sql)
		if err != nil {
			res.err = err
			return
		}
		res.rows, res.err = q.Exec()
	}()
	v := Verdict{OK: true, SQL: sql, Sig: sig, Execs: 1, Nontrivial: true}
	counted := func(cid callID) bool { k := items[cid.item-1]; return k == "async" || k == "spinasync" }
	released := map[callID]bool{}
	var early *execResult
	returnedEarly := func() bool {
		// has Exec returned although a counted call has not been allowed to finish?
		time.Sleep(150 * time.Microsecond)
		select {
		case res := <-done:
			early = &res
			return true
		default:
			return false
		}
	}
	cleanup := func() {
		// let every goroutine go, so that nothing leaks into the next case
		for row := 1; row <= nrows; row++ {
			func() {
				defer func() { recover() }()
				close(r.mch(r.markG, row))
			}()
			for i := range items {
				cid := callID{row, i + 1}
				for _, m := range []map[callID]chan struct{}{r.startG, r.finishG} {
					func() {
						defer func() { recover() }()
						close(r.ch(m, cid))
					}()
				}
			}
		}
	}
	defer cleanup()
	// the counted calls this schedule gets to (a failing row cuts the rest off)
	toFinish := map[callID]bool{}
	for _, e := range seq(c["sched"]) {
		if e := e.(Node); e["ev"] == "finish" {
			toFinish[callID{int(num(e["r"])), int(num(e["i"]))}] = true
		}
	}
	pendingCounted := func() bool {
		for cid := range toFinish {
			if counted(cid) && !released[cid] {
				return true
			}
		}
		return false
	}
	for _, e := range seq(c["sched"]) {
		e := e.(Node)
		if e["ev"] != "return" && pendingCounted() && returnedEarly() {
			return fail("incomplete", sql, sig, "Exec returned (%s) while ASYNC / SPINASYNC calls were still held unfinished; schedule step %v", describeExec(*early), e)
		}
		switch e["ev"] {
		case "row":
			row := int(num(e["r"]))
			if !waitCh(r.mch(r.markAt, row)) {
				return fail("stuck", sql, sig, "the main goroutine never reached row %d", row)
			}
			close(r.mch(r.markG, row))
			if row < nrows && row != failrow && !waitCh(r.mch(r.markAt, row+1)) {
				return fail("stuck", sql, sig, "the main goroutine never reached row %d after row %d", row+1, row)
			}
		case "start":
			cid := callID{int(num(e["r"])), int(num(e["i"]))}
			if !waitCh(r.ch(r.arrived, cid)) {
				return fail("stuck", sql, sig, "the %s call of row %d was never invoked", items[cid.item-1], cid.row)
			}
			close(r.ch(r.startG, cid))
		case "finish":
			cid := callID{int(num(e["r"])), int(num(e["i"]))}
			released[cid] = true
			close(r.ch(r.finishG, cid))
			// wait until the function has really returned before the next step
			deadline := time.Now().Add(stepTimeout)
			for {
				r.mu.Lock()
				f := r.finished[cid]
				r.mu.Unlock()
				if f {
					break
				}
				if time.Now().After(deadline) {
					return Verdict{OK: false, Kind: "harness", Detail: "finish gate released but the function did not return"}
				}
				time.Sleep(20 * time.Microsecond)
			}
		case "return":
			select {
			case res := <-done:
				if bad := checkAsyncOutcome(r, items, nrows, res, sql, sig, placement, failrow); bad != nil {
					return *bad
				}
			case <-time.After(stepTimeout):
				return fail("hang", sql, sig, "every ASYNC / SPINASYNC call has completed but Exec does not return")
			}
		}
	}
	return v
}

func describeExec(r execResult) string {
	if r.pan != nil {
		return fmt.Sprintf("panic %v", r.pan)
	}
	if r.err != nil {
		return fmt.Sprintf("error %v", r.err)
	}
	return Canon(any(r.rows))
}

// ---- Leg T: free-running goroutines with per-call latencies, events recorded ------------------

func init() {
	Replay["C14"] = checkC14
	TraceGen["C14"] = func(seed int64, n int, tier string, w io.Writer) TraceInfo {
		g := rand.New(rand.NewSource(seed))
		configs := [][]string{{"col", "async"}, {"async", "spinasync", "sync"}, {"once", "async", "spin"}, {"async", "col", "async"}, {"spinasync", "async", "async", "once"},
			{"async", "fail", "spinasync"}, {"spinasync", "async", "fail"}}
		items := configs[int(seed)%len(configs)]
		nrows := 2 + int(seed/7)%5
		failrow := 0
		if int(seed)%len(configs) >= 5 {
			failrow = 1 + int(seed/3)%nrows
		}
		window, empty := "", "FALSE"
		if failrow == 0 && int(seed/2)%3 == 0 {
			window, empty = []string{" LIMIT 0", " LIMIT 3 OFFSET 9"}[int(seed)%2], "TRUE"
		}
		enc := json.NewEncoder(w)
		info := TraceInfo{}
		sql := ""
		for k := 0; k < n; k++ {
			runCounter++
			sql = asyncSQLf(items, runCounter, failrow) + window
			r := newAsyncRun(false)
			r.id = runCounter
			mode := g.Intn(3)
			r.latency = func(c callID) time.Duration {
				switch mode {
				case 0:
					return 0
				case 1: // skewed: early rows are slow
					return time.Duration((nrows-c.row)*150) * time.Microsecond
				}
				r.mu.Lock() // g is not safe for concurrent use
				defer r.mu.Unlock()
				return time.Duration(g.Intn(400)) * time.Microsecond
			}
			cur14.Store(r)
			res := execResult{}
			func() {
				defer func() {
					if p := recover(); p != nil {
						res.pan = p
					}
				}()
				q, err := genql.New(asyncDoc(nrows), sql)
				if err != nil {
					res.err = err
					return
				}
				res.rows, res.err = q.Exec()
			}()
			r.log(Node{"ev": "ret", "ok": res.err == nil && res.pan == nil, "rows": ToTagged(any(res.rows)).(Node)["e"]})
			r.mu.Lock()
			enc.Encode(Node{"ev": "begin", "seq": 0})
			for _, e := range r.events {
				enc.Encode(e)
			}
			info.Events += len(r.events) + 1
			r.mu.Unlock()
			cur14.Store(nil)
			info.Queries++
			// SPIN calls may still run: give them a moment so that their events do not leak into the next run
			time.Sleep(500 * time.Microsecond)
		}
		info.Samples = []string{sql}
		info.Cfg = fmt.Sprintf("SPECIFICATION TraceSpec\nCONSTANTS\n  NRows = %d\n  Items <- %s\n  Dev_AddInGoroutine = FALSE\n  Nested = FALSE\n  Dev_NoChain = FALSE\n  FailRow = %d\n  Dev_NoWaitOnError = FALSE\n  EmptyWindow = %s\n  Dev_NoWaitWhenEmpty = FALSE\nPOSTCONDITION Summary\nCHECK_DEADLOCK FALSE\n", nrows, fmt.Sprintf("Items%d", int(seed)%len(configs)), failrow, empty)
		return info
	}
}

// immediate functions reject ASYNC, SPIN and SPINASYNC with an error
func init() {
	Drivers["C14:immediate"] = func(emit func(Verdict)) {
		for _, fn := range []string{"imm", "sum", "to_upper", "getvar", "raise", "constant", "timestamp", "fuse", "daterange"} {
			for _, qual := range []string{"ASYNC", "SPIN", "SPINASYNC"} {
				sql := fmt.Sprintf("SELECT a, %s.%s(a) AS v FROM t", qual, fn)
				out := Run(asyncDoc(2), sql, false)
				v := Verdict{OK: true, SQL: sql, Sig: []string{"immediate", "qual:" + strings.ToLower(qual)}, Execs: 1, Nontrivial: true, Key: sql, Case: Node{"sql": sql}}
				if out.Panic != nil {
					v = fail("panic", sql, v.Sig, "panic escaped the API: %v", out.Panic)
				} else if out.Err == nil {
					v = fail("noerror", sql, v.Sig, "an immediate function was accepted under %s: %s", qual, Canon(any(out.Rows)))
				}
				v.Key = sql
				v.Case = Node{"sql": sql}
				emit(v)
			}
		}
	}
}

// ---- the function registry (Registry.tla): every registration history, replayed ------------------

var regCounter int

// checkRegistry replays one exported history of Registry.tla on the process-wide registry (names made
// unique per case) and, after every registration, asks the real engine what the specification answers.
func checkRegistry(c Node) Verdict {
	regCounter++
	uniq := func(n string) string { return fmt.Sprintf("rg%d_%s", regCounter, n) }
	counters := map[string]*atomic.Int64{} // per name: SPIN calls of another name may still be running
	v := Verdict{OK: true, Sig: []string{"registry"}, Nontrivial: true}
	doc := func() map[string]any {
		return map[string]any{"t": []any{map[string]any{"a": float64(1)}, map[string]any{"a": float64(2)}}}
	}
	for step, e := range seq(c["hist"]) {
		e := e.(Node)
		id := int(num(e["id"]))
		name := uniq(e["name"].(string))
		if counters[name] == nil {
			counters[name] = new(atomic.Int64)
		}
		invoked := counters[name]
		fn := func(q *genql.Query, cur genql.Map, fo *genql.FunctionOptions, args []any) (any, error) {
			invoked.Add(1)
			return float64(id*100 + argInt(args[0])), nil
		}
		if e["op"] == "imm" {
			genql.RegisterImmediateFunction(name, fn)
			v.Sig = append(v.Sig, "reg:imm")
		} else {
			genql.RegisterFunction(name, fn)
			v.Sig = append(v.Sig, "reg:plain")
		}
		after := e["after"].(Node)
		for n, a := range after {
			a := a.(Node)
			status := a["status"].(string)
			if status == "unknown" {
				continue
			}
			impl := int(num(a["impl"]))
			want := []any{map[string]any{"v": float64(impl*100 + 1)}, map[string]any{"v": float64(impl*100 + 2)}}
			plain := fmt.Sprintf("SELECT %s(a) AS v FROM t", uniq(n))
			base := Run(doc(), plain, false)
			v.Execs++
			if base.Panic != nil {
				return fail("panic", plain, v.Sig, "step %d: panic escaped the API: %v", step+1, base.Panic)
			}
			if base.Err != nil || !Equal(any(base.Rows), any(want)) {
				// which registration provides the implementation is not part of C14
				v.Drift = fmt.Sprintf("step %d: %s: want the latest implementation's %s got %s err=%v", step+1, plain, Canon(any(want)), Canon(any(base.Rows)), base.Err)
				continue
			}
			invoked := counters[uniq(n)]
			for _, qual := range []string{"ASYNC", "SPIN", "SPINASYNC"} {
				sql := fmt.Sprintf("SELECT %s.%s(a) AS v FROM t", qual, uniq(n))
				before := invoked.Load()
				out := Run(doc(), sql, false)
				v.Execs++
				sig := append(append([]string{}, v.Sig...), "qual:"+strings.ToLower(qual), "status:"+status)
				if out.Panic != nil {
					return fail("panic", sql, sig, "step %d: panic escaped the API: %v", step+1, out.Panic)
				}
				switch status {
				case "rejects":
					if out.Err == nil {
						return fail("noerror", sql, sig, "step %d of %s: a function whose latest registration is immediate was accepted under %s: %s", step+1, histText(c, step+1), qual, Canon(any(out.Rows)))
					}
					time.Sleep(200 * time.Microsecond)
					if invoked.Load() != before {
						return fail("invocations", sql, sig, "step %d of %s: the rejected %s call ran the function", step+1, histText(c, step+1), qual)
					}
				case "sticky":
					if out.Err == nil {
						v.Drift = fmt.Sprintf("step %d: %s accepted although the name was once registered as immediate (the code keeps it on the list)", step+1, sql)
					}
				case "runs":
					if out.Err != nil {
						return fail("error", sql, sig, "step %d of %s: a function never registered as immediate was rejected under %s: %v", step+1, histText(c, step+1), qual, out.Err)
					}
					if qual == "ASYNC" && !Equal(any(out.Rows), any(want)) {
						return fail("result", sql, sig, "step %d of %s: ASYNC value differs from the unqualified call: want %s got %s", step+1, histText(c, step+1), Canon(any(want)), Canon(any(out.Rows)))
					}
					if qual != "ASYNC" && !Equal(any(out.Rows), any([]any{map[string]any{}, map[string]any{}})) {
						return fail("result", sql, sig, "step %d of %s: %s added a column: %s", step+1, histText(c, step+1), qual, Canon(any(out.Rows)))
					}
					// once per row (a SPIN call may still be on its way)
					for deadline := time.Now().Add(stepTimeout); qual == "SPIN" && invoked.Load() < before+2 && time.Now().Before(deadline); {
						time.Sleep(50 * time.Microsecond)
					}
					if got := invoked.Load() - before; got != 2 {
						return fail("invocations", sql, sig, "step %d of %s: %s ran the function %d times for 2 rows", step+1, histText(c, step+1), qual, got)
					}
				}
			}
		}
	}
	return v
}

func histText(c Node, upto int) string {
	parts := []string{}
	for i, e := range seq(c["hist"]) {
		if i >= upto {
			break
		}
		e := e.(Node)
		parts = append(parts, fmt.Sprintf("%s(%s)", e["op"], e["name"]))
	}
	return strings.Join(parts, " ")
}

// a failed Exec, then the same Query once more: the second run is a run like any other
func init() {
	var failNext atomic.Bool
	genql.RegisterFunction("failonce", func(q *genql.Query, cur genql.Map, fo *genql.FunctionOptions, args []any) (any, error) {
		if failNext.CompareAndSwap(true, false) {
			return nil, fmt.Errorf("failonce: the first call fails")
		}
		return args[0], nil
	})
	Drivers["C14:retry"] = func(emit func(Verdict)) {
		for _, tc := range []struct{ sql, under string }{
			{"SELECT x.m AS m, x.v AS v, failonce(x.m) AS f FROM (SELECT a AS m, ASYNC.sf(a) AS v FROM t) x", ""},
			{"SELECT *, failonce(1) AS f FROM (SELECT a AS m, ASYNC.sf(a) AS v, SPINASYNC.sf(a) FROM t) x", "x"},
			{"SELECT a AS m, ASYNC.sf(a) AS v, failonce(a) AS f FROM t", ""},
			{"WITH c AS (SELECT a AS m, ASYNC.sf(a) AS v FROM t) SELECT m, v, failonce(m) AS f FROM c", ""},
		} {
			for n := 1; n <= 3; n++ {
				sig := []string{"retry"}
				v := Verdict{OK: true, SQL: tc.sql, Sig: sig, Execs: 2, Nontrivial: true, Key: fmt.Sprintf("%s/%d", tc.sql, n), Case: Node{"sql": tc.sql, "rows": n}}
				func() {
					defer func() {
						if p := recover(); p != nil {
							v = fail("panic", tc.sql, sig, "panic escaped the API: %v", p)
						}
					}()
					failNext.Store(false)
					q, err := genql.New(asyncDoc(n), tc.sql)
					if err != nil {
						v = fail("error", tc.sql, sig, "New failed: %v", err)
						return
					}
					failNext.Store(true)
					if _, err := q.Exec(); err == nil {
						v = Verdict{OK: false, Kind: "harness", Detail: "the first Exec did not fail"}
						return
					}
					rows, err := q.Exec()
					if err != nil {
						v = fail("error", tc.sql, sig, "the second Exec of the same Query failed: %v", err)
						return
					}
					if len(rows) != n {
						v = fail("result", tc.sql, sig, "second Exec: %d rows for %d: %s", len(rows), n, Canon(any(rows)))
						return
					}
					for i, r := range rows {
						row, _ := r.(map[string]any)
						if tc.under != "" && row != nil {
							inner, _ := row[tc.under].(map[string]any)
							row = inner
						}
						if row == nil || !Equal(row["m"], float64(i+1)) || !Equal(row["v"], float64((i+1)*10)) {
							v = fail("result", tc.sql, sig, "second Exec of the same Query after a failed one: row %d is %s (m = %d, v = %d expected)", i+1, Canon(r), i+1, (i+1)*10)
							return
						}
					}
				}()
				v.Key, v.Case = fmt.Sprintf("%s/%d", tc.sql, n), Node{"sql": tc.sql, "rows": n}
				emit(v)
			}
		}
	}
}

// "Qualifying a function call with ASYNC changes when it runs, not what the query returns": statements the model of
// Async.tla does not vary (select items that share a name, a star next to a call of a column's name, calls nested in
// expressions and arguments, calls inside derived tables read by name) are evaluated with their calls unqualified and with
// the same calls qualified ASYNC (and the ones whose value is not used, SPINASYNC): the rows have to be the same.
func init() {
	genql.RegisterFunction("neg14", func(q *genql.Query, cur genql.Map, fo *genql.FunctionOptions, args []any) (any, error) {
		time.Sleep(30 * time.Microsecond)
		return -float64(argInt(args[0])), nil
	})
	Drivers["C14:qualify"] = func(emit func(Verdict)) {
		for _, tpl := range []string{
			"SELECT {Q}sf(a) AS v, neg14(a) AS v FROM t",
			"SELECT neg14(a) AS v, {Q}sf(a) AS v FROM t",
			"SELECT {Q}sf(a) AS v, {Q}neg14(a) AS v FROM t",
			"SELECT {Q}sf(a) AS a, * FROM t",
			"SELECT *, {Q}sf(a) AS a FROM t",
			"SELECT {Q}sf(a) AS v, a AS v FROM t",
			"SELECT a, ARRAY({Q}sf(a), a) AS arr, CONCAT({Q}neg14(a), '!') AS c FROM t",
			"SELECT a, IF(a > 1, {Q}sf(a), {Q}neg14(a)) AS w FROM t",
			"SELECT x.v AS v, x.a FROM (SELECT a, {Q}sf(a) AS v FROM t) x",
			"SELECT * FROM (SELECT {Q}sf(a) AS v, a AS v FROM t) x",
			"SELECT a, {Q}sf(a) AS v FROM t WHERE a > 1",
			"SELECT a, {Q}sf(a) AS v FROM t LIMIT 1 OFFSET 1",
		} {
			for _, n := range []int{1, 3} {
				plain := strings.ReplaceAll(tpl, "{Q}", "")
				async := strings.ReplaceAll(tpl, "{Q}", "ASYNC.")
				sig := []string{"qualify", "qual:async"}
				v := Verdict{OK: true, SQL: async, Sig: sig, Nontrivial: true}
				ref := Run(asyncDoc(n), plain, false)
				v.Execs++
				if ref.Err != nil || ref.Panic != nil {
					v.Nontrivial = false
					v.Drift = "the unqualified statement is not accepted: " + ref.Describe()
				} else {
					for rep := 0; rep < 4; rep++ {
						out := Run(asyncDoc(n), async, false)
						v.Execs++
						if out.Err != nil || out.Panic != nil || Canon(any(out.Rows)) != Canon(any(ref.Rows)) {
							v = fail("result", async, sig, "%d rows; with the calls unqualified: %s, qualified ASYNC: %s", n, Canon(any(ref.Rows)), out.Describe())
							break
						}
					}
				}
				v.Key, v.Case = fmt.Sprintf("%s/%d", tpl, n), Node{"sql": async, "rows": n}
				emit(v)
			}
		}
	}
}
