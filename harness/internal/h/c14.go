package h

import (
	"encoding/json"
	"fmt"
	"io"
	"math/rand"
	"strings"
	"sync"
	"sync/atomic"
	"time"

	"github.com/vedadiyan/genql"
)

// ---- harness-owned functions for C14 -----------------------------------------------------
//
//   mark(a)      unqualified, first select item: gates the main goroutine at the start of row a
//   af(a, i)     the qualified function (ASYNC / SPINASYNC / SPIN), i = select-list position:
//                arrives, waits for its start gate, waits for its finish gate, returns a*10
//   sf(a)        an unqualified call: a*10          of(a)   the ONCE function: a*10
//   imm(a)       registered as immediate
//
// One scenario at a time per process.

type callID struct{ row, item int }

type asyncRun struct {
	id       int
	mu       sync.Mutex
	gated    bool
	arrived  map[callID]chan struct{} // closed when the function body is entered
	startG   map[callID]chan struct{}
	finishG  map[callID]chan struct{}
	finished map[callID]bool
	inv      map[callID]int
	markAt   map[int]chan struct{} // closed when the main goroutine reaches mark(row)
	markG    map[int]chan struct{}
	onceInv  int
	seq      int64
	events   []Node
	latency  func(c callID) time.Duration
}

var cur14 atomic.Pointer[asyncRun]

func (r *asyncRun) ch(m map[callID]chan struct{}, c callID) chan struct{} {
	r.mu.Lock()
	defer r.mu.Unlock()
	if m[c] == nil {
		m[c] = make(chan struct{})
	}
	return m[c]
}

func (r *asyncRun) mch(m map[int]chan struct{}, i int) chan struct{} {
	r.mu.Lock()
	defer r.mu.Unlock()
	if m[i] == nil {
		m[i] = make(chan struct{})
	}
	return m[i]
}

func (r *asyncRun) log(e Node) {
	r.mu.Lock()
	r.seq++
	e["seq"] = r.seq
	r.events = append(r.events, e)
	r.mu.Unlock()
}

func newAsyncRun(gated bool) *asyncRun {
	return &asyncRun{gated: gated, arrived: map[callID]chan struct{}{}, startG: map[callID]chan struct{}{}, finishG: map[callID]chan struct{}{},
		finished: map[callID]bool{}, inv: map[callID]int{}, markAt: map[int]chan struct{}{}, markG: map[int]chan struct{}{}}
}

func argInt(v any) int {
	f, _ := asFloat(v)
	return int(f)
}

func init() {
	genql.RegisterFunction("mark", func(q *genql.Query, cur genql.Map, fo *genql.FunctionOptions, args []any) (any, error) {
		r := cur14.Load()
		if r == nil || len(args) != 1 {
			return nil, fmt.Errorf("mark: no scenario")
		}
		row := argInt(args[0])
		r.log(Node{"ev": "row", "r": row})
		if r.gated {
			close(r.mch(r.markAt, row))
			<-r.mch(r.markG, row)
		}
		return args[0], nil
	})
	genql.RegisterFunction("af", func(q *genql.Query, cur genql.Map, fo *genql.FunctionOptions, args []any) (any, error) {
		r := cur14.Load()
		if r == nil || len(args) != 3 || argInt(args[2]) != r.id {
			return nil, fmt.Errorf("af: no scenario") // a SPIN call outliving its query
		}
		c := callID{argInt(args[0]), argInt(args[1])}
		r.mu.Lock()
		r.inv[c]++
		r.mu.Unlock()
		r.log(Node{"ev": "start", "r": c.row, "i": c.item})
		if r.gated {
			close(r.ch(r.arrived, c))
			<-r.ch(r.startG, c)
			<-r.ch(r.finishG, c)
		} else if r.latency != nil {
			time.Sleep(r.latency(c))
		}
		r.mu.Lock()
		r.finished[c] = true
		r.mu.Unlock()
		r.log(Node{"ev": "finish", "r": c.row, "i": c.item})
		return float64(c.row * 10), nil
	})
	genql.RegisterFunction("sf", func(q *genql.Query, cur genql.Map, fo *genql.FunctionOptions, args []any) (any, error) {
		return float64(argInt(args[0]) * 10), nil
	})
	genql.RegisterFunction("of", func(q *genql.Query, cur genql.Map, fo *genql.FunctionOptions, args []any) (any, error) {
		if r := cur14.Load(); r != nil {
			r.mu.Lock()
			r.onceInv++
			r.mu.Unlock()
		}
		return float64(argInt(args[0]) * 10), nil
	})
	genql.RegisterFunction("ofn", func(q *genql.Query, cur genql.Map, fo *genql.FunctionOptions, args []any) (any, error) {
		if r := cur14.Load(); r != nil {
			r.mu.Lock()
			r.onceInv++
			r.mu.Unlock()
		}
		return nil, nil // a ONCE function whose result is NULL
	})
	genql.RegisterImmediateFunction("imm", func(q *genql.Query, cur genql.Map, fo *genql.FunctionOptions, args []any) (any, error) {
		return float64(argInt(args[0]) * 10), nil
	})
}

var runCounter int

// placement wraps the select list into a nested query: "" (top level), "derived", "cte"
func placed(inner, placement string) string {
	switch placement {
	case "derived":
		return "SELECT * FROM (" + inner + ") x"
	case "cte":
		return "WITH c AS (" + inner + ") SELECT * FROM c"
	}
	return inner
}

func placedWant(rows []any, placement string) []any {
	if placement != "derived" {
		return rows
	}
	out := []any{}
	for _, r := range rows {
		out = append(out, map[string]any{"x": r})
	}
	return out
}

func asyncSQL(items []string, run int) string {
	parts := []string{"mark(a) AS m"}
	for i, k := range items {
		n := i + 1
		switch k {
		case "col":
			parts = append(parts, fmt.Sprintf("a * 10 AS c%d", n))
		case "sync":
			parts = append(parts, fmt.Sprintf("sf(a) AS c%d", n))
		case "async":
			parts = append(parts, fmt.Sprintf("ASYNC.af(a, %d, %d) AS c%d", n, run, n))
		case "spinasync":
			parts = append(parts, fmt.Sprintf("SPINASYNC.af(a, %d, %d) AS c%d", n, run, n))
		case "spin":
			parts = append(parts, fmt.Sprintf("SPIN.af(a, %d, %d) AS c%d", n, run, n))
		case "once":
			parts = append(parts, fmt.Sprintf("ONCE.of(a) AS c%d", n))
		case "oncenull":
			parts = append(parts, fmt.Sprintf("ONCE.ofn(a) AS c%d", n))
		}
	}
	return "SELECT " + strings.Join(parts, ", ") + " FROM t"
}

func asyncDoc(nrows int) map[string]any {
	rows := []any{}
	for i := 1; i <= nrows; i++ {
		rows = append(rows, map[string]any{"a": float64(i)})
	}
	return map[string]any{"t": rows}
}

// expected output rows per Async.tla at Return
func asyncWant(items []string, nrows int) []any {
	rows := []any{}
	for r := 1; r <= nrows; r++ {
		row := map[string]any{"m": float64(r)}
		for i, k := range items {
			key := fmt.Sprintf("c%d", i+1)
			switch k {
			case "col", "sync", "async":
				row[key] = float64(r * 10)
			case "once":
				row[key] = float64(10)
			case "oncenull":
				row[key] = nil
			}
		}
		rows = append(rows, row)
	}
	return rows
}

const stepTimeout = 5 * time.Second

func waitCh(ch chan struct{}) bool {
	select {
	case <-ch:
		return true
	case <-time.After(stepTimeout):
		return false
	}
}

type execResult struct {
	rows []any
	err  error
	pan  any
}

func checkAsyncOutcome(r *asyncRun, items []string, nrows int, res execResult, sql string, sig []string, placement string) *Verdict {
	if res.pan != nil {
		v := fail("panic", sql, sig, "panic escaped the API: %v", res.pan)
		return &v
	}
	if res.err != nil {
		v := fail("error", sql, sig, "Exec failed: %v", res.err)
		return &v
	}
	r.mu.Lock()
	defer r.mu.Unlock()
	for i, k := range items {
		for row := 1; row <= nrows; row++ {
			c := callID{row, i + 1}
			switch k {
			case "async", "spinasync":
				if r.inv[c] != 1 {
					v := fail("invocations", sql, sig, "%s call of row %d was invoked %d times when Exec returned", k, row, r.inv[c])
					return &v
				}
				if !r.finished[c] {
					v := fail("incomplete", sql, sig, "Exec returned while the %s call of row %d had not completed", k, row)
					return &v
				}
			case "spin":
				if r.inv[c] > 1 {
					v := fail("invocations", sql, sig, "spin call of row %d was invoked %d times", row, r.inv[c])
					return &v
				}
			}
		}
		if (k == "once" || k == "oncenull") && r.onceInv != 1 && nrows > 0 {
			v := fail("invocations", sql, sig, "the ONCE function was invoked %d times in one query", r.onceInv)
			return &v
		}
	}
	want := placedWant(asyncWant(items, nrows), placement)
	if !Equal(any(res.rows), any(want)) {
		v := fail("result", sql, sig, "rows when Exec returned: want %s got %s", Canon(any(want)), Canon(any(res.rows)))
		return &v
	}
	return nil
}

// checkC14: force one exported schedule of Async.tla onto the real engine.
func checkC14(c Node) Verdict {
	placements := []string{""}
	if n, _ := c["nested"].(bool); n {
		placements = []string{"derived", "cte"}
	}
	var v Verdict
	for _, p := range placements {
		v = checkC14Placed(c, p)
		if !v.OK {
			return v
		}
	}
	v.Execs = len(placements)
	return v
}

func checkC14Placed(c Node, placement string) Verdict {
	items := strs(c["items"])
	nrows := int(num(c["nrows"]))
	runCounter++
	sql := placed(asyncSQL(items, runCounter), placement)
	sig := []string{"schedule", "placement:" + placement}
	for _, k := range items {
		sig = append(sig, "kind:"+k)
	}
	r := newAsyncRun(true)
	r.id = runCounter
	cur14.Store(r)
	defer cur14.Store(nil)
	done := make(chan execResult, 1)
	go func() {
		var res execResult
		defer func() {
			if p := recover(); p != nil {
				res.pan = p
			}
			done <- res
		}()
		q, err := genql.New(asyncDoc(nrows), sql)
		if err != nil {
			res.err = err
			return
		}
		res.rows, res.err = q.Exec()
	}()
	v := Verdict{OK: true, SQL: sql, Sig: sig, Execs: 1, Nontrivial: true}
	counted := func(cid callID) bool { k := items[cid.item-1]; return k == "async" || k == "spinasync" }
	released := map[callID]bool{}
	var early *execResult
	returnedEarly := func() bool {
		// has Exec returned although a counted call has not been allowed to finish?
		time.Sleep(150 * time.Microsecond)
		select {
		case res := <-done:
			early = &res
			return true
		default:
			return false
		}
	}
	cleanup := func() {
		// let every goroutine go, so that nothing leaks into the next case
		for row := 1; row <= nrows; row++ {
			func() {
				defer func() { recover() }()
				close(r.mch(r.markG, row))
			}()
			for i := range items {
				cid := callID{row, i + 1}
				for _, m := range []map[callID]chan struct{}{r.startG, r.finishG} {
					func() {
						defer func() { recover() }()
						close(r.ch(m, cid))
					}()
				}
			}
		}
	}
	defer cleanup()
	pendingCounted := func() bool {
		for row := 1; row <= nrows; row++ {
			for i := range items {
				cid := callID{row, i + 1}
				if counted(cid) && !released[cid] {
					return true
				}
			}
		}
		return false
	}
	for _, e := range seq(c["sched"]) {
		e := e.(Node)
		if e["ev"] != "return" && pendingCounted() && returnedEarly() {
			return fail("incomplete", sql, sig, "Exec returned (%s) while ASYNC / SPINASYNC calls were still held unfinished; schedule step %v", describeExec(*early), e)
		}
		switch e["ev"] {
		case "row":
			row := int(num(e["r"]))
			if !waitCh(r.mch(r.markAt, row)) {
				return fail("stuck", sql, sig, "the main goroutine never reached row %d", row)
			}
			close(r.mch(r.markG, row))
			if row < nrows && !waitCh(r.mch(r.markAt, row+1)) {
				return fail("stuck", sql, sig, "the main goroutine never reached row %d after row %d", row+1, row)
			}
		case "start":
			cid := callID{int(num(e["r"])), int(num(e["i"]))}
			if !waitCh(r.ch(r.arrived, cid)) {
				return fail("stuck", sql, sig, "the %s call of row %d was never invoked", items[cid.item-1], cid.row)
			}
			close(r.ch(r.startG, cid))
		case "finish":
			cid := callID{int(num(e["r"])), int(num(e["i"]))}
			released[cid] = true
			close(r.ch(r.finishG, cid))
			// wait until the function has really returned before the next step
			deadline := time.Now().Add(stepTimeout)
			for {
				r.mu.Lock()
				f := r.finished[cid]
				r.mu.Unlock()
				if f {
					break
				}
				if time.Now().After(deadline) {
					return Verdict{OK: false, Kind: "harness", Detail: "finish gate released but the function did not return"}
				}
				time.Sleep(20 * time.Microsecond)
			}
		case "return":
			select {
			case res := <-done:
				if bad := checkAsyncOutcome(r, items, nrows, res, sql, sig, placement); bad != nil {
					return *bad
				}
			case <-time.After(stepTimeout):
				return fail("hang", sql, sig, "every ASYNC / SPINASYNC call has completed but Exec does not return")
			}
		}
	}
	return v
}

func describeExec(r execResult) string {
	if r.pan != nil {
		return fmt.Sprintf("panic %v", r.pan)
	}
	if r.err != nil {
		return fmt.Sprintf("error %v", r.err)
	}
	return Canon(any(r.rows))
}

// ---- Leg T: free-running goroutines with per-call latencies, events recorded ------------------

func init() {
	Replay["C14"] = checkC14
	TraceGen["C14"] = func(seed int64, n int, tier string, w io.Writer) TraceInfo {
		g := rand.New(rand.NewSource(seed))
		configs := [][]string{{"col", "async"}, {"async", "spinasync", "sync"}, {"once", "async", "spin"}, {"async", "col", "async"}, {"spinasync", "async", "async", "once"}}
		items := configs[int(seed)%len(configs)]
		nrows := 2 + int(seed/7)%5
		enc := json.NewEncoder(w)
		info := TraceInfo{}
		sql := ""
		for k := 0; k < n; k++ {
			runCounter++
			sql = asyncSQL(items, runCounter)
			r := newAsyncRun(false)
			r.id = runCounter
			mode := g.Intn(3)
			r.latency = func(c callID) time.Duration {
				switch mode {
				case 0:
					return 0
				case 1: // skewed: early rows are slow
					return time.Duration((nrows-c.row)*150) * time.Microsecond
				}
				return time.Duration(g.Intn(400)) * time.Microsecond
			}
			cur14.Store(r)
			res := execResult{}
			func() {
				defer func() {
					if p := recover(); p != nil {
						res.pan = p
					}
				}()
				q, err := genql.New(asyncDoc(nrows), sql)
				if err != nil {
					res.err = err
					return
				}
				res.rows, res.err = q.Exec()
			}()
			r.log(Node{"ev": "ret", "ok": res.err == nil && res.pan == nil, "rows": ToTagged(any(res.rows)).(Node)["e"]})
			r.mu.Lock()
			enc.Encode(Node{"ev": "begin", "seq": 0})
			for _, e := range r.events {
				enc.Encode(e)
			}
			info.Events += len(r.events) + 1
			r.mu.Unlock()
			cur14.Store(nil)
			info.Queries++
			// SPIN calls may still run: give them a moment so that their events do not leak into the next run
			time.Sleep(500 * time.Microsecond)
		}
		info.Samples = []string{sql}
		info.Cfg = fmt.Sprintf("SPECIFICATION TraceSpec\nCONSTANTS\n  NRows = %d\n  Items <- %s\n  Dev_AddInGoroutine = FALSE\n  Nested = FALSE\n  Dev_NoChain = FALSE\nPOSTCONDITION Summary\nCHECK_DEADLOCK FALSE\n", nrows, map[int]string{0: "Items0", 1: "Items1", 2: "Items2", 3: "Items3", 4: "Items4"}[int(seed)%len(configs)])
		return info
	}
}

// immediate functions reject ASYNC, SPIN and SPINASYNC with an error
func init() {
	Drivers["C14:immediate"] = func(emit func(Verdict)) {
		for _, fn := range []string{"imm", "sum", "to_upper", "getvar", "raise", "constant", "timestamp", "fuse", "daterange"} {
			for _, qual := range []string{"ASYNC", "SPIN", "SPINASYNC"} {
				sql := fmt.Sprintf("SELECT a, %s.%s(a) AS v FROM t", qual, fn)
				out := Run(asyncDoc(2), sql, false)
				v := Verdict{OK: true, SQL: sql, Sig: []string{"immediate", "qual:" + strings.ToLower(qual)}, Execs: 1, Nontrivial: true, Key: sql, Case: Node{"sql": sql}}
				if out.Panic != nil {
					v = fail("panic", sql, v.Sig, "panic escaped the API: %v", out.Panic)
				} else if out.Err == nil {
					v = fail("noerror", sql, v.Sig, "an immediate function was accepted under %s: %s", qual, Canon(any(out.Rows)))
				}
				v.Key = sql
				v.Case = Node{"sql": sql}
				emit(v)
			}
		}
	}
}
