module verif/harness

go 1.23.0

require (
	github.com/vedadiyan/genql v0.0.0
	github.com/vedadiyan/sqlparser/v2 v2.0.3
)

require (
	github.com/golang/glog v0.0.0-20160126235308-23def4e6c14b // indirect
	github.com/planetscale/vtprotobuf v0.6.0 // indirect
	github.com/spf13/pflag v1.0.5 // indirect
	golang.org/x/sys v0.33.0 // indirect
	google.golang.org/protobuf v1.33.0 // indirect
)

replace github.com/vedadiyan/genql => /repo
