#!/usr/bin/env python3
"""fixtable.py - regenerate the table of fix commits in DESIGN.md section 7 from KNOWN_FINDINGS.txt"""
import re, collections
fx = collections.OrderedDict()
n = 0
for line in open('/verif/KNOWN_FINDINGS.txt'):
    m = re.match(r'fixed: property=(C\d+) (\w+) (.*)', line.strip())
    if not m: continue
    n += 1
    p, h, t = m.groups()
    t = t.replace('|', '/')
    if len(t) > 118: t = t[:115].rstrip() + ' ...'
    fx.setdefault(p, []).append('`%s` %s' % (h, t))
rows = ['| %s | %s |' % (p, '<br>'.join(fx[p])) for p in sorted(fx)]
s = open('/verif/DESIGN.md').read()
head = '| property | fix commits (in order; full text in `KNOWN_FINDINGS.txt` and the commit messages) |\n|---|---|\n'
i = s.index(head) + len(head)
j = s.index('\nKnown findings (not repaired', i)
s = s[:i] + '\n'.join(rows) + '\n' + s[j:]
s = re.sub(r'\d+ were repaired by a', '%d were repaired by a' % n, s)
open('/verif/DESIGN.md', 'w').write(s)
print(n, 'fixes in', len(fx), 'properties')
