#!/bin/bash
# rebase_seed.sh <name>... - carry recorded seeded changes whose patch no longer applies (not even 3-way) over the fix commits
# made since: 3-way apply in /repo, conflict hunks resolved by tools/resolve3.py, build; the rebased diff replaces patch.diff
# (patch.orig.diff keeps the original). /repo is restored. Re-test afterwards with tools/reseed.sh.
export GOFLAGS=-mod=mod GOPROXY=off GOSUMDB=off GOTOOLCHAIN=local
[ -z "$(git -C /repo status --short)" ] || { echo "/repo has uncommitted changes"; exit 1; }
cd /repo
for n in "$@"; do
  D=/verif/seeded/$n
  git apply --3way $D/patch.diff >/dev/null 2>&1
  files=$(git diff --name-only --diff-filter=U)
  [ -n "$files" ] && python3 /verif/tools/resolve3.py $files
  git reset -q
  if go build ./... 2>/tmp/rebase-build.log && [ -n "$(git status --short)" ]; then
    gofmt -l . | grep -v sanitizer >/dev/null
    [ -f $D/patch.orig.diff ] || cp $D/patch.diff $D/patch.orig.diff
    git diff > $D/patch.diff; echo "$n: rebased ($(git diff --stat | tail -1))"
  else
    echo "$n: NOT rebased: $(head -3 /tmp/rebase-build.log | tr '\n' ' ')"
  fi
  git checkout -q -- . ; git clean -fdq -e zz_none 2>/dev/null
done
