#!/bin/bash
# reseed_all2.sh [names...] (reseed_all.sh with a 3-way fallback that keeps the rebased patch) - re-test every recorded seeded change (or the named ones) against the current /repo HEAD with the
# current checks, from a snapshot of /verif working on a worktree of its own (so that /verif and /repo stay free meanwhile). Prints one line per change.
# Changes whose meta says they no longer apply to the current tree are skipped.
export GOFLAGS=-mod=mod GOPROXY=off GOSUMDB=off GOTOOLCHAIN=local
SNAP=${SNAP:-/tmp/vsnap}
rm -rf $SNAP; mkdir -p $SNAP
rsync -a --exclude .git --exclude evidence/replays /verif/ $SNAP/
# the snapshot works on a worktree of its own, so that /repo stays free
WT=${WT:-/tmp/wt-reseed}
git -C /repo worktree remove --force $WT 2>/dev/null; git -C /repo worktree add -q --detach $WT HEAD || exit 2
sed -i "s#=> /repo#=> $WT#" $SNAP/harness/go.mod
(cd $SNAP/harness && go build -o $SNAP/bin/vcheck ./cmd/vcheck) || exit 2
names="$@"; [ -n "$names" ] || names=$(ls /verif/seeded)
for n in $names; do
  D=/verif/seeded/$n
  if grep -q '"current_tree": "not applicable' $D/meta.json 2>/dev/null; then echo "$n: skipped (superseded by a later fix)"; continue; fi
  P=$(echo $n | cut -d- -f1)
  props=$(python3 -c "
import json,re
m=json.load(open('$D/meta.json'))
ps=re.findall(r'(C\d\d):exit1', m.get('vcheck_result',''))
print(' '.join(ps) if ps else '$P')")
  cd $WT
  if ! git apply $D/patch.diff 2>/dev/null; then
    # fix commits made since the change was recorded may have moved its context: 3-way, and keep the rebased diff
    git checkout -q -- . ; git reset -q
    if git apply --3way $D/patch.diff >/dev/null 2>&1 && go build ./... 2>/dev/null; then
      [ -f $D/patch.orig.diff ] || cp $D/patch.diff $D/patch.orig.diff
      git diff --cached > $D/patch.diff; git reset -q
      echo "$n: rebased (3-way)"
    else
      echo "$n: patch does not apply, even 3-way"; git reset -q --hard HEAD; continue
    fi
  fi
  res=""
  for prop in $props; do
    (cd $SNAP && ./bin/vcheck -p $prop -tier quick > $SNAP/reseed-$n-$prop.log 2>&1); res="$res $prop:exit$?"
  done
  git -C $WT checkout -- .
  echo "$n:$res"
done
rm -rf $SNAP/evidence/replays
git -C /repo worktree remove --force $WT
