#!/bin/bash
# regen.sh [ids...] - run the quick checks on the unchanged tree and validate MANIFEST / evidence
cd /verif
[ -z "$(git -C /repo status --short)" ] || { echo "/repo has uncommitted changes"; exit 1; }
ids="$@"; [ -n "$ids" ] || ids=$(python3 -c "import json;print(' '.join(c['property_id'] for c in json.load(open('MANIFEST.json'))['checks']))")
rc=0
for p in $ids; do ./bin/vcheck -p $p -tier quick | tail -1; [ ${PIPESTATUS[0]} -eq 0 ] || { echo "  ^^^ exit ${PIPESTATUS[0]}"; rc=1; }; done
python3-vt - <<'PY'
import json,jsonschema,glob
jsonschema.validate(json.load(open('/verif/MANIFEST.json')),json.load(open('/root/.vp/MANIFEST.schema.json')))
sch=json.load(open('/root/.vp/EVIDENCE.schema.json'))
for c in json.load(open('/verif/MANIFEST.json'))['checks']:
    e=json.load(open(c['evidence_file'])); jsonschema.validate(e,sch)
    assert e['level']==c['level_claimed']['category'], c['property_id']
    if e.get('violations'): print('evidence with violations:',c['property_id'])
print('manifest and evidence valid')
PY
exit $rc
