#!/bin/bash
# seed.sh <prop> <mK> [extra props to run...]   - verify a candidate seeded change (from /tmp/mut-<prop>/) in the scratch worktree
# /tmp/wt-<prop>, run the property's quick check against it in /repo, and record it under /verif/seeded/<prop>-<mK>/.
export GOFLAGS=-mod=mod GOPROXY=off GOSUMDB=off GOTOOLCHAIN=local
P=$1; K=$2; shift 2
TAG=${TAG:-}
SRC=/tmp/mut-$P$TAG; WT=/tmp/wt-$P$TAG; OUT=/verif/seeded/$P-$K$TAG
demo=$(grep -o 'func Test[A-Za-z0-9_]*' $SRC/${K}_demo_test.go | head -1 | sed 's/func //')
set -e
cd $WT && git checkout -q -- . && git clean -fdq
git apply --check $SRC/$K.diff
git apply $SRC/$K.diff
suite=ok
for i in 1 2 3; do go test -vet=off -count=1 ./... >/tmp/seed-$P$TAG-suite.log 2>&1 || suite=FAIL; done
cp $SRC/${K}_demo_test.go $WT/zz_${K}_demo_test.go
if go test -vet=off -count=1 -run "^$demo\$" . >/tmp/seed-$P$TAG-demo-with.log 2>&1; then with=pass; else with=fail; fi
git checkout -q -- .
if go test -vet=off -count=1 -run "^$demo\$" . >/tmp/seed-$P$TAG-demo-without.log 2>&1; then without=pass; else without=fail; fi
rm -f $WT/zz_${K}_demo_test.go
echo "suite-with-change=$suite demo-with=$with demo-without=$without"
[ "$suite" = ok ] && [ "$with" = fail ] && [ "$without" = pass ] || { echo "NOT A VALID SEED"; exit 3; }
set +e
mkdir -p $OUT && cp $SRC/$K.diff $OUT/patch.diff && cp $SRC/${K}_demo_test.go $OUT/demo_test.go && cp $SRC/$K.md $OUT/notes.md
# with SNAP and SEED_WT set, the checks run from a snapshot of /verif ($SNAP, its harness pointing at the worktree $SEED_WT)
# instead of /verif and /repo, so that both stay free (tools/seed_batch.sh prepares the two)
REPO=${SEED_WT:-/repo}; VERIF=${SNAP:-/verif}
cd $REPO
if ! git apply $OUT/patch.diff 2>/dev/null; then
  # fix commits made after the sub-agent's worktree was created moved the context: 3-way, keep the rebased diff
  git apply --3way $OUT/patch.diff >/dev/null 2>&1 || { echo "patch does not apply to /repo"; git reset -q --hard HEAD; exit 4; }
  cp $OUT/patch.diff $OUT/patch.orig.diff; git diff --cached > $OUT/patch.diff; git reset -q
fi
res=""
for prop in $P "$@"; do
  cp $VERIF/evidence/$prop.json /tmp/seed-$P$TAG-evidence-$prop.json 2>/dev/null
  (cd $VERIF && ./bin/vcheck -p $prop -tier quick > /tmp/seed-$P$TAG-vcheck-$prop.log 2>&1); code=$?
  res="$res $prop:exit$code"
  tail -3 /tmp/seed-$P$TAG-vcheck-$prop.log
  cp /tmp/seed-$P$TAG-evidence-$prop.json $VERIF/evidence/$prop.json 2>/dev/null
  rm -f $VERIF/evidence/replays/$prop-*.json
done
git -C $REPO checkout -- . ; git -C $REPO status --short
echo "RESULT $P-$K$TAG:$res"
echo "$res" > $OUT/vcheck_result.txt
