#!/bin/bash
# seed.sh <prop> <mK> [extra props to run...]   - verify a candidate seeded change (from /tmp/mut-<prop>/) in the scratch worktree
# /tmp/wt-<prop>, run the property's quick check against it in /repo, and record it under /verif/seeded/<prop>-<mK>/.
export GOFLAGS=-mod=mod GOPROXY=off GOSUMDB=off GOTOOLCHAIN=local
P=$1; K=$2; shift 2
TAG=${TAG:-}
SRC=/tmp/mut-$P$TAG; WT=/tmp/wt-$P$TAG; OUT=/verif/seeded/$P-$K$TAG
demo=$(grep -o 'func Test[A-Za-z0-9_]*' $SRC/${K}_demo_test.go | head -1 | sed 's/func //')
set -e
cd $WT && git checkout -q -- . && git clean -fdq
git apply --check $SRC/$K.diff
git apply $SRC/$K.diff
suite=ok
for i in 1 2 3; do go test -vet=off -count=1 ./... >/tmp/seed-suite.log 2>&1 || suite=FAIL; done
cp $SRC/${K}_demo_test.go $WT/zz_${K}_demo_test.go
if go test -vet=off -count=1 -run "^$demo\$" . >/tmp/seed-demo-with.log 2>&1; then with=pass; else with=fail; fi
git checkout -q -- .
if go test -vet=off -count=1 -run "^$demo\$" . >/tmp/seed-demo-without.log 2>&1; then without=pass; else without=fail; fi
rm -f $WT/zz_${K}_demo_test.go
echo "suite-with-change=$suite demo-with=$with demo-without=$without"
[ "$suite" = ok ] && [ "$with" = fail ] && [ "$without" = pass ] || { echo "NOT A VALID SEED"; exit 3; }
set +e
mkdir -p $OUT && cp $SRC/$K.diff $OUT/patch.diff && cp $SRC/${K}_demo_test.go $OUT/demo_test.go && cp $SRC/$K.md $OUT/notes.md
cd /repo && git apply $OUT/patch.diff || { echo "patch does not apply to /repo"; exit 4; }
res=""
for prop in $P "$@"; do
  cp /verif/evidence/$prop.json /tmp/seed-evidence-$prop.json 2>/dev/null
  (cd /verif && ./bin/vcheck -p $prop -tier quick > /tmp/seed-vcheck-$prop.log 2>&1); code=$?
  res="$res $prop:exit$code"
  tail -3 /tmp/seed-vcheck-$prop.log
  cp /tmp/seed-evidence-$prop.json /verif/evidence/$prop.json 2>/dev/null
  rm -f /verif/evidence/replays/$prop-*.json
done
git -C /repo checkout -- . ; git -C /repo status --short
echo "RESULT $P-$K$TAG:$res"
echo "$res" > $OUT/vcheck_result.txt
