#!/usr/bin/env python3
"""seedmeta.py <dir-name> <property> <needs> <detected: yes|no|after-strengthening> [note] - writes /verif/seeded/<dir>/meta.json"""
import json, sys, os
d, prop, needs, det = sys.argv[1:5]
note = sys.argv[5] if len(sys.argv) > 5 else ""
base = "/verif/seeded/" + d
res = open(base + "/vcheck_result.txt").read().strip() if os.path.exists(base + "/vcheck_result.txt") else ""
meta = {
 "property": prop,
 "source": "independent sub-agent given only the property text and a scratch worktree of /repo",
 "needs_to_manifest": needs,
 "confirmed": "tools/seed.sh: patch applied in a scratch worktree; `go test -vet=off -count=1 ./...` passed 3 times with the change; demo_test.go fails with the change and passes without it",
 "checks_run": "patch applied to /repo (git apply), `./bin/vcheck -p %s -tier quick`, reverted (git checkout -- .)" % prop,
 "vcheck_result": res,
 "detected": det,
 "note": note,
}
json.dump(meta, open(base + "/meta.json", "w"), indent=1)
