#!/usr/bin/env python3
"""rebase3.py <name>... - carry a recorded seeded change over the fix commits made since, faithfully: per file a diff3 merge of
(base blob named in the patch, /repo HEAD, base + patch); a conflict hunk is resolved only when HEAD differs from the base by the
mechanical rewrites of the fixes (fmt.Sprintf("%v", x) -> compare.Text(x), query.postProcessors = append(..) -> query.later(..),
import lists) - then the change's side is taken with the same rewrites. Anything else is left alone (exit status per name printed).
On success seeded/<name>/patch.diff is replaced (patch.orig.diff keeps the original)."""
import re, subprocess, sys, os, tempfile, shutil
def sh(*a, **k): return subprocess.run(a, capture_output=True, text=True, **k)
def norm(t, incompare):
    t = re.sub(r'fmt\.Sprintf\("%v", ([^()]*?)\)', (r'Text(\1)' if incompare else r'compare.Text(\1)'), t)
    t = re.sub(r'query\.postProcessors = append\(query\.postProcessors, ([A-Za-z\.]+postProcessors(?:\[inherited:\])?)\.\.\.\)', r'query.later(\1...)', t)
    t = t.replace('query.postProcessors = append(query.postProcessors, func() error {', 'query.later(func() error {')
    t = re.sub(r'fmt\.Errorf\("%v", (args\[\d\])\)', r'fmt.Errorf("%s", compare.Text(\1))', t)
    return t
import difflib
def reinsert(ours, bs, th):
    """HEAD only INSERTED lines into the base text of the hunk (a fix that added a guard): keep the change's side and put the
    inserted blocks back where they were, relative to the base lines."""
    o, b, t = ours.splitlines(True), bs.splitlines(True), th.splitlines(True)
    ins = []   # (base index the block was inserted in front of, lines)
    for tag, i1, i2, j1, j2 in difflib.SequenceMatcher(None, b, o, autojunk=False).get_opcodes():
        if tag == 'equal': continue
        if tag != 'insert': return None
        ins.append((i1, o[j1:j2]))
    if not ins: return None
    pos = {}   # base index -> index in theirs
    for tag, i1, i2, j1, j2 in difflib.SequenceMatcher(None, b, t, autojunk=False).get_opcodes():
        if tag == 'equal':
            for k in range(i2 - i1): pos[i1 + k] = j1 + k
            pos[i2] = j2
        else:
            pos.setdefault(i1, j1); pos[i2] = j2
    out, last = [], 0
    for k, lines in ins:
        if k not in pos: return None
        out += t[last:pos[k]] + lines; last = pos[k]
    return ''.join(out + t[last:])

for name in sys.argv[1:]:
    D = '/verif/seeded/' + name
    patch = open(D + '/patch.diff').read()
    files = re.findall(r'^diff --git a/(\S+) b/\S+\nindex ([0-9a-f]+)\.\.', patch, flags=re.M)
    tmp = tempfile.mkdtemp(prefix='rb3-')
    ok, out = True, {}
    try:
        for f, blob in files:
            os.makedirs(os.path.dirname(os.path.join(tmp, f)) or tmp, exist_ok=True)
            base = sh('git', '-C', '/repo', 'show', blob).stdout
            if not base: ok = False; print(name, 'base blob missing', blob); break
            open(os.path.join(tmp, f), 'w').write(base)
        if not ok: continue
        sh('git', 'init', '-q', cwd=tmp)
        r = sh('git', 'apply', D + '/patch.diff', cwd=tmp)
        if r.returncode != 0: print(name, 'patch does not apply to its own base:', r.stderr[:100]); continue
        for f, blob in files:
            theirs = open(os.path.join(tmp, f)).read()
            base = sh('git', '-C', '/repo', 'show', blob).stdout
            bp, tp = os.path.join(tmp, 'base.tmp'), os.path.join(tmp, 'theirs.tmp')
            op = os.path.join(tmp, 'ours.tmp')
            open(bp, 'w').write(base); open(tp, 'w').write(theirs); shutil.copy('/repo/' + f, op)
            m = sh('git', 'merge-file', '-p', '--diff3', op, bp, tp)
            text = m.stdout
            incompare = f.endswith('compare/compare.go')
            bad = []
            def fix(mm):
                ours, bs, th = mm.group(1), mm.group(2), mm.group(3)
                lines = [l for l in (ours + bs + th).splitlines() if l.strip()]
                if lines and all(re.fullmatch(r'\s*"[\w/\.\-]+"', l) for l in lines):
                    keep = [l for l in (ours + th).splitlines() if l.strip()]
                    seen, res = set(), []
                    for l in keep:
                        if l.strip() not in seen: seen.add(l.strip()); res.append(l)
                    std = sorted([l for l in res if '.' not in l.strip().strip('"').split('/')[0]], key=str.strip)
                    ext = sorted([l for l in res if '.' in l.strip().strip('"').split('/')[0]], key=str.strip)
                    return '\n'.join(std) + ('\n\n' + '\n'.join(ext) if ext else '') + '\n'
                if norm(bs, incompare) == ours:
                    return norm(th, incompare)
                if bs == th: return ours
                merged = reinsert(ours, bs, th)
                if merged is None: merged = reinsert(ours, norm(bs, incompare), norm(th, incompare))
                if merged is not None: return merged
                bad.append((ours[:80], bs[:80]))
                return mm.group(0)
            text = re.sub(r'<<<<<<< [^\n]*\n(.*?)\|\|\|\|\|\|\| [^\n]*\n(.*?)=======\n(.*?)>>>>>>> [^\n]*\n', fix, text, flags=re.S)
            if bad: ok = False; print(name, f, 'unresolved hunks:', len(bad)); break
            out[f] = text
        if not ok: continue
        for f, text in out.items(): open('/repo/' + f, 'w').write(text)
        b = sh('go', 'build', './...', cwd='/repo', env=dict(os.environ, GOFLAGS='-mod=mod', GOPROXY='off', GOSUMDB='off', GOTOOLCHAIN='local'))
        if b.returncode != 0:
            print(name, 'does not build:', b.stderr[:160].replace('\n', ' '))
        else:
            if not os.path.exists(D + '/patch.orig.diff'): shutil.copy(D + '/patch.diff', D + '/patch.orig.diff')
            open(D + '/patch.diff', 'w').write(sh('git', '-C', '/repo', 'diff').stdout)
            print(name, 'rebased:', sh('git', '-C', '/repo', 'diff', '--stat').stdout.strip().splitlines()[-1])
        sh('git', '-C', '/repo', 'checkout', '-q', '--', '.')
    finally:
        shutil.rmtree(tmp, ignore_errors=True)
