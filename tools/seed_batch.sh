#!/bin/bash
# seed_batch.sh <TAG> <prop>... - verify and test the candidate seeded changes /tmp/mut-<prop><TAG>/m1, m2 of every given
# property with tools/seed.sh, running the checks from a snapshot of /verif on a worktree of its own
export GOFLAGS=-mod=mod GOPROXY=off GOSUMDB=off GOTOOLCHAIN=local
TAG=$1; shift
export SNAP=/tmp/vsnap-$TAG SEED_WT=/tmp/wt-seed-$TAG
WT=$SEED_WT
rm -rf $SNAP; mkdir -p $SNAP; rsync -a --exclude .git --exclude evidence/replays /verif/ $SNAP/
git -C /repo worktree remove --force $WT 2>/dev/null; git -C /repo worktree add -q --detach $WT HEAD || exit 2
sed -i "s#=> /repo#=> $WT#" $SNAP/harness/go.mod
(cd $SNAP/harness && go build -o $SNAP/bin/vcheck ./cmd/vcheck) || exit 2
for p in "$@"; do for k in m1 m2; do echo "### $p-$k$TAG"; TAG=$TAG /verif/tools/seed.sh $p $k 2>&1 | tail -4 | cut -c1-300; done; done
git -C /repo worktree remove --force $WT; rm -rf $SNAP
echo finished
