#!/usr/bin/env python3
"""designtable.py - refresh the 'quick: cases / real executions / s' column of the per-property table in DESIGN.md from evidence/*.json"""
import json, re
s = open('/verif/DESIGN.md').read()
def fmt(n): return f"{n:,}".replace(",", " ")
out = []
for line in s.split("\n"):
    m = re.match(r"^\| (C\d\d) \|(.*)\|[^|]*\|$", line)
    if m and len(line.split("|")) == 7:
        e = json.load(open(f"/verif/evidence/{m.group(1)}.json"))
        c = e["coverage"]
        line = f"| {m.group(1)} |{m.group(2)}| {fmt(c['evaluations'])} / {fmt(c['real_executions'])} / {round(e['wall_s'])} |"
    out.append(line)
open('/verif/DESIGN.md', 'w').write("\n".join(out))
