#!/usr/bin/env python3
"""resolve3.py <file>... - resolve the conflict hunks `git apply --3way` left in Go files of /repo when a recorded seeded change
is carried over a fix commit: import lines of both sides are united; elsewhere the change's side ("theirs") is taken, with the
spellings the fixes introduced (compare.Text for fmt.Sprintf("%v", ..)) applied to it. The result still has to build and the
change's demonstration still has to fail - tools/reseed.sh checks both."""
import re, sys
for path in sys.argv[1:]:
    s = open(path).read()
    incompare = path.endswith('compare/compare.go')
    def fix(m):
        ours, theirs = m.group(1), m.group(2)
        lines = [l for l in (ours + theirs).splitlines() if l.strip()]
        if lines and all(re.fullmatch(r'\s*"[\w/\.\-]+"', l) for l in lines):
            seen, out = set(), []
            for l in lines:
                if l.strip() not in seen:
                    seen.add(l.strip()); out.append(l)
            return '\n'.join(sorted(out, key=lambda l: ('.' in l.strip().strip('"').split('/')[0], l.strip()))) + '\n'
        t = theirs
        t = re.sub(r'fmt\.Sprintf\("%v", ([^()]*?)\)', (r'Text(\1)' if incompare else r'compare.Text(\1)'), t)
        return t
    s2 = re.sub(r'<<<<<<< ours\n(.*?)=======\n(.*?)>>>>>>> theirs\n', fix, s, flags=re.S)
    open(path, 'w').write(s2)
