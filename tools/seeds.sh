#!/bin/bash
# seeds.sh "<seeds>" [ids...] - run quick checks on the unchanged tree under several VERIF_SEED values; evidence is restored afterwards
cd /verif
seeds="$1"; shift
ids="$@"; [ -n "$ids" ] || ids="C01 C02 C03 C05 C06 C09 C10 C13 C14 C20"
rc=0
for s in $seeds; do for p in $ids; do
  out=$(VERIF_SEED=$s ./bin/vcheck -p $p -tier quick 2>&1); code=$?
  echo "$out" | tail -1
  [ $code -eq 0 ] || { echo "  ^^^ seed=$s exit $code"; echo "$out" | grep -v Warning | tail -15; rc=1; }
done; done
git checkout -q -- evidence
exit $rc
