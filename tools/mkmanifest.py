#!/usr/bin/env python3
"""Regenerates /verif/MANIFEST.json from the table below (one entry per claimed property)."""
import json, subprocess, os
V = os.path.dirname(os.path.dirname(os.path.abspath(__file__)))
ENV = "GOFLAGS=-mod=mod GOPROXY=off GOSUMDB=off GOTOOLCHAIN=local"
TECH = "TLA+ specification model-checked with TLC; TLC-exported behaviours replayed into the Go library; recorded executions trace-validated with TLC"
NOTE = "Exhaustive only within the stated bounds; beyond them sampled by trace validation. Trusts TLC, the harness renderer/codec, and that hooks do not change behaviour."
checks = {
 "C01": dict(cat="model_checking", ref="DESIGN.md 4 C01",
   text="TLC checks the filter laws (exactly the satisfying rows in order, partition by negation, NOT IN / NOT LIKE complement, BETWEEN = >= AND <=, De Morgan) on the TLA+ specification for every table x predicate of a bounded grammar and exports each case; every case is replayed against the real library (exhaustive within the bounds), and seeded random executions beyond the bounds are validated event by event against the trace specification.",
   tech="TLA+ specification (Genql/Engine) model-checked with TLC; TLC-exported behaviours replayed into the Go library; recorded executions trace-validated with TLC (EngineTrace)"),
 "C05": dict(cat="model_checking", ref="DESIGN.md 4 C05",
   text="TLC checks on the specification that the comparator of sort.go yields a permutation whose adjacent pairs respect the key list lexicographically with directions, NULL keys last, that the key-tuple sequence is unique although tie order is not, and that the OFFSET/LIMIT slice arithmetic as coded equals 'positions m..m+n-1 that exist' for every (limit, offset) pair; every enumerated table x key list x window is replayed against the real library and seeded random executions are trace-validated (OrderOK membership, exact window).",
   tech="TLA+ specification (Genql Less/OrderOK/WindowModel, Engine) model-checked with TLC; exported behaviours replayed; recorded executions trace-validated with TLC (EngineTrace)"),
 "C02": dict(cat="model_checking", ref="DESIGN.md 4 C02",
   text="TLC checks on the specification that projection emits one object per kept row whose key set is exactly the select list's names (all source keys for the star item) and whose values are the expression semantics of that row alone, plus sanity laws of the operator semantics (a-b = a+(-b), ~~x = trunc x, NULL operand -> NULL, missing key -> NULL, CASE first true arm); every expression of the bounded grammar (all 11 binary and 3 unary operators over all atom pairs, depth-2 trees, CASE) and every select list of 1-3 items is exported and replayed against the real library; seeded deeper trees are trace-validated.",
   tech="TLA+ specification (Genql Ev/Project, Engine) model-checked with TLC; exported behaviours replayed; recorded executions trace-validated with TLC (EngineTrace)"),
 "C03": dict(cat="model_checking", ref="DESIGN.md 4 C03",
   text="TLC checks on the specification the partition laws (every kept row in exactly one group, members in source order, keys pairwise distinct, first-appearance order, HAVING keeps a subsequence, group counts add up to the filtered row count, every aggregate computed from its own argument over its own group, whole-table aggregates over the filtered rows give exactly one row) for every table x grouping set x select list x WHERE/HAVING of the bounded domain; every case is replayed several times in fresh queries against the real library with the exact output sequence compared; seeded larger cases are trace-validated.",
   tech="TLA+ specification (Genql StGroup/Aggregate/StSelect, Engine) model-checked with TLC; exported behaviours replayed (repeated runs); recorded executions trace-validated with TLC (EngineTrace)"),
 "C06": dict(cat="model_checking", ref="DESIGN.md 4 C06",
   text="TLC checks on the specification that DISTINCT keeps exactly the first occurrence of each distinct row (abstract row equality, with rows whose textual fingerprints coincide), that UNION ALL is concatenation, UNION its de-duplication, chains of one kind are associative and LIMIT/OFFSET apply to the combined sequence; every enumerated table / branch combination is replayed against the real library with the exact sequence compared; seeded 1-4 branch chains are trace-validated.",
   tech="TLA+ specification (Genql Dedup/RunQ union, Engine) model-checked with TLC; exported behaviours replayed; recorded executions trace-validated with TLC (EngineTrace)"),
 "C15": dict(cat="model_checking", ref="DESIGN.md 4 C15",
   text="TLC checks on GoNum.tla that the comparison as coded returns only -1/0/1, equals the order the statement prescribes (mathematical order across all twelve Go numeric kinds, byte-wise on strings, decimal text against string), and is reflexive, antisymmetric, transitive and congruent within each kind class, for every pair and triple of the boundary-value domain; every pair is exported and compare.Compare plus the six WHERE comparison operators are executed on the real Go values (exhaustive over the domain).",
   tech="TLA+ specification (GoNum: rank-based value model, CodeCmp as coded) model-checked with TLC over all pairs/triples; every exported pair replayed into compare.Compare and WHERE on real Go values",
   note="Exhaustive over the stated finite domain only (31 boundary points x 12 kinds + 11 strings). Trusts TLC, the harness (which re-checks each %v text of the specification against fmt) and that float64 represents the points exactly."),
 "C18": dict(cat="model_checking", ref="DESIGN.md 4 C18",
   text="TLC checks on Builtins.tla the algebraic laws of the statement (DECODE(ENCODE(v,b),b)=v for every scalar and base, HASH a function of its arguments with the algorithm's hex length, FIRST/LAST/ELEMENTAT agreement and out-of-range errors, UNWIND one level, ARRAY, IF, case-map idempotence, string<->double round trip, wrong arity -> error) and enumerates every call of the bounded argument domain; every case is executed against the real library in three spellings (FROM dual, per-row FROM a table, literal arguments) and values / errors / opaque-text shape and purity are compared.",
   tech="TLA+ specification (Builtins.tla, ENCODE/HASH uninterpreted) model-checked with TLC; every exported call replayed through genql.New/Exec",
   note="Exhaustive over the stated finite argument domain. Bit-level fidelity of base64/base32/hex/SHA is outside the specification (uninterpreted); only round trip, purity and length are decided. One known finding (CONCAT renders NULL as <nil>)."),
 "C20": dict(cat="model_checking", ref="DESIGN.md 4 C20",
   text="TLC explores Vars.tla - SETVAR / GETVAR as a state machine with one action per call, rows in source order, items left to right, queries of a history sharing the map - and checks in every reachable state that each GETVAR returned the latest preceding SETVAR of its key (else the initial map's value, else NULL), that the map holds the last write per key and that SETVAR adds no column; every terminal behaviour is replayed (rows and the caller's map after every query), and seeded longer histories with logging wrappers around the real functions are validated call by call against VarsTrace.",
   tech="TLA+ specification (Vars.tla) model-checked with TLC; exported behaviours replayed with a shared vars map; call-level traces of the real SETVAR/GETVAR validated with TLC (VarsTrace)"),
 "C09": dict(cat="model_checking", ref="DESIGN.md 4 C09",
   text="TLC evaluates Selector.tla (keys mapping over arrays, index lists consuming successive dimensions with each / ranges, flattening by dims-1 unless keep=>, pipes with conversions, quoted keys, :: continuation, top level functions, NULL propagation, errors for wrong shapes and out-of-range indices or bounds) on every (document, selector) of the bounded domain and checks its laws (a::b = b after a, [each] identity, keep=> vs flattened, NULL stays NULL, out of range is an error); every case is replayed through ExecReader on a fresh copy (value / error equality, no panic, document deep-equal afterwards, object arrays also as a FROM path) together with byte-level mutations of the selector text (no panic, document untouched).",
   tech="TLA+ specification (Selector.tla) model-checked with TLC; every exported (document, selector) replayed through genql.ExecReader; byte-level mutations for totality",
   note="Exhaustive over the stated document x selector domain; 'arbitrary byte strings' are sampled as mutations of the enumerated selectors (only no-panic / no-mutation is demanded there). Results the documented grammar leaves open (%v text of containers under |string, mix=> of objects) are marked unspecified in the specification and only checked for totality."),
 "C07": dict(cat="model_checking", ref="DESIGN.md 4 C07",
   text="RunQ defines CTE references, derived tables and row-scoped subqueries by substitution; TLC checks on every document x query of the bounded families that the composed meaning equals explicit staged evaluation (materialise every CTE / derived table into the document, then run the outer query), that a select-list subquery contributes its standalone value on the row, and that EXISTS is true iff some nested element satisfies the predicate with the outer row's columns in scope; every case is replayed against the real library three ways - composed, staged (inner queries executed alone, results deep-copied into a plain document) and standalone subqueries - all compared with the exported result.",
   tech="TLA+ specification (Genql RunQ/BindCtes/Source/Ev sub, exists; Engine) model-checked with TLC; exported behaviours replayed composed, staged and standalone against the Go library"),
 "C08": dict(cat="model_checking", ref="DESIGN.md 4 C08",
   text="The specification's WHERE stage recurses into elements that are arrays (the whole query is applied inside) and projection passes inner dimensions through; TLC checks for every ragged depth-2 / depth-3 document x filter/projection query that the result is exactly 'the flat query inside every innermost array, nesting preserved' and that mix=> followed by one query is the concatenation; every case is replayed against the real library and, independently of the specification, the flat query is executed on each innermost array alone and compared part by part.",
   tech="TLA+ specification (Genql StWhere recursion / Pipeline, Selector mix) model-checked with TLC; exported behaviours replayed; per-inner-array executions of the real engine compared"),
 "C11": dict(cat="model_checking", ref="DESIGN.md 4 C11",
   text="Markers.tla models everything a query writes into the caller's document (the <- back-reference per row under nested comparison / subquery / EXISTS frames, CTE registration, the EXISTS row extension) with a failure enabled at every step; TLC checks on all behaviours that the document is restored whenever New/Exec return, successfully or not, and - as a non-vacuity audit - that each of the three repaired deviations of the pinned tree violates the invariant. The model is bound to the code by replay: every fault shape of MC_C19 at every fault point k, and reduced configurations of the C01/C03/C05/C06/C07/C08 families, plain and Wrapped, with a cycle-safe deep comparison of the caller's document after every call and after a follow-up call.",
   tech="TLA+ specification (Markers.tla protocol model with fault action; Engine DocUnchanged) model-checked with TLC incl. expected-violation deviation configs; TLC-enumerated query families and fault points replayed with deep document comparison"),
 "C19": dict(cat="fault_enumeration", ref="DESIGN.md 4 C19",
   text="TLC enumerates query shapes with a fault-injecting function in every clause position the engine can express (and self-raising RAISE / RAISE_WHEN / type-error shapes) x tables and gives their fault-free meaning; the harness measures the number N of invocations of the fault-free run and re-runs with the k-th invocation failing for every k in 1..N, plain and Wrapped: New/Exec must report a failure and return no rows, no panic may escape, and the same statement re-run on the same document object must return the fault-free result.",
   tech="TLA+ specification (MC_C19 shapes over Genql/Engine, NoPartial invariant; Markers.tla for the cleanup protocol) model-checked with TLC; exhaustive fault enumeration k = 1..N per exported shape against the Go library",
   note="Exhaustive over the enumerated shapes x tables x every invocation index; other query shapes are not covered. The join ON position cannot hold a function in this engine and is covered by a failing derived table used as a join side."),
 "C12": dict(cat="model_checking", ref="DESIGN.md 4 C12",
   text="TLC checks that every result of the specification is a plain value (recursive Plain predicate: scalars, arrays, objects without a <- key) and a function of (query, document) over the matrix of every expression form in every clause position plus the statement-level forms; every case is executed against the real library and its result walked by reflection (no pointer, func, named engine type, non-finite number, cycle or <- key), passed through encoding/json and re-evaluated twice on equal inputs (equal sequence, or equal multiset where ORDER BY leaves ties / a join is involved).",
   tech="TLA+ specification (Genql/Engine, Plain / Deterministic invariants over the form x position matrix MC_C12) model-checked with TLC; every exported case executed with reflection walk, JSON round trip and repeated evaluation",
   note="The form x position matrix is finite and enumerated exhaustively; values are compared with the specification only as a diagnostic (binding drift), the verdict rests on plainness and determinism. One known finding (an ASYNC call used as a function argument)."),
}
not_applicable = []
m = {
 "version": 1,
 "setup_cmd": "cd /verif/harness && cp /repo/go.sum go.sum && %s go build -o /verif/bin/vcheck ./cmd/vcheck" % ENV,
 "hooks": {
  "guard": "verif",
  "enable": "go build -tags verif (harness module replaces github.com/vedadiyan/genql with /repo)",
  "baseline_off_cmd": "cd /repo && %s go test -vet=off -count=1 -timeout 25m ./..." % ENV,
  "source_commits": json.load(open(os.path.join(V, "tools", "hook_commits.json"))),
  "add_only": True,
 },
 "engines": [{
  "name": "vcheck",
  "path": "/verif/bin/vcheck (source /verif/harness/cmd/vcheck; worker /verif/harness/cmd/worker; specification /verif/spec)",
  "serves_properties": sorted(checks),
  "kind_free_text": "TLC model checking of an explicit TLA+ specification; every terminal behaviour exported by TLC is replayed against the real library, and recorded executions of the real library are validated against the trace specification",
 }],
 "checks": [{
   "property_id": k,
   "quick_cmd": "./bin/vcheck -p %s -tier quick" % k,
   "thorough_cmd": "./bin/vcheck -p %s -tier thorough" % k,
   "evidence_file": "/verif/evidence/%s.json" % k,
   "replay_cmd_template": "./bin/vcheck -p %s -replay {path}" % k,
   "engine": "vcheck",
   "level_claimed": {"category": c["cat"], "text": c["text"], "design_ref": c["ref"]},
   "level_note": c.get("note", NOTE),
   "technique": c.get("tech", TECH),
  } for k, c in sorted(checks.items())],
 "notes": "One vcheck invocation per property: TLC run(s) on spec/MC_<id>.tla with spec/mc/<id>_<tier>.cfg, replay of every exported case in worker processes built from /repo with -tags verif, trace validation of seeded executions, KNOWN_FINDINGS.txt applied. See DESIGN.md.",
 "not_applicable": not_applicable,
}
json.dump(m, open(os.path.join(V, "MANIFEST.json"), "w"), indent=1)
print("checks:", ",".join(sorted(checks)))
