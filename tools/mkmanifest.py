#!/usr/bin/env python3
"""Regenerates /verif/MANIFEST.json from the table below (one entry per claimed property)."""
import json, subprocess, os
V = os.path.dirname(os.path.dirname(os.path.abspath(__file__)))
ENV = "GOFLAGS=-mod=mod GOPROXY=off GOSUMDB=off GOTOOLCHAIN=local"
TECH = "TLA+ specification model-checked with TLC; TLC-exported behaviours replayed into the Go library; recorded executions trace-validated with TLC"
NOTE = "Exhaustive only within the stated bounds; beyond them sampled by trace validation. Trusts TLC, the harness renderer/codec, and that hooks do not change behaviour."
checks = {
 "C01": dict(cat="model_checking", ref="DESIGN.md 4 C01",
   text="TLC checks the filter laws (exactly the satisfying rows in order, partition by negation, NOT IN / NOT LIKE complement, BETWEEN = >= AND <=, De Morgan) on the TLA+ specification for every table x predicate of a bounded grammar and exports each case; every case is replayed against the real library (exhaustive within the bounds), and seeded random executions beyond the bounds are validated event by event against the trace specification.",
   tech="TLA+ specification (Genql/Engine) model-checked with TLC; TLC-exported behaviours replayed into the Go library; recorded executions trace-validated with TLC (EngineTrace)"),
 "C05": dict(cat="model_checking", ref="DESIGN.md 4 C05",
   text="TLC checks on the specification that the comparator of sort.go yields a permutation whose adjacent pairs respect the key list lexicographically with directions, NULL keys last, that the key-tuple sequence is unique although tie order is not, and that the OFFSET/LIMIT slice arithmetic as coded equals 'positions m..m+n-1 that exist' for every (limit, offset) pair; every enumerated table x key list x window is replayed against the real library and seeded random executions are trace-validated (OrderOK membership, exact window).",
   tech="TLA+ specification (Genql Less/OrderOK/WindowModel, Engine) model-checked with TLC; exported behaviours replayed; recorded executions trace-validated with TLC (EngineTrace)"),
}
not_applicable = []
m = {
 "version": 1,
 "setup_cmd": "cd /verif/harness && cp /repo/go.sum go.sum && %s go build -o /verif/bin/vcheck ./cmd/vcheck" % ENV,
 "hooks": {
  "guard": "verif",
  "enable": "go build -tags verif (harness module replaces github.com/vedadiyan/genql with /repo)",
  "baseline_off_cmd": "cd /repo && %s go test -vet=off -count=1 -timeout 25m ./..." % ENV,
  "source_commits": json.load(open(os.path.join(V, "tools", "hook_commits.json"))),
  "add_only": True,
 },
 "engines": [{
  "name": "vcheck",
  "path": "/verif/bin/vcheck (source /verif/harness/cmd/vcheck; worker /verif/harness/cmd/worker; specification /verif/spec)",
  "serves_properties": sorted(checks),
  "kind_free_text": "TLC model checking of an explicit TLA+ specification; every terminal behaviour exported by TLC is replayed against the real library, and recorded executions of the real library are validated against the trace specification",
 }],
 "checks": [{
   "property_id": k,
   "quick_cmd": "./bin/vcheck -p %s -tier quick" % k,
   "thorough_cmd": "./bin/vcheck -p %s -tier thorough" % k,
   "evidence_file": "/verif/evidence/%s.json" % k,
   "replay_cmd_template": "./bin/vcheck -p %s -replay {path}" % k,
   "engine": "vcheck",
   "level_claimed": {"category": c["cat"], "text": c["text"], "design_ref": c["ref"]},
   "level_note": c.get("note", NOTE),
   "technique": c.get("tech", TECH),
  } for k, c in sorted(checks.items())],
 "notes": "One vcheck invocation per property: TLC run(s) on spec/MC_<id>.tla with spec/mc/<id>_<tier>.cfg, replay of every exported case in worker processes built from /repo with -tags verif, trace validation of seeded executions, KNOWN_FINDINGS.txt applied. See DESIGN.md.",
 "not_applicable": not_applicable,
}
json.dump(m, open(os.path.join(V, "MANIFEST.json"), "w"), indent=1)
print("checks:", ",".join(sorted(checks)))
