#!/usr/bin/env python3
# c10cfg.py - rewrite spec/mc/C10_matrix.cfg from the construct names in harness/internal/h/c10.go
import re
src=open('/verif/harness/internal/h/c10.go').read()
blk=src[src.index('var constructs10'):src.index('func init()')]
names=sorted(set(re.findall(r'^\t"([a-z0-9_]+)":',blk,re.M)))
cfg=open('/verif/spec/mc/C10_matrix.cfg').read()
cfg=re.sub(r'Constructs = \{[^}]*\}','Constructs = {'+', '.join('"%s"'%n for n in names)+'}',cfg)
open('/verif/spec/mc/C10_matrix.cfg','w').write(cfg)
print(len(names),'constructs')
