#!/bin/bash
# reseed.sh <seeded-dir-name> [props...] - re-test a recorded seeded change against the current /repo HEAD: the patch is
# applied with a 3-way merge (fix commits made since it was written may have moved its context; the rebased diff
# replaces patch.diff, the original is kept as patch.orig.diff), the suite and the demonstration are re-run, then the
# quick checks of the given properties (default: the change's own). /repo and the evidence files are restored.
export GOFLAGS=-mod=mod GOPROXY=off GOSUMDB=off GOTOOLCHAIN=local
D=/verif/seeded/$1; shift
P=$(basename $D | cut -d- -f1)
props="$@"; [ -n "$props" ] || props=$P
[ -z "$(git -C /repo status --short)" ] || { echo "/repo has uncommitted changes"; exit 1; }
cd /repo
if ! git apply --check $D/patch.diff 2>/dev/null; then
  git apply --3way $D/patch.diff || { echo "patch does not apply, even 3-way"; git reset -q --hard HEAD; exit 4; }
  [ -f $D/patch.orig.diff ] || cp $D/patch.diff $D/patch.orig.diff
  git diff --cached > $D/patch.diff; git reset -q
else
  git apply $D/patch.diff
fi
demo=$(grep -o 'func Test[A-Za-z0-9_]*' $D/demo_test.go | head -1 | sed 's/func //')
suite=ok; go test -vet=off -count=1 ./... >/tmp/seed-suite.log 2>&1 || suite=FAIL
cp $D/demo_test.go /repo/zz_demo_test.go
if go test -vet=off -count=1 -run "^$demo\$" . >/tmp/seed-demo-with.log 2>&1; then with=pass; else with=fail; fi
rm -f /repo/zz_demo_test.go
echo "suite-with-change=$suite demo-with=$with"
res=""
for prop in $props; do
  cp /verif/evidence/$prop.json /tmp/seed-evidence-$prop.json 2>/dev/null
  (cd /verif && ./bin/vcheck -p $prop -tier quick > /tmp/seed-vcheck-$prop.log 2>&1); code=$?
  res="$res $prop:exit$code"
  tail -3 /tmp/seed-vcheck-$prop.log | cut -c1-400
  cp /tmp/seed-evidence-$prop.json /verif/evidence/$prop.json 2>/dev/null
  rm -f /verif/evidence/replays/$prop-*.json
done
git -C /repo checkout -- . ; git -C /repo status --short
echo "RESULT $(basename $D):$res"
echo "$res" > $D/vcheck_result.txt
