------------------------------- MODULE MC_C07 -------------------------------
(* C07 - naming an intermediate result does not change it: CTEs (chains,      *)
(* referenced twice, read through a path selector), aliased derived tables,   *)
(* select-list / IN subqueries evaluated against the current row (after <-    *)
(* against the enclosing document) and EXISTS over a nested array.  RunQ       *)
(* defines all of them by substitution; Staged is the same computation with    *)
(* the inner result materialised into the document first.                      *)
EXTENDS Gen

CONSTANTS MaxRows, MaxNest

N(ps) == ArrV([i \in 1..Len(ps) |-> Row([p |-> NumV(ps[i])])])
Nests == IF MaxNest >= 2 THEN {<<>>, <<1>>, <<2, 5>>} ELSE {<<>>, <<2>>}
TRows == {Row([a |-> NumV(a), g |-> NumV(g), n |-> N(ps)]) : a \in {1, 3}, g \in {0, 1}, ps \in Nests}
URows == {Row([c |-> NumV(i)]) : i \in {1, 3}} \cup {Row([c |-> NumV(2), a |-> Null])}   \* a row sharing the key a, holding NULL
U1 == Row([c |-> NumV(1)])
U3 == Row([c |-> NumV(3)])
UN == Row([c |-> NumV(2), a |-> Null])
\* (a row whose own column a hides the outer row's a inside an EXISTS subquery)
UA == Row([c |-> NumV(5), a |-> NumV(3)])
UTables == {<<>>, <<U1>>, <<U3, U1>>, <<UN>>, <<U1, UN, U3>>, <<U1, UA>>}
Docs == {ObjV([x \in {"t", "u"} |-> IF x = "t" THEN ArrV(t) ELSE ArrV(u)]) : t \in SeqsUpTo(TRows, MaxRows), u \in UTables}

A == Col("a")
G == Col("g")
I(e) == Item(e, "")
SelQ(sel, from, where) == [BaseQ EXCEPT !.sel = sel, !.from = from, !.where = where]
T == Table(<<"t">>, "")

\* ---- inner queries over t
Inners == << SelQ(<<Star>>, T, None),
             SelQ(<<I(A), I(G)>>, T, CmpE(">", A, LN(1))),
             [SelQ(<<I(G), Item(Agg("count", <<>>), "k"), Item(Agg("sum", <<"a">>), "a")>>, T, None) EXCEPT !.group = <<"g">>],
             [SelQ(<<I(A), I(G)>>, T, None) EXCEPT !.order = <<[key |-> <<"a">>, asc |-> FALSE], [key |-> <<"g">>, asc |-> TRUE]>>, !.limit = 2],   \* a total order: no ties
             [SelQ(<<I(G)>>, T, None) EXCEPT !.distinct = TRUE],
             SelQ(<<Item(Bin("+", A, LN(1)), "a"), I(G)>>, T, None),
             SelQ(<<I(A), I(G)>>, T, CmpE(">", A, LN(100))) >>

\* ---- outer queries over a source named by `from` (columns a and g exist in every inner's output)
Outers(from, pre) ==
    LET a == ColP(pre \o <<"a">>)
        g == ColP(pre \o <<"g">>)
    IN  { SelQ(<<Star>>, from, None),
          SelQ(<<I(g)>>, from, CmpE(">=", g, LN(1))),
          SelQ(<<Item(Agg("count", <<>>), "k")>>, from, None),
          SelQ(<<I(a), I(g)>>, from, CmpE("<", a, LN(3))),
          [SelQ(<<I(a)>>, from, None) EXCEPT !.limit = 1, !.offset = 1],
          [SelQ(<<I(a), I(g)>>, from, None) EXCEPT !.order = <<[key |-> <<"a">>, asc |-> TRUE]>>] }
GroupOuter(from) == [SelQ(<<I(G), Item(Agg("count", <<>>), "k")>>, from, None) EXCEPT !.group = <<"g">>]

WithC(inner, outer) == [outer EXCEPT !.with = <<[name |-> "c", q |-> inner]>>]
C == Table(<<"c">>, "")

\* a CTE referenced twice: as the source and, through <-, in an IN subquery
Twice(inner) == WithC(inner, SelQ(<<I(A)>>, C, InSub(A, SelQ(<<I(A)>>, Table(<<"<-", "c">>, ""), CmpE("=", G, LN(1))))))
\* a chain: d reads c
Chain(inner, mid, outer) == [outer EXCEPT !.with = <<[name |-> "c", q |-> inner], [name |-> "d", q |-> mid]>>]
D == Table(<<"d">>, "")
\* ... the first (evaluating) reference under an alias, the second through <-
XA == ColP(<<"x", "a">>)
TwiceAliased(inner) == WithC(inner, SelQ(<<I(XA)>>, Table(<<"c">>, "x"), InSub(XA, SelQ(<<I(A)>>, Table(<<"<-", "c">>, ""), CmpE("=", G, LN(1))))))
\* ... and a chain whose middle query reads c under an alias while the outer query reads c again
ChainAliased(inner) ==
    [SelQ(<<I(A)>>, D, InSub(A, SelQ(<<I(A)>>, Table(<<"<-", "c">>, ""), None))) EXCEPT !.with =
        <<[name |-> "c", q |-> inner], [name |-> "d", q |-> SelQ(<<I(ColP(<<"y", "a">>)), I(ColP(<<"y", "g">>))>>, Table(<<"c">>, "y"), None)]>>]
\* a CTE read through a path selector: c[0].n
PathFrom == [k |-> "sel", as |-> "", sel |-> <<[fn |-> "", steps |-> <<[k |-> "key", name |-> "c"], [k |-> "idx", keep |-> FALSE, dims |-> <<[k |-> "at", i |-> 0]>>], [k |-> "key", name |-> "n"]>>]>>]
PathQ(w) == WithC(SelQ(<<I(A), I(Col("n"))>>, T, w), SelQ(<<Star>>, PathFrom, None))

\* ---- subqueries against the current row / the enclosing document
NQ(sel, w) == SelQ(sel, Table(<<"n">>, ""), w)
P == Col("p")
RA == ColP(<<"r", "a">>)
Subs == { SelQ(<<I(A), Item(Sub(NQ(<<I(P)>>, None)), "s")>>, T, None),
          SelQ(<<I(A), Item(Sub(NQ(<<I(P)>>, CmpE(">", P, LN(1)))), "s")>>, T, None),
          SelQ(<<I(A), Item(Sub(NQ(<<Item(Agg("count", <<>>), "k")>>, None)), "s")>>, T, None),
          SelQ(<<I(A), Item(Sub(SelQ(<<I(Col("c"))>>, Table(<<"<-", "u">>, ""), CmpE(">", Col("c"), LN(1)))), "s")>>, T, None),
          \* correlated through <- : u rows whose c exceeds the outer row's a
          SelQ(<<I(A), Item(Sub(SelQ(<<I(Col("c"))>>, Table(<<"<-", "u">>, ""), CmpE(">", Col("c"), ColP(<<"<-", "a">>)))), "s")>>, T, None),
          \* correlated through <- inside an expression
          SelQ(<<I(A), Item(Sub(SelQ(<<I(Col("c"))>>, Table(<<"<-", "u">>, ""), CmpE(">", Col("c"), Bin("+", ColP(<<"<-", "a">>), LN(1))))), "s")>>, T, None),
          SelQ(<<I(A), Item(Sub(SelQ(<<I(Col("c"))>>, Table(<<"<-", "u">>, ""), CmpE(">", Bin("-", Col("c"), ColP(<<"<-", "a">>)), LN(0)))), "s")>>, T, None),
          \* EXISTS over a table of the enclosing document whose rows share a key with the outer row
          SelQ(<<I(A)>>, T, Exists(SelQ(<<Star>>, Table(<<"<-", "u">>, ""), CmpE(">", Col("c"), LN(1))))),
          SelQ(<<I(A)>>, T, Exists(SelQ(<<Star>>, Table(<<"<-", "u">>, ""), CmpE(">=", Col("c"), A)))),
          \* a column of the element and a column of the outer row under one name: the element's own hides the outer one
          SelQ(<<I(A)>>, T, Exists(SelQ(<<Star>>, Table(<<"<-", "u">>, ""), CmpE("=", A, LN(3))))),
          SelQ(<<I(A)>>, T, Exists(SelQ(<<Star>>, Table(<<"<-", "u">>, ""), AndE(CmpE(">", Col("c"), LN(3)), CmpE("!=", A, LN(3)))))),
          \* a WITH clause inside a row-scoped subquery
          SelQ(<<I(A), Item(Sub([NQ(<<I(P)>>, None) EXCEPT !.from = Table(<<"big">>, ""),
                                    !.with = <<[name |-> "big", q |-> NQ(<<I(P)>>, CmpE(">", P, LN(1)))]>>]), "s")>>, T, None),
          SelQ(<<I(A)>>, T, InSub(A, SelQ(<<I(Col("c"))>>, Table(<<"<-", "u">>, ""), None))),
          SelQ(<<I(A)>>, T, Exists(NQ(<<Star>>, CmpE(">", P, LN(1))))),
          SelQ(<<I(A)>>, T, Exists(NQ(<<Star>>, CmpE(">", P, A)))),
          SelQ(<<I(A)>>, T, NotE(Exists(NQ(<<Star>>, CmpE(">", P, A))))),
          SelQ(<<I(A)>>, T, AndE(Exists(NQ(<<Star>>, None)), CmpE(">", A, LN(1)))),
          \* the outer table under an alias: the predicate of the EXISTS subquery reaches the outer row's columns through it
          SelQ(<<I(RA)>>, Table(<<"t">>, "r"), Exists(SelQ(<<Star>>, Table(<<"r", "n">>, ""), CmpE(">", P, RA)))),
          SelQ(<<I(RA)>>, Table(<<"t">>, "r"), NotE(Exists(SelQ(<<Star>>, Table(<<"r", "n">>, ""), CmpE(">", P, RA))))),
          SelQ(<<I(RA)>>, Table(<<"t">>, "r"), Exists(SelQ(<<Star>>, Table(<<"<-", "u">>, ""), CmpE(">=", Col("c"), RA)))) }

\* two sibling derived tables, each with a WITH of its own (both sides of a join; both branches of a union)
WithQ(name, tbl, col) == [SelQ(<<I(Col(col))>>, Table(<<name>>, ""), None) EXCEPT !.with = <<[name |-> name, q |-> SelQ(<<I(Col(col))>>, Table(<<tbl>>, ""), None)]>>]
SiblingJoin == [BaseQ EXCEPT !.from = [k |-> "join", type |-> "inner", kw |-> "", l |-> Derived(WithQ("c", "t", "a"), "x"), r |-> Derived(WithQ("d", "u", "c"), "y"),
                                      on |-> CmpE("=", ColP(<<"x", "a">>), ColP(<<"y", "c">>))]]
SiblingUnion == [k |-> "union", all |-> TRUE, limit |-> -1, offset |-> -1,
                 l |-> [BaseQ EXCEPT !.from = Derived(WithQ("c", "t", "a"), "x")], r |-> [BaseQ EXCEPT !.from = Derived(WithQ("d", "u", "c"), "x")]]
\* nothing but a star and an ORDER BY: a pure renaming of u - except for the order (c is different in every row of u)
StarOrdered == [SelQ(<<Star>>, Table(<<"u">>, ""), None) EXCEPT !.order = <<[key |-> <<"c">>, asc |-> FALSE]>>]
XC == ColP(<<"x", "c">>)
Renamed == {SelQ(<<Star>>, Derived(StarOrdered, "x"), None), SelQ(<<I(XC)>>, Derived(StarOrdered, "x"), CmpE(">", XC, LN(0))),
            [SelQ(<<I(XC)>>, Derived(StarOrdered, "x"), None) EXCEPT !.limit = 1],
            WithC(StarOrdered, SelQ(<<Star>>, C, None)), [WithC(StarOrdered, SelQ(<<I(Col("c"))>>, C, None)) EXCEPT !.limit = 1]}
\* an outer join whose preserved side is a table without alias (its rows are the caller's own objects), on a condition
\* the nested loop has to evaluate, with rows that find no partner
UnaliasedOuter(ty) ==
    [BaseQ EXCEPT !.from = [k |-> "join", type |-> ty, kw |-> "",
                            l |-> IF ty = "left" THEN Table(<<"t">>, "") ELSE Table(<<"u">>, "y"),
                            r |-> IF ty = "left" THEN Table(<<"u">>, "y") ELSE Table(<<"t">>, ""),
                            on |-> AndE(CmpE("=", Col("a"), ColP(<<"y", "c">>)), CmpE("<", Col("g"), ColP(<<"y", "c">>)))]]
\* a name defined by the outer WITH and, differently, by a WITH inside a derived table: the outer query goes on reading its own
ShadowWith ==
    [SelQ(<<I(ColP(<<"x", "a">>)), I(ColP(<<"y", "g">>))>>,
          [k |-> "join", type |-> "inner", kw |-> "",
           l |-> Derived([SelQ(<<Item(Col("c"), "a")>>, C, None) EXCEPT !.with = <<[name |-> "c", q |-> SelQ(<<I(Col("c"))>>, Table(<<"u">>, ""), None)]>>], "x"),
           r |-> Table(<<"c">>, "y"), on |-> CmpE("=", ColP(<<"x", "a">>), ColP(<<"y", "a">>))],
          None) EXCEPT !.with = <<[name |-> "c", q |-> SelQ(<<I(A), I(G)>>, T, None)]>>]
NestedWith == [SelQ(<<I(A), I(G)>>, D, None) EXCEPT !.with = <<[name |-> "d", q |-> SelQ(<<I(A), I(G)>>, T, CmpE(">", A, LN(0)))]>>]
UnionSideWith == [k |-> "union", all |-> TRUE, limit |-> -1, offset |-> -1, l |-> WithQ("c", "t", "a"), r |-> WithQ("d", "u", "c")]
\* a CTE read twice: first through SELECT * ... ORDER BY (which must not reorder what the second read sees)
OrderedThenFirst ==
    [SelQ(<<I(ColP(<<"x", "a">>))>>, Table(<<"d">>, "x"), InSub(ColP(<<"x", "a">>), [SelQ(<<I(A)>>, Table(<<"<-", "c">>, ""), None) EXCEPT !.limit = 1])) EXCEPT !.with =
        <<[name |-> "c", q |-> SelQ(<<I(A), I(G)>>, T, None)],
          [name |-> "d", q |-> [SelQ(<<Star>>, C, None) EXCEPT !.order = <<[key |-> <<"a">>, asc |-> FALSE], [key |-> <<"g">>, asc |-> FALSE]>>]]>>]

\* aggregates without GROUP BY in two stages, spelled alike (COUNT(*) over a derived table / a CTE that is itself a COUNT(*))
AggInner == SelQ(<<Item(Agg("count", <<>>), "a"), Item(Agg("max", <<"g">>), "g")>>, T, CmpE(">", A, LN(1)))
AggOuter(from, pre) == SelQ(<<Item(Agg("count", <<>>), "k"), Item(Agg("max", pre \o <<"a">>), "top"), Item(Agg("max", pre \o <<"g">>), "g")>>, from, None)
DualInner == SelQ(<<Item(LN(3), "a"), Item(LN(1), "g"), Item(Col("u"), "us")>>, Dual, None)
Cases ==
       {[fam |-> "cte", q |-> WithC(Inners[i], o)] : i \in DOMAIN Inners, o \in Outers(C, <<>>) \cup {GroupOuter(C)}}
  \cup {[fam |-> "derived", q |-> o] : o \in UNION {Outers(Derived(Inners[i], "x"), <<"x">>) : i \in DOMAIN Inners}}
  \cup {[fam |-> "chain", q |-> Chain(Inners[i], m, o)] : i \in {1, 2, 6}, m \in {SelQ(<<I(A), I(G)>>, C, CmpE("<=", G, LN(0))), SelQ(<<Star>>, C, None)},
                                                         o \in {SelQ(<<Star>>, D, None), SelQ(<<Item(Agg("count", <<>>), "k")>>, D, None), SelQ(<<I(A)>>, D, CmpE(">", A, LN(1)))}}
  \cup {[fam |-> "twice", q |-> Twice(Inners[i])] : i \in {1, 2, 6, 7}}
  \cup {[fam |-> "twice", q |-> TwiceAliased(Inners[i])] : i \in {1, 2, 6, 7}}
  \cup {[fam |-> "chain", q |-> ChainAliased(Inners[i])] : i \in {1, 2, 6}}
  \cup {[fam |-> "path", q |-> PathQ(w)] : w \in {None, CmpE(">", A, LN(1)), CmpE(">", A, LN(100))}}
  \cup {[fam |-> "sub", q |-> s] : s \in Subs}
  \cup {[fam |-> "sibling", q |-> SiblingJoin], [fam |-> "sibling", q |-> SiblingUnion], [fam |-> "twice", q |-> OrderedThenFirst]}
  \* a CTE whose body has a WITH of its own, read twice (the memo must land where the second reference looks);
  \* a UNION whose sides carry their own WITH (there is no WITH in front of the UNION to replace them)
  \cup {[fam |-> "derived", q |-> r] : r \in Renamed}
  \cup {[fam |-> "sibling", q |-> UnaliasedOuter(ty)] : ty \in {"left", "right"}}
  \cup {[fam |-> "sibling", q |-> ShadowWith]}
  \* a CTE named like the table of the document its body reads (a CTE is not recursive: inside its body the name
  \* still means the document's table); a later CTE reading it; an inner WITH re-using the name of an outer CTE
  \cup {[fam |-> "cte", q |-> [o EXCEPT !.with = <<[name |-> "t", q |-> SelQ(<<I(A), I(G)>>, T, CmpE(">", A, LN(1)))]>>]] : o \in Outers(T, <<>>)}
  \cup {[fam |-> "chain", q |-> [SelQ(<<Star>>, D, None) EXCEPT !.with = <<[name |-> "t", q |-> SelQ(<<I(A), I(G)>>, T, CmpE(">", A, LN(1)))],
                                                                         [name |-> "d", q |-> SelQ(<<I(G)>>, T, None)]>>]],
        [fam |-> "derived", q |-> WithC(SelQ(<<I(A), I(G)>>, T, None),
                                        SelQ(<<Star>>, Derived(WithC(SelQ(<<I(A)>>, C, CmpE(">", A, LN(1))), SelQ(<<Star>>, C, None)), "x"), None))]}
  \cup {[fam |-> "derived", q |-> AggOuter(Derived(AggInner, "x"), <<"x">>)], [fam |-> "cte", q |-> WithC(AggInner, AggOuter(C, <<>>))],
        [fam |-> "derived", q |-> AggOuter(Derived(AggOuter(Derived(AggInner, "y"), <<"y">>), "x"), <<"x">>)]}
  \* a CTE / a derived table over dual: one row made by the select list from the document itself
  \cup {[fam |-> "cte", q |-> WithC(DualInner, o)] : o \in Outers(C, <<>>) \cup {GroupOuter(C)}}
  \cup {[fam |-> "derived", q |-> o] : o \in Outers(Derived(DualInner, "x"), <<"x">>)}
  \cup {[fam |-> "cte", q |-> WithC(SelQ(<<Star>>, Dual, None), SelQ(<<Star>>, Table(<<"c", "u">>, ""), None))],
        [fam |-> "sub", q |-> SelQ(<<I(A), Item(Sub(SelQ(<<Star>>, Dual, None)), "s")>>, T, None)],
        [fam |-> "sub", q |-> SelQ(<<I(A), Item(Sub(SelQ(<<I(G), Item(Bin("+", A, LN(1)), "b")>>, Dual, None)), "s")>>, T, CmpE(">", A, LN(1)))]}
  \cup {[fam |-> "twice", q |-> Twice(NestedWith)], [fam |-> "twice", q |-> TwiceAliased(NestedWith)], [fam |-> "sibling", q |-> UnionSideWith],
        [fam |-> "sibling", q |-> [UnionSideWith EXCEPT !.all = FALSE]]}

Init == /\ \E d \in Docs : \E c \in Cases : cs = [fam |-> c.fam, q |-> c.q, doc |-> d]
        /\ EngineInit
Next == EngineNext
Spec == Init /\ [][Next]_vars

---------------------------------------------------------------------------
\* staged evaluation: every CTE body is run first and its result put into the document as plain
\* input; a derived table likewise under a fresh name; then the outer query runs without WITH
RECURSIVE Materialise(_, _)
Materialise(with, doc) ==
    IF with = <<>> THEN doc
    ELSE LET v == RunQ(Head(with).q, doc)
         IN  IF IsErr(v) THEN Err ELSE Materialise(Tail(with), Put(doc, Head(with).name, v))
RECURSIVE Staged(_, _)
Staged(q, doc) ==
    IF q.k = "union" THEN
        \* both branches staged, then combined as the union prescribes
        LET a == Staged(q.l, doc) b == Staged(q.r, doc)
        IN  IF IsErr(a) \/ IsErr(b) THEN Err
            ELSE LET c == a.e \o b.e IN ArrV(Window(IF q.all THEN c ELSE Dedup(c), q.offset, q.limit))
    ELSE
    LET d == Materialise(q.with, doc) IN
    IF IsErr(d) THEN Err
    ELSE IF q.from.k = "derived"
    THEN LET v == RunQ(q.from.q, d)
         IN  IF IsErr(v) THEN Err
             ELSE RunQ([q EXCEPT !.with = <<>>, !.from = Table(<<"zz_derived">>, q.from.as)], Put(d, "zz_derived", v))
    ELSE RunQ([q EXCEPT !.with = <<>>], d)

ComposedIsStaged == Done => res = Staged(cs.q, cs.doc)

\* a select-list subquery contributes what it returns standalone on that row; EXISTS is true iff
\* some element of the nested array satisfies the predicate (which may mention outer columns)
SubLaw ==
    (Ok /\ cs.fam = "sub") =>
        LET kept == Stage("where")
            it   == cs.q.sel[Len(cs.q.sel)]
        IN  it.e.k = "sub" =>
              \A i \in DOMAIN res.e : res.e[i].f["s"] = RunQ(it.e.q, Marked(kept[i], cs.doc))
ExistsLaw ==
    (Ok /\ cs.fam = "sub" /\ cs.q.where.k = "exists" /\ cs.q.where.q.from.p = <<"n">>) =>
        LET w == cs.q.where.q.where
            tbl == cs.doc.f["t"].e
            sat(r) == \E j \in DOMAIN r.f["n"].e :
                         IsNone(w) \/ Ev(w, Merge(r.f["n"].e[j], Marked(r, cs.doc)), Marked(r, cs.doc)) = BoolV(TRUE)
        IN  Len(res.e) = Cardinality({i \in DOMAIN tbl : sat(tbl[i])})

\* engine-internal objects (thunks, markers) never show up in a result
NoInternals == Ok => \A i \in DOMAIN res.e : IsObj(res.e[i]) => ~("<-" \in Keys(res.e[i]))

Export ==
    Done => PrintT(ToJson([q |-> cs.q, doc |-> cs.doc, fam |-> cs.fam, hist |-> hist, res |-> res,
                           ties |-> (cs.q.k = "select" /\ cs.q.order # <<>> /\ HasStage("distinct") /\ HasTies(Stage("distinct"), cs.q.order))]))
=============================================================================
