------------------------------ MODULE Values ------------------------------
(***************************************************************************)
(* JSON-like values as the genql engine sees them, in a tagged encoding     *)
(* that is at the same time the wire format between TLC and the Go harness  *)
(* (the Json community module cannot read JSON null or non-integers).       *)
(*                                                                         *)
(*   [t |-> "null"]                                                        *)
(*   [t |-> "bool", b |-> BOOLEAN]                                         *)
(*   [t |-> "num",  n |-> Int, d |-> Nat \ {0}]   normalised rational n/d  *)
(*   [t |-> "str",  c |-> Seq(Nat)]               code points              *)
(*   [t |-> "arr",  e |-> Seq(Value)]                                      *)
(*   [t |-> "obj",  f |-> [SUBSET STRING -> Value]]                        *)
(*   [t |-> "err"]                                 evaluation failed       *)
(***************************************************************************)
EXTENDS Integers, Sequences, FiniteSets, TLC

Null      == [t |-> "null"]
Err       == [t |-> "err"]
BoolV(b)  == [t |-> "bool", b |-> b]
StrV(c)   == [t |-> "str", c |-> c]
ArrV(e)   == [t |-> "arr", e |-> e]
ObjV(f)   == [t |-> "obj", f |-> f]
EmptyObj  == ObjV([k \in {} |-> Null])

\* a result the properties leave open: the harness only demands that no panic escapes
Unspec    == [t |-> "any"]
IsAny(v)  == v.t = "any"
IsNull(v) == v.t = "null"
IsErr(v)  == v.t = "err"
IsNum(v)  == v.t = "num"
IsStr(v)  == v.t = "str"
IsBool(v) == v.t = "bool"
IsArr(v)  == v.t = "arr"
IsObj(v)  == v.t = "obj"

Abs(x) == IF x < 0 THEN -x ELSE x
Min2(a, b) == IF a < b THEN a ELSE b
Max2(a, b) == IF a > b THEN a ELSE b

RECURSIVE GCD(_, _)
GCD(a, b) == IF b = 0 THEN a ELSE GCD(b, a % b)

\* normalised rational
Rat(n, d) == LET s == IF d < 0 THEN -1 ELSE 1
                 g == GCD(Abs(n), Abs(d))
             IN  [t |-> "num", n |-> (s * n) \div g, d |-> (s * d) \div g]
NumV(n)   == [t |-> "num", n |-> n, d |-> 1]

RAdd(a, b) == Rat(a.n * b.d + b.n * a.d, a.d * b.d)
RSub(a, b) == Rat(a.n * b.d - b.n * a.d, a.d * b.d)
RMul(a, b) == Rat(a.n * b.n, a.d * b.d)
RDiv(a, b) == Rat(a.n * b.d, a.d * b.n)          \* b.n # 0
RNeg(a)    == [t |-> "num", n |-> -a.n, d |-> a.d]
RIsZero(a) == a.n = 0
\* truncation toward zero: Go's int64(float64)
Trunc(a)   == IF a.n >= 0 THEN a.n \div a.d ELSE -((-a.n) \div a.d)
RCmp(a, b) == LET x == a.n * b.d
                  y == b.n * a.d
              IN  IF x < y THEN -1 ELSE IF x > y THEN 1 ELSE 0

---------------------------------------------------------------------------
\* sequences of code points

RECURSIVE SeqCmp(_, _)
SeqCmp(s, u) ==
    IF s = <<>> /\ u = <<>> THEN 0
    ELSE IF s = <<>> THEN -1
    ELSE IF u = <<>> THEN 1
    ELSE IF Head(s) < Head(u) THEN -1
    ELSE IF Head(s) > Head(u) THEN 1
    ELSE SeqCmp(Tail(s), Tail(u))

RECURSIVE NatDigits(_)
NatDigits(n) == IF n < 10 THEN <<48 + n>> ELSE NatDigits(n \div 10) \o <<48 + (n % 10)>>

\* fractional digits of r/d (0 <= r < d), at most k of them, trailing zeros never produced
RECURSIVE FracDigits(_, _, _)
FracDigits(r, d, k) ==
    IF r = 0 \/ k = 0 THEN <<>>
    ELSE <<48 + ((r * 10) \div d)>> \o FracDigits((r * 10) % d, d, k - 1)

\* drops trailing zeros (48) of a digit sequence
RECURSIVE StripZeros(_)
StripZeros(s) == IF s # <<>> /\ s[Len(s)] = 48 THEN StripZeros(SubSeq(s, 1, Len(s) - 1)) ELSE s

\* Go's %v of a float64 (shortest %g: plain digits below 1e+06, d.ddde+XX from there on), for
\* the values the models use: |x| >= 1e-4 or 0, at most 8 fractional digits, exponent < 100
NumText(a) ==
    LET m  == Abs(a.n)
        ip == m \div a.d
        fr == FracDigits(m % a.d, a.d, 8)
        sg == IF a.n < 0 THEN <<45>> ELSE <<>>
        id == NatDigits(ip)
        ex == Len(id) - 1
        ds == StripZeros(id \o fr)
    IN  IF ip < 1000000
        THEN sg \o id \o (IF fr = <<>> THEN <<>> ELSE <<46>> \o fr)
        ELSE sg \o <<ds[1]>> \o (IF Len(ds) > 1 THEN <<46>> \o SubSeq(ds, 2, Len(ds)) ELSE <<>>)
                \o <<101, 43>> \o (IF ex < 10 THEN <<48>> ELSE <<>>) \o NatDigits(ex)

TrueText  == <<116, 114, 117, 101>>
FalseText == <<102, 97, 108, 115, 101>>
NilText   == <<60, 110, 105, 108, 62>>          \* "<nil>"

\* fmt.Sprintf("%v", v) for scalars
Text(v) == CASE IsStr(v)  -> v.c
             [] IsNum(v)  -> NumText(v)
             [] IsBool(v) -> IF v.b THEN TrueText ELSE FalseText
             [] OTHER     -> NilText

IsScalar(v) == v.t \in {"null", "bool", "num", "str"}

\* The order used by WHERE / ORDER BY / IN / joins (property C15, restricted to
\* what JSON documents contain): numbers by value, otherwise by %v text.
Cmp(a, b) == IF IsNum(a) /\ IsNum(b) THEN RCmp(a, b) ELSE SeqCmp(Text(a), Text(b))

Lower(c) == IF c >= 65 /\ c <= 90 THEN c + 32 ELSE c
LowerSeq(s) == [i \in 1..Len(s) |-> Lower(s[i])]

\* SQL LIKE: % any run, _ one code point, everything else literal; ASCII case-insensitive
RECURSIVE LikeM(_, _)
LikeM(s, p) ==
    IF p = <<>> THEN s = <<>>
    ELSE IF Head(p) = 37 THEN LikeM(s, Tail(p)) \/ (s # <<>> /\ LikeM(Tail(s), p))
    ELSE IF s = <<>> THEN FALSE
    ELSE IF Head(p) = 95 THEN LikeM(Tail(s), Tail(p))
    ELSE Lower(Head(s)) = Lower(Head(p)) /\ LikeM(Tail(s), Tail(p))

---------------------------------------------------------------------------
\* objects and sequences

Keys(o)   == DOMAIN o.f
Has(o, k) == IsObj(o) /\ k \in DOMAIN o.f
Get(o, k) == IF Has(o, k) THEN o.f[k] ELSE Null
Put(o, k, v) == ObjV([x \in (DOMAIN o.f) \cup {k} |-> IF x = k THEN v ELSE o.f[x]])
Obj1(k, v)   == ObjV([x \in {k} |-> v])
\* right-biased merge (maps.Copy(dst, src) twice)
Merge(a, b) == ObjV([x \in (DOMAIN a.f) \cup (DOMAIN b.f) |-> IF x \in DOMAIN b.f THEN b.f[x] ELSE a.f[x]])

Range(s) == {s[i] : i \in DOMAIN s}

\* keeps the elements whose index is in the set idx, in order
FilterSeq(s, idx) == LET F[i \in 0..Len(s)] ==
                           IF i = 0 THEN <<>>
                           ELSE IF i \in idx THEN Append(F[i - 1], s[i]) ELSE F[i - 1]
                     IN  F[Len(s)]

RECURSIVE Concat(_)
\* flatten a sequence of sequences
Concat(ss) == IF ss = <<>> THEN <<>> ELSE Head(ss) \o Concat(Tail(ss))

Count(s, x) == Cardinality({i \in DOMAIN s : s[i] = x})
\* bag (multiset) equality of two sequences without enumerating permutations
BagEq(s, u) == /\ Len(s) = Len(u)
               /\ \A i \in DOMAIN s : Count(s, s[i]) = Count(u, s[i])

\* the non-NULL elements of a sequence of values, in order
NonNullArgs(s) == FilterSeq(s, {i \in DOMAIN s : ~IsNull(s[i])})

\* constant names are TLA+ strings (record fields); the few the models use, as code points
KeyText(k) == CASE k = "k" -> <<107>> [] k = "s" -> <<115>> [] k = "pi" -> <<112, 105>> [] OTHER -> <<-3>>

AnyErr(s) == \E i \in DOMAIN s : IsErr(s[i])

\* first-occurrence de-duplication
Dedup(s) == LET F[i \in 0..Len(s)] ==
                  IF i = 0 THEN <<>>
                  ELSE IF \E j \in 1..(i - 1) : s[j] = s[i] THEN F[i - 1] ELSE Append(F[i - 1], s[i])
            IN  F[Len(s)]

\* elements m+1 .. m+n of s that exist  (OFFSET m LIMIT n); n = -1 means no limit, m = -1 no offset
Window(s, m, n) == LET off == IF m < 0 THEN 0 ELSE m
                       lim == IF n < 0 THEN Len(s) ELSE n
                   IN  SubSeq(s, off + 1, Min2(off + lim, Len(s)))
=============================================================================
