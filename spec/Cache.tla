-------------------------------- MODULE Cache --------------------------------
(***************************************************************************)
(* The process-wide selector parse cache of ExecReader (property C13):      *)
(* goroutines evaluate selector texts concurrently; a text is parsed on     *)
(* first use and the parse stored in a Go map guarded by one mutex.  A Go    *)
(* map tolerates concurrent reads but no access concurrent with a write,     *)
(* so every map access is a begin / end pair and overlap is a state.         *)
(*                                                                         *)
(*   sel[g]    the text goroutine g evaluates                               *)
(*   pc[g]     "start" "locked" "writing" "stored" "reading" "read"          *)
(*             "unlocked" "done"                                             *)
(*   holder    the goroutine holding the mutex, or 0                         *)
(*   cache     the set of texts in the map                                   *)
(*   open      the map accesses in progress: [g, kind]                       *)
(*   got[g]    the entry g evaluates with ("" before)                        *)
(* Dev_ReadAfterUnlock: the pinned protocol read the entry after Unlock.     *)
(***************************************************************************)
EXTENDS Integers, FiniteSets, TLC

\* (the @type comments are for Apalache - CacheInd.tla discharges an inductive invariant; TLC ignores them)
CONSTANTS
    \* @type: Int;
    G,
    \* @type: Set(Str);
    Texts,
    \* @type: Bool;
    Dev_ReadAfterUnlock,
    \* @type: Set(Int);
    Nested,              \* the set of goroutines whose evaluation resolves a CTE: the selector steps call
                         \* ExecReader again, on the same goroutine, before the outer call returns
    \* @type: Bool;
    Dev_EvalUnderLock    \* deviation: the mutex is released only after the selector has been evaluated

VARIABLES
    \* @type: Int -> Str;
    sel,
    \* @type: Int -> Str;
    pc,
    \* @type: Int;
    holder,
    \* @type: Set(Str);
    cache,
    \* @type: Set({g: Int, kind: Str});
    open,
    \* @type: Int -> Str;
    got,
    \* @type: Int -> Str;
    inner
cvars == <<sel, pc, holder, cache, open, got, inner>>

Gs == 1..G
CInit ==
    /\ sel \in [Gs -> Texts]
    /\ pc = [g \in Gs |-> "start"] /\ holder = 0 /\ cache = {} /\ open = {} /\ got = [g \in Gs |-> ""]
    /\ inner = [g \in Gs |-> "none"]       \* "none" | "waiting" (the nested call wants the mutex) | "done"

Lock(g) == /\ pc[g] = "start" /\ holder = 0
           /\ holder' = g /\ pc' = [pc EXCEPT ![g] = "locked"] /\ UNCHANGED <<sel, cache, open, got, inner>>

\* the lookup `_, ok := cache[selector]` is a read access; a miss leads to parse + store
Lookup(g) == /\ pc[g] = "locked"
             /\ pc' = [pc EXCEPT ![g] = IF sel[g] \in cache THEN "stored" ELSE "writing"]
             /\ open' = IF sel[g] \in cache THEN open ELSE open \cup {[g |-> g, kind |-> "write"]}
             /\ UNCHANGED <<sel, holder, cache, got, inner>>
EndWrite(g) == /\ pc[g] = "writing"
               /\ cache' = cache \cup {sel[g]} /\ open' = open \ {[g |-> g, kind |-> "write"]}
               /\ pc' = [pc EXCEPT ![g] = "stored"] /\ UNCHANGED <<sel, holder, got, inner>>

Unlock(g) == /\ holder = g
             /\ \/ (~Dev_ReadAfterUnlock /\ ~Dev_EvalUnderLock /\ pc[g] = "read")
                \/ (Dev_ReadAfterUnlock /\ pc[g] = "stored")
                \/ (Dev_EvalUnderLock /\ pc[g] = "evaluated")
             /\ holder' = 0
             /\ pc' = [pc EXCEPT ![g] = IF Dev_ReadAfterUnlock THEN "unlocked" ELSE IF Dev_EvalUnderLock THEN "done" ELSE "evaluating"]
             /\ UNCHANGED <<sel, cache, open, got, inner>>

BeginRead(g) == /\ pc[g] = IF Dev_ReadAfterUnlock THEN "unlocked" ELSE "stored"
                /\ open' = open \cup {[g |-> g, kind |-> "read"]}
                /\ pc' = [pc EXCEPT ![g] = "reading"] /\ UNCHANGED <<sel, holder, cache, got, inner>>
EndRead(g) == /\ pc[g] = "reading"
              /\ got' = [got EXCEPT ![g] = IF sel[g] \in cache THEN sel[g] ELSE "missing"]
              /\ open' = open \ {[g |-> g, kind |-> "read"]}
              /\ pc' = [pc EXCEPT ![g] = IF Dev_ReadAfterUnlock \/ Dev_EvalUnderLock THEN "evaluating" ELSE "read"]
              /\ UNCHANGED <<sel, holder, cache, inner>>

\* evaluation of the selector steps; for a Nested goroutine they resolve a CTE, whose FROM path goes through
\* ExecReader again: the nested call needs the (non-reentrant) mutex, takes it, and gives it back
NestedWant(g) == /\ pc[g] = "evaluating" /\ g \in Nested /\ inner[g] = "none"
                 /\ inner' = [inner EXCEPT ![g] = "waiting"] /\ UNCHANGED <<sel, pc, holder, cache, open, got>>
NestedRun(g) == /\ pc[g] = "evaluating" /\ inner[g] = "waiting" /\ holder = 0
                /\ inner' = [inner EXCEPT ![g] = "done"] /\ UNCHANGED <<sel, pc, holder, cache, open, got>>
Eval(g) == /\ pc[g] = "evaluating" /\ (g \in Nested => inner[g] = "done")
           /\ pc' = [pc EXCEPT ![g] = IF Dev_EvalUnderLock THEN "evaluated" ELSE "done"]
           /\ UNCHANGED <<sel, holder, cache, open, got, inner>>

CNext == \E g \in Gs : Lock(g) \/ Lookup(g) \/ EndWrite(g) \/ Unlock(g) \/ BeginRead(g) \/ EndRead(g) \/ Eval(g) \/ NestedWant(g) \/ NestedRun(g)
CSpec == CInit /\ [][CNext]_cvars /\ WF_cvars(CNext)

---------------------------------------------------------------------------
CTypeOK == holder \in 0..G /\ cache \subseteq Texts
\* no map access is in progress while another goroutine writes the map
NoOverlap == \A a, b \in open : (a.g # b.g) => (a.kind = "read" /\ b.kind = "read")
\* every goroutine evaluates with the parse of its own text
OwnEntry == \A g \in Gs : pc[g] \in {"evaluating", "evaluated", "done"} => got[g] = sel[g]
\* map accesses by the holder only (as coded now)
UnderLock == ~Dev_ReadAfterUnlock => \A a \in open : holder = a.g
\* nobody waits for a mutex it holds itself (a re-entrant ExecReader under a held lock never returns)
NoSelfDeadlock == \A g \in Gs : ~(inner[g] = "waiting" /\ holder = g)
AllDone == <>(\A g \in Gs : pc[g] = "done")
=============================================================================
