-------------------------------- MODULE Cache --------------------------------
(***************************************************************************)
(* The process-wide selector parse cache of ExecReader (property C13):      *)
(* goroutines evaluate selector texts concurrently; a text is parsed on     *)
(* first use and the parse stored in a Go map guarded by one mutex.  A Go    *)
(* map tolerates concurrent reads but no access concurrent with a write,     *)
(* so every map access is a begin / end pair and overlap is a state.         *)
(*                                                                         *)
(*   sel[g]    the text goroutine g evaluates                               *)
(*   pc[g]     "start" "locked" "writing" "stored" "reading" "read"          *)
(*             "unlocked" "done"                                             *)
(*   holder    the goroutine holding the mutex, or 0                         *)
(*   cache     the set of texts in the map                                   *)
(*   open      the map accesses in progress: [g, kind]                       *)
(*   got[g]    the entry g evaluates with ("" before)                        *)
(* Dev_ReadAfterUnlock: the pinned protocol read the entry after Unlock.     *)
(***************************************************************************)
EXTENDS Integers, FiniteSets, TLC

CONSTANTS G, Texts, Dev_ReadAfterUnlock

VARIABLES sel, pc, holder, cache, open, got
cvars == <<sel, pc, holder, cache, open, got>>

Gs == 1..G
CInit ==
    /\ sel \in [Gs -> Texts]
    /\ pc = [g \in Gs |-> "start"] /\ holder = 0 /\ cache = {} /\ open = {} /\ got = [g \in Gs |-> ""]

Lock(g) == /\ pc[g] = "start" /\ holder = 0
           /\ holder' = g /\ pc' = [pc EXCEPT ![g] = "locked"] /\ UNCHANGED <<sel, cache, open, got>>

\* the lookup `_, ok := cache[selector]` is a read access; a miss leads to parse + store
Lookup(g) == /\ pc[g] = "locked"
             /\ pc' = [pc EXCEPT ![g] = IF sel[g] \in cache THEN "stored" ELSE "writing"]
             /\ open' = IF sel[g] \in cache THEN open ELSE open \cup {[g |-> g, kind |-> "write"]}
             /\ UNCHANGED <<sel, holder, cache, got>>
EndWrite(g) == /\ pc[g] = "writing"
               /\ cache' = cache \cup {sel[g]} /\ open' = open \ {[g |-> g, kind |-> "write"]}
               /\ pc' = [pc EXCEPT ![g] = "stored"] /\ UNCHANGED <<sel, holder, got>>

Unlock(g) == /\ holder = g
             /\ \/ (~Dev_ReadAfterUnlock /\ pc[g] = "read")
                \/ (Dev_ReadAfterUnlock /\ pc[g] = "stored")
             /\ holder' = 0 /\ pc' = [pc EXCEPT ![g] = IF Dev_ReadAfterUnlock THEN "unlocked" ELSE "evaluating"]
             /\ UNCHANGED <<sel, cache, open, got>>

BeginRead(g) == /\ pc[g] = IF Dev_ReadAfterUnlock THEN "unlocked" ELSE "stored"
                /\ open' = open \cup {[g |-> g, kind |-> "read"]}
                /\ pc' = [pc EXCEPT ![g] = "reading"] /\ UNCHANGED <<sel, holder, cache, got>>
EndRead(g) == /\ pc[g] = "reading"
              /\ got' = [got EXCEPT ![g] = IF sel[g] \in cache THEN sel[g] ELSE "missing"]
              /\ open' = open \ {[g |-> g, kind |-> "read"]}
              /\ pc' = [pc EXCEPT ![g] = IF Dev_ReadAfterUnlock THEN "evaluating" ELSE "read"]
              /\ UNCHANGED <<sel, holder, cache>>

Eval(g) == /\ pc[g] = "evaluating" /\ pc' = [pc EXCEPT ![g] = "done"] /\ UNCHANGED <<sel, holder, cache, open, got>>

CNext == \E g \in Gs : Lock(g) \/ Lookup(g) \/ EndWrite(g) \/ Unlock(g) \/ BeginRead(g) \/ EndRead(g) \/ Eval(g)
CSpec == CInit /\ [][CNext]_cvars /\ WF_cvars(CNext)

---------------------------------------------------------------------------
CTypeOK == holder \in 0..G /\ cache \subseteq Texts
\* no map access is in progress while another goroutine writes the map
NoOverlap == \A a, b \in open : (a.g # b.g) => (a.kind = "read" /\ b.kind = "read")
\* every goroutine evaluates with the parse of its own text
OwnEntry == \A g \in Gs : pc[g] \in {"evaluating", "done"} => got[g] = sel[g]
\* map accesses by the holder only (as coded now)
UnderLock == ~Dev_ReadAfterUnlock => \A a \in open : holder = a.g
AllDone == <>(\A g \in Gs : pc[g] = "done")
=============================================================================
