-------------------------------- MODULE Vars --------------------------------
(***************************************************************************)
(* SETVAR / GETVAR (property C20) as a state machine.  A program is a        *)
(* history of queries that share one variable map; a query is a select list  *)
(* evaluated for every row of its table, rows in source order, items left    *)
(* to right.  One action per function call - the granularity at which the    *)
(* harness's wrappers around the real SETVAR / GETVAR log events - plus one   *)
(* per plain column, per finished row and per finished query.                *)
(*                                                                         *)
(* item: [k |-> "set", key, v]   v: [k|->"col", c] | [k|->"lit", v]            *)
(*                                  | [k|->"addvar", key, c]  (GETVAR(key)+c) *)
(*       [k |-> "get", key, as]  [k |-> "col", c]                            *)
(*   prog    Seq([sel |-> Seq(item), tbl |-> Seq(row), lim |-> -1 or n])     *)
(*           LIMIT cuts the rows Exec returns; every row is still evaluated  *)
(*   vars    the caller's variable map (function from a set of keys)         *)
(*   qi ri ii  current query / row / item;  sub = 1 after the argument of a   *)
(*           SETVAR(k, GETVAR(k2) + c) has been read into tmp                *)
(*   cur out results   row under construction, rows of this query, finished   *)
(*           queries as [rows, vars]                                         *)
(*   calls   history variable: every call [op, key, val] in evaluation order  *)
(***************************************************************************)
EXTENDS Values

VARIABLES prog, vars0, vars, qi, ri, ii, sub, tmp, cur, out, results, calls
vvars == <<prog, vars0, vars, qi, ri, ii, sub, tmp, cur, out, results, calls>>
VView == <<prog, vars0, vars, qi, ri, ii, sub, tmp, cur, out, results>>

VarsInit(p, v0) ==
    /\ prog = p /\ vars0 = v0 /\ vars = v0
    /\ qi = 1 /\ ri = 1 /\ ii = 1 /\ sub = 0 /\ tmp = Null
    /\ cur = EmptyObj /\ out = <<>> /\ results = <<>> /\ calls = <<>>

Q_    == prog[qi]
Row_  == Q_.tbl[ri]
Item_ == Q_.sel[ii]
Running == qi <= Len(prog)
InRow   == Running /\ ri <= Len(Q_.tbl)
InItem  == InRow /\ ii <= Len(Q_.sel)

Read(m, k) == IF k \in DOMAIN m THEN m[k] ELSE Null
Write(m, k, v) == [x \in (DOMAIN m) \cup {k} |-> IF x = k THEN v ELSE m[x]]
Add(a, b) == IF IsNull(a) \/ IsNull(b) THEN Null ELSE IF IsNum(a) /\ IsNum(b) THEN RAdd(a, b) ELSE Err

NextItem == ii' = ii + 1 /\ sub' = 0 /\ tmp' = Null

\* GETVAR(k) as a select item: the column as receives the current value (NULL if never set)
DoGet ==
    /\ InItem /\ Item_.k = "get"
    /\ cur' = Put(cur, Item_.as, Read(vars, Item_.key))
    /\ calls' = Append(calls, [op |-> "get", key |-> Item_.key, val |-> Read(vars, Item_.key)])
    /\ NextItem /\ UNCHANGED <<prog, vars0, vars, qi, ri, out, results>>

\* the argument GETVAR(k2) of SETVAR(k, GETVAR(k2) + c) is evaluated first
ArgGet ==
    /\ InItem /\ Item_.k = "set" /\ Item_.v.k = "addvar" /\ sub = 0
    /\ tmp' = Read(vars, Item_.v.key) /\ sub' = 1
    /\ calls' = Append(calls, [op |-> "get", key |-> Item_.v.key, val |-> Read(vars, Item_.v.key)])
    /\ UNCHANGED <<prog, vars0, vars, qi, ri, ii, cur, out, results>>

SetValue == CASE Item_.v.k = "col" -> Get(Row_, Item_.v.c)
              [] Item_.v.k = "lit" -> Item_.v.v
              [] OTHER -> Add(tmp, Get(Row_, Item_.v.c))

\* SETVAR(k, v): the register is overwritten; no column is added
DoSet ==
    /\ InItem /\ Item_.k = "set" /\ (Item_.v.k = "addvar" => sub = 1)
    /\ vars' = Write(vars, Item_.key, SetValue)
    /\ calls' = Append(calls, [op |-> "set", key |-> Item_.key, val |-> SetValue])
    /\ NextItem /\ UNCHANGED <<prog, vars0, qi, ri, cur, out, results>>

DoCol ==
    /\ InItem /\ Item_.k = "col"
    /\ cur' = Put(cur, Item_.c, Get(Row_, Item_.c))
    /\ NextItem /\ UNCHANGED <<prog, vars0, vars, qi, ri, out, results, calls>>

EndRow ==
    /\ InRow /\ ii > Len(Q_.sel)
    /\ out' = Append(out, cur) /\ cur' = EmptyObj /\ ri' = ri + 1 /\ ii' = 1
    /\ UNCHANGED <<prog, vars0, vars, qi, sub, tmp, results, calls>>

\* Exec returns: the caller sees the rows and, in its own map, the last value written per key
EndQuery ==
    /\ Running /\ ri > Len(Q_.tbl)
    /\ results' = Append(results, [rows |-> Window(out, -1, Q_.lim), vars |-> vars])
    /\ qi' = qi + 1 /\ ri' = 1 /\ ii' = 1 /\ out' = <<>>
    /\ UNCHANGED <<prog, vars0, vars, sub, tmp, cur, calls>>

VarsNext == DoGet \/ ArgGet \/ DoSet \/ DoCol \/ EndRow \/ EndQuery
VarsDone == ~Running

---------------------------------------------------------------------------
\* the register property, stated on the history of calls alone
LastSet(i, k) == {j \in 1..(i - 1) : calls[j].op = "set" /\ calls[j].key = k}
MaxOf(S) == CHOOSE x \in S : \A y \in S : y <= x
RegisterLaw ==
    \A i \in DOMAIN calls :
        calls[i].op = "get" =>
            calls[i].val = IF LastSet(i, calls[i].key) # {} THEN calls[MaxOf(LastSet(i, calls[i].key))].val
                           ELSE Read(vars0, calls[i].key)
FinalVars ==
    \A k \in DOMAIN vars :
        vars[k] = IF LastSet(Len(calls) + 1, k) # {} THEN calls[MaxOf(LastSet(Len(calls) + 1, k))].val ELSE Read(vars0, k)
\* SETVAR contributes no column: the keys of an output row are the GETVAR aliases and plain columns
NoSetColumn ==
    \A r \in DOMAIN results : \A i \in DOMAIN results[r].rows :
        Keys(results[r].rows[i]) = {prog[r].sel[j].as : j \in {x \in DOMAIN prog[r].sel : prog[r].sel[x].k = "get"}} \cup
                                   {prog[r].sel[j].c : j \in {x \in DOMAIN prog[r].sel : prog[r].sel[x].k = "col"}}
OneRowPerRow == \A r \in DOMAIN results : Len(results[r].rows) = IF prog[r].lim < 0 THEN Len(prog[r].tbl) ELSE Min2(prog[r].lim, Len(prog[r].tbl))
=============================================================================
