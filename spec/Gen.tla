-------------------------------- MODULE Gen --------------------------------
(* Constructors for query ASTs and small enumeration helpers shared by the  *)
(* MC_* modules (case generation) - no semantics here.                      *)
EXTENDS Engine

Col(c)      == [k |-> "col", p |-> <<c>>]
ColP(p)     == [k |-> "col", p |-> p]
Lit(v)      == [k |-> "lit", v |-> v]
LN(i)       == Lit(NumV(i))
LS(c)       == Lit(StrV(c))
Bin(op, l, r) == [k |-> "bin", op |-> op, l |-> l, r |-> r]
Un(op, e)   == [k |-> "un", op |-> op, e |-> e]
CmpE(op, l, r) == [k |-> "cmp", op |-> op, l |-> l, r |-> r]
LikeE(neg, l, r) == [k |-> "like", neg |-> neg, l |-> l, r |-> r]
InE(neg, l, list) == [k |-> "in", neg |-> neg, l |-> l, list |-> list]
Dual == [k |-> "dual", as |-> ""]
InSub(l, q) == [k |-> "insub", l |-> l, q |-> q]
NotInSub(l, q) == [k |-> "insub", l |-> l, q |-> q, neg |-> TRUE]
Between(neg, e, lo, hi) == [k |-> "between", neg |-> neg, e |-> e, lo |-> lo, hi |-> hi]
IsE(op, e)  == [k |-> "is", op |-> op, e |-> e]
AndE(l, r)  == [k |-> "and", l |-> l, r |-> r]
OrE(l, r)   == [k |-> "or", l |-> l, r |-> r]
NotE(e)     == [k |-> "not", e |-> e]
CaseE(whens, els) == [k |-> "case", whens |-> whens, els |-> els]
Agg(f, p)   == [k |-> "agg", f |-> f, p |-> p]
Sub(q)      == [k |-> "sub", q |-> q]
Exists(q)   == [k |-> "exists", q |-> q]

Star        == [k |-> "star"]
Item(e, as) == [k |-> "item", e |-> e, as |-> as]
Table(p, as) == [k |-> "table", p |-> p, as |-> as]
Derived(q, as) == [k |-> "derived", q |-> q, as |-> as]

BaseQ == [k |-> "select", with |-> <<>>, sel |-> <<Star>>, from |-> Table(<<"t">>, ""),
          where |-> None, group |-> <<>>, having |-> None, distinct |-> FALSE,
          order |-> <<>>, limit |-> -1, offset |-> -1]

CmpOps == {"=", "!=", "<", "<=", ">", ">="}

SeqsUpTo(S, n) == UNION {[1..m -> S] : m \in 0..n}
SeqsFromTo(S, lo, hi) == UNION {[1..m -> S] : m \in lo..hi}

\* a row from a column -> value record
Row(f) == ObjV(f)
Doc1(name, rows) == Obj1(name, ArrV(rows))
=============================================================================
