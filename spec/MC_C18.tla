------------------------------- MODULE MC_C18 -------------------------------
(* C18 - built-in functions obey their contracts for all arguments.  A case   *)
(* is a call expression over the columns x1..x3 of a one-row document (the     *)
(* arguments) plus the configured constants; Apply evaluates it with           *)
(* Builtins.tla.  The laws of the statement are invariants; every case is      *)
(* exported and executed as SELECT f(...) AS v FROM dual and FROM a table.     *)
EXTENDS Builtins, Json

CONSTANT Wide        \* TRUE: larger argument sets for the variadic functions

VARIABLES cs, res, pc
vars == <<cs, res, pc>>

S(c) == StrV(c)
Half == Rat(3, 2)
\* 123456.789 needs nine significant digits, 16777217 = 2^24 + 1 is not a float32, 2500000 prints as 2.5e+06
Scalars == {Null, BoolV(TRUE), BoolV(FALSE), NumV(0), NumV(1), NumV(-1), Half, NumV(3),
            Rat(123456789, 1000), NumV(16777217), NumV(2500000),
            S(<<>>), S(<<97>>), S(<<97, 66>>), S(<<49>>), S(<<50, 46, 53>>), S(<<45, 51>>), S(<<233, 76, 963, 962, 1071>>), S(<<97, 98, 99>>)}
Arr(e) == ArrV(e)
Arrays == {Arr(<<>>), Arr(<<NumV(1)>>), Arr(<<NumV(1), NumV(2), NumV(3)>>), Arr(<<Arr(<<NumV(1), NumV(2)>>), Arr(<<NumV(3)>>)>>),
           Arr(<<Null, S(<<120>>)>>), Arr(<<Arr(<<>>)>>), Arr(<<NumV(1), Arr(<<NumV(2), Arr(<<NumV(3)>>)>>)>>)}
Values_ == Scalars \cup Arrays
Few == {Null, NumV(1), S(<<97>>), BoolV(TRUE), Arr(<<NumV(1), NumV(2)>>), Half}
FewS == {Null, NumV(1), S(<<97>>), BoolV(FALSE), Half, S(<<>>), NumV(-1), S(<<120, 32, 121>>)}

Nest(f, inner, extra) == [k |-> "fn", f |-> f, args |-> <<inner>> \o extra]
ColN(i) == [k |-> "col", p |-> <<(<<"x1", "x2", "x3">>)[i]>>]
CallN(f, n) == [k |-> "fn", f |-> f, args |-> [i \in 1..n |-> ColN(i)]]

Doc(args) == ObjV([x \in {(<<"x1", "x2", "x3">>)[i] : i \in 1..Len(args)} |->
                     args[CHOOSE i \in 1..Len(args) : (<<"x1", "x2", "x3">>)[i] = x]])
Case(fam, e, args, consts) == [fam |-> fam, e |-> e, doc |-> Doc(args), consts |-> consts]
NoC == Null
Consts == ObjV([k |-> NumV(7), s |-> S(<<120>>), pi |-> Rat(157, 50)])

Idx == {NumV(-1), NumV(0), NumV(1), NumV(2), NumV(3), NumV(4), S(<<48>>), Null, BoolV(TRUE)}
Types == {S(<<115, 116, 114, 105, 110, 103>>), S(<<100, 111, 117, 98, 108, 101>>), S(<<105, 110, 116, 101, 103, 101, 114>>),
          S(<<97, 114, 114, 97, 121>>), S(<<83, 84, 82, 73, 78, 71>>), S(<<102, 108, 111, 97, 116>>)}
BaseNames == {S(<<98, 97, 115, 101, 54, 52>>), S(<<98, 97, 115, 101, 51, 50>>), S(<<104, 101, 120>>), S(<<72, 69, 88>>), S(<<98, 97, 115, 101, 49, 54>>)}
Algs == {S(<<109, 100, 53>>), S(<<115, 104, 97, 49>>), S(<<115, 104, 97, 50, 53, 54>>), S(<<115, 104, 97, 53, 49, 50>>), S(<<83, 72, 65, 49>>), S(<<99, 114, 99>>)}
Dates == {S(<<50, 48, 50, 52>>), S(<<>>), S(<<97, 32, 98>>)}

Unary == {"first", "last", "unwind", "to_lower", "to_upper"}
Fixed == Unary \cup {"elementat", "changetype", "daterange", "hash", "encode", "decode", "if", "constant"}

SeqsN(Sset, n) == [1..n -> Sset]

Cases ==
       {Case("unary", CallN(f, 1), <<v>>, NoC) : f \in Unary, v \in Values_}
  \cup {Case("elementat", CallN("elementat", 2), <<a, i>>, NoC) : a \in Arrays \cup {Null, NumV(1), S(<<97>>)}, i \in Idx}
  \cup {Case("array", CallN("array", Len(as)), as, NoC) : as \in UNION {SeqsN(Few, n) : n \in 0..(IF Wide THEN 3 ELSE 2)}}
  \cup {Case("concat", CallN("concat", Len(as)), as, NoC) : as \in UNION {SeqsN(FewS, n) : n \in 0..(IF Wide THEN 3 ELSE 2)}}
  \cup {Case("if", CallN("if", 3), <<c, x, y>>, NoC) : c \in {BoolV(TRUE), BoolV(FALSE), Null}, x \in Few, y \in Few}
  \cup {Case("changetype", CallN("changetype", 2), <<v, t>>, NoC) : v \in Scalars, t \in Types}
  \cup {Case("changetype", CallN("changetype", 2), <<v, S(<<97, 114, 114, 97, 121>>)>>, NoC) : v \in Arrays}
  \cup {Case("roundtrip", Nest("changetype", CallN("changetype", 2), <<ColN(3)>>), <<v, t1, t2>>, NoC) :
            v \in Scalars, t1 \in {S(<<115, 116, 114, 105, 110, 103>>)}, t2 \in {S(<<100, 111, 117, 98, 108, 101>>), S(<<105, 110, 116, 101, 103, 101, 114>>)}}
  \cup {Case("daterange", CallN("daterange", 2), <<a, b>>, NoC) : a \in Dates, b \in Dates}
  \cup {Case("constant", CallN("constant", 1), <<k>>, c) : k \in {S(<<107>>), S(<<115>>), S(<<112, 105>>), S(<<122, 122>>)}, c \in {NoC, Consts}}
  \cup {Case("encode", CallN("encode", 2), <<v, b>>, NoC) : v \in Scalars \cup {Arr(<<NumV(1)>>)}, b \in BaseNames}
  \cup {Case("decode", Nest("decode", CallN("encode", 2), <<ColN(3)>>), <<v, b1, b1>>, NoC) :
            v \in Scalars, b1 \in BaseNames \ {S(<<98, 97, 115, 101, 49, 54>>)}}
  \cup {Case("decode", Nest("decode", CallN("encode", 2), <<ColN(3)>>), <<v, b1, S(<<98, 97, 115, 101, 49, 54>>)>>, NoC) :
            v \in Scalars, b1 \in BaseNames \ {S(<<98, 97, 115, 101, 49, 54>>)}}
  \cup {Case("garbage", CallN("decode", 2), <<g, b>>, NoC) : g \in {S(<<122, 122>>), S(<<>>), NumV(1), Null}, b \in BaseNames}
  \cup {Case("hash", CallN("hash", 2), <<v, a>>, NoC) : v \in Scalars \cup {Arr(<<NumV(1)>>)}, a \in Algs}
  \* two values of different kinds that print alike, hashed / encoded one after the other in one statement: each gets its own answer
  \cup {Case("pair", [k |-> "fn", f |-> "array", args |-> <<[k |-> "fn", f |-> g, args |-> <<ColN(1), ColN(3)>>], [k |-> "fn", f |-> g, args |-> <<ColN(2), ColN(3)>>]>>],
              <<p[1], p[2], a>>, NoC) :
            g \in {"hash", "encode"},
            p \in {<<S(<<49>>), NumV(1)>>, <<NumV(1), S(<<49>>)>>, <<BoolV(TRUE), S(<<116, 114, 117, 101>>)>>, <<S(<<116, 114, 117, 101>>), BoolV(TRUE)>>,
                   <<NumV(3), S(<<51>>)>>, <<S(<<45, 49>>), NumV(-1)>>},
            a \in {S(<<109, 100, 53>>), S(<<115, 104, 97, 49>>), S(<<104, 101, 120>>), S(<<98, 97, 115, 101, 54, 52>>)}}
  \* what DATERANGE returns is an array like any other: FIRST / LAST / UNWIND apply to it
  \cup {Case("daterange", Nest(f, CallN("daterange", 2), <<>>), <<a, b>>, NoC) : f \in {"first", "last", "unwind"}, a \in Dates \ {S(<<>>)}, b \in Dates}
  \* one array heading two UNWIND arguments in one select list: each result has its own tail
  \cup {Case("unwind2", [k |-> "fn", f |-> "array", args |-> <<Nest("unwind", [k |-> "fn", f |-> "array", args |-> <<ColN(1), ColN(2)>>], <<>>),
                                                                Nest("unwind", [k |-> "fn", f |-> "array", args |-> <<ColN(1), ColN(3)>>], <<>>)>>],
              <<h, Arr(<<NumV(7)>>), Arr(<<NumV(9), NumV(8)>>)>>, NoC) :
            h \in {Arr(<<NumV(1), NumV(2), NumV(3)>>), Arr(<<NumV(1)>>), Arr(<<NumV(1), NumV(2), NumV(3), NumV(4), NumV(5)>>), Arr(<<>>)}}
  \cup UNION {{Case("arity", CallN(f, n), [i \in 1..n |-> NumV(1)], NoC) : n \in (0..3) \ {Arity(f)}} : f \in Fixed}

RECURSIVE EvF(_, _, _)
EvF(e, doc, consts) ==
    CASE e.k = "col" -> Get(doc, e.p[1])
      [] e.k = "fn"  -> Builtin(e.f, [i \in 1..Len(e.args) |-> EvF(e.args[i], doc, consts)], consts)
      [] OTHER -> Err

Init == cs \in Cases /\ res = Null /\ pc = "start"
Apply == pc = "start" /\ res' = EvF(cs.e, cs.doc, cs.consts) /\ pc' = "done" /\ UNCHANGED cs
Next == Apply
Spec == Init /\ [][Next]_vars

---------------------------------------------------------------------------
Done == pc = "done"
F(f, args) == Builtin(f, args, Null)
Base64 == S(<<98, 97, 115, 101, 54, 52>>)

\* DECODE(ENCODE(v, b), b) = v for every scalar and base; ENCODE results are opaque texts
RoundTrip ==
    \A v \in Scalars : \A b \in BaseNames :
        LET enc == F("encode", <<v, b>>)
        IN  IF IsErr(enc) THEN ~NameIn(b, Bases) ELSE F("decode", <<enc, b>>) = v
\* HASH is a function of (v, alg) whose hex length is fixed by alg; unknown algorithms are errors
HashLaw ==
    \A v \in Scalars : \A a \in Algs :
        LET h == F("hash", <<v, a>>)
        IN  IF IsErr(h) THEN ~NameIn(a, {"md5", "sha1", "sha256", "sha512"}) ELSE h.n \in {32, 40, 64, 128}
\* FIRST / LAST / ELEMENTAT agree; outside the array is an error
ElementLaw ==
    \A a \in Arrays :
        LET n == Len(a.e) IN
        /\ (n > 0 => /\ F("first", <<a>>) = F("elementat", <<a, NumV(0)>>)
                     /\ F("last", <<a>>) = F("elementat", <<a, NumV(n - 1)>>))
        /\ (n = 0 => IsNull(F("first", <<a>>)) /\ IsNull(F("last", <<a>>)))
        /\ IsErr(F("elementat", <<a, NumV(n)>>)) /\ IsErr(F("elementat", <<a, NumV(-1)>>))
\* UNWIND flattens exactly one level: elements that are not arrays are kept, arrays are spliced
UnwindLaw ==
    \A a \in Arrays :
        LET u == F("unwind", <<a>>) IN
        /\ IsArr(u)
        /\ Len(u.e) = Len(Concat([i \in 1..Len(a.e) |-> IF IsArr(a.e[i]) THEN a.e[i].e ELSE <<a.e[i]>>]))
        /\ ((\A i \in DOMAIN a.e : ~IsArr(a.e[i])) => u = a)
IfLaw == \A x \in Few : \A y \in Few :
            /\ F("if", <<BoolV(TRUE), x, y>>) = x /\ F("if", <<BoolV(FALSE), x, y>>) = y /\ F("if", <<Null, x, y>>) = y
CaseLaw == \A v \in Scalars : IsStr(v) =>
            /\ F("to_upper", <<F("to_lower", <<F("to_upper", <<v>>)>>)>>) = F("to_upper", <<v>>)
            /\ Len(F("to_upper", <<v>>).c) = Len(v.c)
\* string <-> double round-trips
ConvLaw == \A v \in Scalars : IsNum(v) =>
            F("changetype", <<F("changetype", <<v, S(<<115, 116, 114, 105, 110, 103>>)>>), S(<<100, 111, 117, 98, 108, 101>>)>>) = v
ArityLaw == (Done /\ cs.fam = "arity" /\ Len(cs.e.args) # Arity(cs.e.f)) => IsErr(res)
ArrayLaw == (Done /\ cs.fam = "array") => res = ArrV([i \in 1..Len(cs.e.args) |-> Get(cs.doc, cs.e.args[i].p[1])])

\* a second row for the table forms: the same columns with the arguments rotated (x1 <- x2 <- x3 <- x1), so that
\* one call site is evaluated twice in one statement with different arguments
XN == <<"x1", "x2", "x3">>
Rot(doc) == LET n == Cardinality(DOMAIN doc.f)
            IN  IF n < 2 THEN doc ELSE ObjV([x \in DOMAIN doc.f |-> doc.f[XN[((CHOOSE i \in 1..n : XN[i] = x) % n) + 1]]])
\* a call is a function of its arguments: the rotated row's value is the call on the rotated arguments, whatever
\* the first row's was
PerRow == Done => (Rot(cs.doc) = cs.doc => EvF(cs.e, Rot(cs.doc), cs.consts) = res)

Export == Done => PrintT(ToJson([fam |-> cs.fam, e |-> cs.e, doc |-> cs.doc, consts |-> cs.consts, res |-> res,
                                 doc2 |-> Rot(cs.doc), res2 |-> EvF(cs.e, Rot(cs.doc), cs.consts)]))
=============================================================================
