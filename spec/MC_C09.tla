------------------------------- MODULE MC_C09 -------------------------------
(* C09 - path selectors evaluate per the documented grammar and fail only     *)
(* with errors.  A case is (document, selector); Eval applies Selector.tla.    *)
(* The root is always an object {a: V, 'c.d': W}; selectors start with a key.  *)
EXTENDS Selector, Json

CONSTANT Depth      \* number of steps after the leading key: 2 (quick) or 3

VARIABLES cs, res, pc
vars == <<cs, res, pc>>

S(c) == StrV(c)
O(f) == ObjV(f)
A(e) == ArrV(e)
P1 == O([p |-> NumV(1), q |-> S(<<50>>)])
P3 == O([p |-> NumV(3)])
Vals == { NumV(1), S(<<120>>), Null,
          P1, O([p |-> O([r |-> NumV(5)]), q |-> S(<<120>>)]),
          A(<<>>), A(<<NumV(1), NumV(2), NumV(3)>>), A(<<P1, P3>>),
          A(<<A(<<NumV(1), NumV(2)>>), A(<<NumV(3)>>)>>),
          A(<<A(<<A(<<NumV(1)>>), A(<<NumV(2), NumV(3)>>)>>), A(<<A(<<NumV(4)>>)>>)>>),
          A(<<A(<<P1>>), A(<<P3, O([p |-> Rat(3, 2), q |-> S(<<97>>)])>>)>>),
          A(<<NumV(1), A(<<NumV(2)>>), Null>>) }

Key(n) == [k |-> "key", name |-> n]
At(i) == [k |-> "at", i |-> i]
Each == [k |-> "each"]
Rng(lo, hi) == [k |-> "range", lo |-> lo, hi |-> hi]
Idx(keep, dims) == [k |-> "idx", keep |-> keep, dims |-> dims]
Pipe(items) == [k |-> "pipe", items |-> items]
PI(k, ty) == [key |-> k, ty |-> ty]

DimSeqs == {<<At(0)>>, <<At(1)>>, <<At(3)>>, <<Each>>, <<At(0), At(0)>>, <<At(0), At(1)>>, <<Each, At(0)>>, <<Each, Each>>,
            <<Each, At(1)>>, <<At(0), Each>>, <<At(1), Each>>, <<Each, Each, Each>>, <<Each, At(0), Each>>, <<At(0), At(1), At(0)>>,
            <<Rng(0, 1)>>, <<Rng(1, -1)>>, <<Rng(-1, 2)>>, <<Rng(0, 5)>>, <<Rng(2, 1)>>, <<Rng(1, 1)>>, <<Rng(-1, -1), At(0)>>,
            <<Each, Rng(0, 1)>>, <<Rng(0, 2), Each>>}
Steps == {Key(n) : n \in {"p", "q", "r", "zz"}} \cup
         {Idx(FALSE, d) : d \in DimSeqs} \cup
         {Idx(TRUE, d) : d \in {<<Each>>, <<Each, At(0)>>, <<Each, Each>>, <<At(0), Each>>, <<At(0)>>, <<Each, Each, Each>>, <<Rng(0, 1), Each>>}} \cup
         {Pipe(<<PI("p", "string"), PI("q", "")>>), Pipe(<<PI("q", "number")>>), Pipe(<<PI("p", "")>>), Pipe(<<PI("p", "bogus")>>),
          Pipe(<<PI("q", "string"), PI("zz", "")>>)}
Tails == UNION {[1..n -> Steps] : n \in 0..2}
Tails3 == {<<x, y, z>> : x \in Steps, y \in {Key("p"), Idx(FALSE, <<Each>>), Idx(FALSE, <<At(0)>>), Idx(TRUE, <<Each, At(0)>>)}, z \in {Key("p"), Key("q"), Idx(FALSE, <<At(0)>>), Pipe(<<PI("p", "string")>>)}}

Seg(fn, steps) == [fn |-> fn, steps |-> steps]
\* (keys that need quotes: one holding the step separator, one holding the continuation mark)
Doc(v, w) == O([x \in {"a", "c.d", "c::d"} |-> IF x = "a" THEN v ELSE w])

Sels ==
       {<<Seg("", <<Key("a")>> \o t)>> : t \in Tails \cup (IF Depth >= 3 THEN Tails3 ELSE {})}
  \cup {<<Seg(fn, <<Key("a")>> \o t)>> : fn \in {"mix", "distinct", "nosuch"}, t \in {x \in Tails : Len(x) <= 1}}
  \cup {<<Seg("", <<Key("a")>> \o t), Seg("", u)>> : t \in {x \in Tails : Len(x) <= 1}, u \in {x \in Tails : Len(x) = 1}}
  \cup {<<Seg("", <<Key("c.d")>> \o t)>> : t \in {x \in Tails : Len(x) <= 1}}
  \cup {<<Seg("", <<Key("c::d")>> \o t)>> : t \in {x \in Tails : Len(x) <= 1}}
  \cup {<<Seg("", <<Key("zz")>> \o t)>> : t \in {x \in Tails : Len(x) <= 1}}
  \* a continuation behind a part that yields NULL (a missing key) still runs: a function there is applied (to NULL), an
  \* unknown one is an error
  \cup {<<Seg("", <<Key("zz")>> \o t), Seg(fn, u)>> : t \in {<<>>, <<Key("p")>>}, fn \in {"mix", "distinct", "nosuch", ""}, u \in {<<>>, <<Key("p")>>}}
  \cup {<<Seg("", <<Key("a"), Key("zz")>>), Seg(fn, <<>>)>> : fn \in {"mix", "distinct", "nosuch"}}

\* histories: the result of a selector is a function of (document, selector text) - not of the
\* selectors evaluated before it in the same process (the library caches parsed selectors by text).
\* Keys whose texts are easily confused; the harness renames them apart per case and quotes them all.
Confusable == {"cd", "c d", "CD", "c  d", "cd_"}
CDoc == O([a |-> O([x \in Confusable |-> CASE x = "cd" -> NumV(1) [] x = "c d" -> NumV(2) [] x = "CD" -> NumV(3)
                                                 [] x = "c  d" -> NumV(4) [] OTHER -> NumV(5)])])
Hist == {<<k1, k2>> : k1 \in Confusable, k2 \in Confusable}
HSel(k) == <<Seg("", <<Key("a"), Key(k)>>)>>

\* ... and the same selector text evaluated on two different documents one after the other
RepSteps == {Idx(FALSE, <<Rng(1, -1)>>), Idx(FALSE, <<Rng(-1, 2)>>), Idx(FALSE, <<Rng(-1, -1), At(0)>>), Idx(FALSE, <<Each>>),
             Idx(TRUE, <<Each, Rng(0, -1)>>), Idx(FALSE, <<At(1)>>), Key("p"), Pipe(<<PI("p", "string")>>)}
RepDocs == {v \in Vals : IsArr(v)}

Init == /\ \/ \E v \in Vals : \E sel \in Sels : cs = [doc |-> Doc(v, IF IsArr(v) THEN P1 ELSE A(<<v>>)), sel |-> sel, before |-> <<>>, docbefore |-> Null]
           \/ \E h \in Hist : cs = [doc |-> CDoc, sel |-> HSel(h[2]), before |-> HSel(h[1]), docbefore |-> Null]
           \/ \E v1 \in RepDocs : \E v2 \in RepDocs : \E st \in RepSteps :
                 v1 # v2 /\ cs = [doc |-> Doc(v2, P1), sel |-> <<Seg("", <<Key("a"), st>>)>>, before |-> <<>>, docbefore |-> Doc(v1, P1)]
        /\ res = Null /\ pc = "start"
\* the earlier selector (cs.before) is evaluated first by the harness; it does not enter the result
Eval == pc = "start" /\ res' = EvalSel(cs.doc, cs.sel) /\ pc' = "done" /\ UNCHANGED cs
Next == Eval
Spec == Init /\ [][Next]_vars

---------------------------------------------------------------------------
Done == pc = "done"
\* a :: b is b applied to the result of a
Continue ==
    (Done /\ Len(cs.sel) = 2) =>
        LET r == EvalSel(cs.doc, <<cs.sel[1]>>) IN res = IF IsErr(r) \/ IsAny(r) THEN r ELSE EvalSel(r, <<cs.sel[2]>>)
\* [each] alone is the identity on an array; keep=> followed by complete flattening equals the flattened un-kept result
EachIdentity ==
    \A v \in Vals : IsArr(v) => Reader(v, <<Idx(FALSE, <<Each>>)>>) = v
KeepVsMix ==
    \A v \in Vals : \A d \in {<<Each, At(0)>>, <<Each, Each>>, <<At(0), Each>>} :
        LET k == Reader(v, <<Idx(TRUE, d)>>)
            u == Reader(v, <<Idx(FALSE, d)>>)
        IN  (IsErr(k) <=> IsErr(u)) /\ ((IsArr(k) /\ IsArr(u)) => MixArr(k.e) = MixArr(u.e))
\* NULL stays NULL; a missing key is NULL
NullLaw == \A t \in {x \in Tails : Len(x) <= 1} : Reader(Null, t) = Null /\ Reader(P1, <<Key("zz")>> \o t) = Null
\* out of range / wrong shape is an error, never a value
OutOfRange ==
    \A v \in Vals : IsArr(v) =>
        /\ IsErr(Reader(v, <<Idx(FALSE, <<At(Len(v.e))>>)>>))
        /\ IsErr(Reader(v, <<Idx(FALSE, <<Rng(0, Len(v.e) + 1)>>)>>))
        /\ Reader(v, <<Idx(FALSE, <<Rng(0, Len(v.e))>>)>>) = v

Export == Done => PrintT(ToJson([doc |-> cs.doc, sel |-> cs.sel, res |-> res, before |-> cs.before,
                                 resbefore |-> IF cs.before = <<>> THEN Null ELSE EvalSel(cs.doc, cs.before),
                                 docbefore |-> cs.docbefore,
                                 resdocbefore |-> IF IsNull(cs.docbefore) THEN Null ELSE EvalSel(cs.docbefore, cs.sel)]))
=============================================================================
