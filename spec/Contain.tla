------------------------------- MODULE Contain -------------------------------
(***************************************************************************)
(* Panic containment (property C10).  One API call (New followed by Exec)   *)
(* passes through regions; in each of them, and in each background          *)
(* goroutine the call may have spawned, a panic may be raised at any step.   *)
(* A panic unwinds to the nearest enclosing recover of its own goroutine; a  *)
(* goroutine without one takes the whole process down.  A self-referencing   *)
(* CTE is the one construct that does not panic but recurses without bound   *)
(* unless the re-entry is detected.                                          *)
(*                                                                         *)
(*   region   "new" | "exec" | "post" | "returned"   (API goroutine)          *)
(*   bg       the background goroutines alive: subsets of BgKinds             *)
(*   alive    the process                                                     *)
(*   res      "none" | "ok" | "err"                                           *)
(* Recover = the set of places with a recover, as coded now; the Dev          *)
(* configurations remove one of them each (the pinned tree had only "exec").  *)
(***************************************************************************)
EXTENDS Integers, FiniteSets, TLC

CONSTANTS Recover,        \* subset of {"new", "exec", "post", "strategy", "paralleljoin"}
          CteGuard        \* re-entrant CTE resolution is detected

BgKinds == {"strategy", "paralleljoin"}     \* ASYNC / SPIN / SPINASYNC calls; PARALLEL join workers

VARIABLES region, bg, alive, res, depth
kvars == <<region, bg, alive, res, depth>>

KInit == region = "new" /\ bg = {} /\ alive = TRUE /\ res = "none" /\ depth = 0

Running == alive /\ region # "returned"

\* ordinary progress through the call
Advance ==
    /\ Running
    /\ \/ region = "new"  /\ region' = "exec" /\ UNCHANGED <<res>>
       \/ region = "exec" /\ region' = "post" /\ UNCHANGED <<res>>
       \/ region = "post" /\ region' = "returned" /\ res' = "ok"
    /\ UNCHANGED <<bg, alive, depth>>

\* New (joins) and exec (function calls) start background goroutines
Spawn(k) ==
    /\ Running /\ region \in {"new", "exec"} /\ k \notin bg
    /\ bg' = bg \cup {k} /\ UNCHANGED <<region, alive, res, depth>>
BgEnd(k) == alive /\ k \in bg /\ bg' = bg \ {k} /\ UNCHANGED <<region, alive, res, depth>>

\* a panic in the API goroutine: recovered by the region's recover (exec is nested inside new for the
\* parts of a query New already executes), else it escapes the API - which C10 forbids but which does
\* not by itself kill the process (the caller may recover); modelled as res = "escaped"
PanicApi ==
    /\ Running
    /\ IF region \in Recover THEN res' = "err" /\ region' = "returned"
       ELSE res' = "escaped" /\ region' = "returned"
    /\ UNCHANGED <<bg, alive, depth>>

\* a panic in a background goroutine: recovered there, or the process dies
PanicBg(k) ==
    /\ alive /\ k \in bg
    /\ IF k \in Recover THEN bg' = bg \ {k} /\ alive' = alive ELSE alive' = FALSE /\ bg' = bg
    /\ UNCHANGED <<region, res, depth>>

\* a CTE whose body refers to the CTE: each resolution starts another one
CteReenter ==
    /\ Running /\ region = "new"
    /\ IF CteGuard THEN res' = "err" /\ region' = "returned" /\ UNCHANGED <<depth, alive>>
       ELSE IF depth < 3 THEN depth' = depth + 1 /\ UNCHANGED <<region, res, alive>>
       ELSE alive' = FALSE /\ UNCHANGED <<region, res, depth>>       \* stack overflow: fatal, no recover helps
    /\ UNCHANGED bg

KNext == Advance \/ PanicApi \/ CteReenter \/ (\E k \in BgKinds : Spawn(k) \/ BgEnd(k) \/ PanicBg(k))
KSpec == KInit /\ [][KNext]_kvars /\ WF_kvars(Advance)

---------------------------------------------------------------------------
KTypeOK == region \in {"new", "exec", "post", "returned"} /\ res \in {"none", "ok", "err", "escaped"}
\* the process survives whatever panics where
ProcessSurvives == alive
\* no panic escapes the API: the caller gets a result or an error
NothingEscapes == res # "escaped"
\* control returns to the caller
Returns == <>(region = "returned" \/ ~alive)
=============================================================================
