----------------------------- MODULE VarsTrace -----------------------------
(***************************************************************************)
(* Trace validation for SETVAR / GETVAR (C20).  The harness wraps the real   *)
(* functions and records, per history of queries sharing one variable map:   *)
(*   {"ev":"start", "prog":[{sel, tbl}], "vars0":{..}}                       *)
(*   {"ev":"set", "key", "val"}  {"ev":"get", "key", "val"}   one per call   *)
(*   {"ev":"ret", "ok", "rows", "vars"}                      one per query   *)
(* Each event is consumed by the matching action of Vars.tla (silent actions *)
(* DoCol / EndRow run in between); the logged key / value / rows / map must   *)
(* equal what the action computes.  Mismatches are counted in register 1,     *)
(* consumed events in register 2; -workers 1.                                 *)
(***************************************************************************)
EXTENDS Vars, Json

Trace == ndJsonDeserialize("trace.ndjson")
VARIABLE l
tvars == <<vvars, l>>

E == Trace[l]
Note(ok, what, exp) ==
    IF ok THEN TRUE
    ELSE /\ PrintT(ToJson([mismatch |-> what, event |-> l, expected |-> exp]))
         /\ TLCSet(1, TLCGet(1) + 1)
Mark == TLCSet(2, IF TLCGet(2) > l THEN TLCGet(2) ELSE l)

MapOf(f) == IF f = <<>> THEN <<>> ELSE f        \* an empty JSON object arrives as the empty function

TraceInit ==
    /\ l = 1 /\ TLCSet(1, 0) /\ TLCSet(2, 0)
    /\ VarsInit(<<>>, <<>>)

Start ==
    /\ l <= Len(Trace) /\ E.ev = "start"
    /\ prog' = E.prog /\ vars0' = MapOf(E.vars0) /\ vars' = MapOf(E.vars0)
    /\ qi' = 1 /\ ri' = 1 /\ ii' = 1 /\ sub' = 0 /\ tmp' = Null
    /\ cur' = EmptyObj /\ out' = <<>> /\ results' = <<>> /\ calls' = <<>>
    /\ Mark /\ l' = l + 1

Logged(op) ==
    /\ l <= Len(Trace) /\ E.ev = op
    /\ Mark /\ l' = l + 1

CanSet     == InItem /\ Item_.k = "set" /\ (Item_.v.k = "addvar" => sub = 1)
CanGetItem == InItem /\ Item_.k = "get"
CanArgGet  == InItem /\ Item_.k = "set" /\ Item_.v.k = "addvar" /\ sub = 0
CanRet     == Running /\ ri > Len(Q_.tbl)
CanSilent  == (InItem /\ Item_.k = "col") \/ (InRow /\ ii > Len(Q_.sel))

TSet == Logged("set") /\ CanSet /\ DoSet /\ Note(E.key = Item_.key /\ E.val = SetValue, "set", [key |-> Item_.key, val |-> SetValue])
TGetItem == Logged("get") /\ CanGetItem /\ DoGet /\ Note(E.key = Item_.key /\ E.val = Read(vars, Item_.key), "get", [key |-> Item_.key, val |-> Read(vars, Item_.key)])
TGetArg  == Logged("get") /\ CanArgGet /\ ArgGet /\ Note(E.key = Item_.v.key /\ E.val = Read(vars, Item_.v.key), "get", [key |-> Item_.v.key, val |-> Read(vars, Item_.v.key)])
TRet == /\ Logged("ret") /\ CanRet /\ EndQuery
        /\ Note(E.ok /\ E.rows = Window(out, -1, Q_.lim), "api", [rows |-> Window(out, -1, Q_.lim)])
        /\ Note(E.ok /\ MapOf(E.vars) = vars, "vars", [vars |-> vars])
\* steps the wrappers cannot see
Silent == l <= Len(Trace) /\ E.ev # "start" /\ CanSilent /\ (DoCol \/ EndRow) /\ UNCHANGED l

\* an event that no action of the specification can take at this point (a call out of order,
\* a query that failed): reported, consumed, and the machine is left where it is
Stuck == /\ l <= Len(Trace) /\ ~CanSilent
         /\ \/ E.ev = "set" /\ ~CanSet
            \/ E.ev = "get" /\ ~CanGetItem /\ ~CanArgGet
            \/ E.ev = "ret" /\ ~CanRet
         /\ Note(FALSE, "api", [unexpected |-> E.ev, qi |-> qi, ri |-> ri, ii |-> ii])
         /\ Mark /\ l' = l + 1 /\ UNCHANGED vvars

TraceNext == Start \/ TSet \/ TGetItem \/ TGetArg \/ TRet \/ Silent \/ Stuck
TraceSpec == TraceInit /\ [][TraceNext]_tvars
Summary == PrintT(<<"TRACE-SUMMARY", TLCGet(1), TLCGet(2), Len(Trace)>>)
=============================================================================
