----------------------------- MODULE CacheTrace -----------------------------
(***************************************************************************)
(* Trace validation for the selector cache (C13).  The guarded hook in       *)
(* ExecReader reports, from inside the library, every protocol step of every *)
(* goroutine together with the FACT whether the cache mutex is held at that  *)
(* instant (mut.TryLock fails):                                              *)
(*   {"ev":"begin"}                                     a new run             *)
(*   {"g", "ev":"lock"|"store"|"read"|"unlock", "sel", "held"}               *)
(* in the order of a sequence number taken inside the hook.  The trace must   *)
(* be a behaviour of the locking protocol of Cache.tla: a goroutine locks    *)
(* only a free mutex, touches the map (store, read) only while it is the      *)
(* holder, unlocks what it holds - and the reported fact must be "held" at    *)
(* every step.                                                                *)
(***************************************************************************)
EXTENDS Integers, Sequences, FiniteSets, TLC, Json

Trace == ndJsonDeserialize("trace.ndjson")
VARIABLES l, holder, phase, cached
tvars == <<l, holder, phase, cached>>
E == Trace[l]

Note(ok, what, exp) ==
    IF ok THEN TRUE
    ELSE /\ PrintT(ToJson([mismatch |-> what, event |-> l, expected |-> exp]))
         /\ TLCSet(1, TLCGet(1) + 1)
Mark == TLCSet(2, IF TLCGet(2) > l THEN TLCGet(2) ELSE l)

TraceInit == l = 1 /\ holder = 0 /\ phase = "free" /\ cached = {} /\ TLCSet(1, 0) /\ TLCSet(2, 0)

Begin == /\ l <= Len(Trace) /\ E.ev = "begin"
         /\ holder' = 0 /\ phase' = "free" /\ cached' = cached      \* the library's cache outlives the run
         /\ Mark /\ l' = l + 1

Step ==
    /\ l <= Len(Trace) /\ E.ev # "begin"
    /\ Note(E.held, "lockfact", [ev |-> E.ev, g |-> E.g, why |-> "the cache mutex is not held at this step"])
    /\ CASE E.ev = "lock" ->
              /\ Note(holder = 0, "lockfact", [ev |-> "lock", g |-> E.g, holder |-> holder])
              /\ holder' = E.g /\ phase' = "locked" /\ cached' = cached
         [] E.ev = "store" ->
              /\ Note(holder = E.g /\ phase = "locked", "lockfact", [ev |-> "store", g |-> E.g, holder |-> holder, phase |-> phase])
              /\ Note(~(E.sel \in cached), "protocol", [ev |-> "store", why |-> "stored although cached"])
              /\ holder' = holder /\ phase' = "stored" /\ cached' = cached \cup {E.sel}
         [] E.ev = "read" ->
              /\ Note(holder = E.g /\ phase \in {"locked", "stored"}, "lockfact", [ev |-> "read", g |-> E.g, holder |-> holder, phase |-> phase])
              /\ Note(E.sel \in cached, "protocol", [ev |-> "read", why |-> "entry read before it was stored"])
              /\ holder' = holder /\ phase' = "read" /\ cached' = cached
         [] OTHER ->
              /\ Note(holder = E.g /\ phase = "read", "lockfact", [ev |-> "unlock", g |-> E.g, holder |-> holder, phase |-> phase])
              /\ holder' = 0 /\ phase' = "free" /\ cached' = cached
    /\ Mark /\ l' = l + 1

TraceNext == Begin \/ Step
TraceSpec == TraceInit /\ [][TraceNext]_tvars
Summary == PrintT(<<"TRACE-SUMMARY", TLCGet(1), TLCGet(2), Len(Trace)>>)
=============================================================================
