------------------------------ MODULE Markers ------------------------------
(***************************************************************************)
(* What a query may do to the caller's document while it runs (C11, and     *)
(* the cleanup half of C19): the lifecycle of the `<-` back-reference the   *)
(* engine writes into the *caller's* row objects while a comparison, a      *)
(* select-list / IN subquery or EXISTS is evaluated against a row, the CTE   *)
(* entries of WITH, and the row extension EXISTS performs - on every path,  *)
(* including a failure at any point of any nesting depth.                   *)
(*                                                                         *)
(*   mark[r]   whether row r of the caller's table carries "<-" right now   *)
(*   top       extra keys in the caller's top-level map (CTE entries)        *)
(*   nested[r] whether the objects of row r's nested array were written to   *)
(*   stack     frames of evaluation in progress on the current row:          *)
(*             [site, had] - had: the row carried "<-" when the frame began  *)
(*   pend      rows whose cleanup was deferred to a post-processor           *)
(* Dev_* constants select the protocol of the pinned tree (deviations that   *)
(* were repaired); all FALSE is the protocol as coded now.                   *)
(***************************************************************************)
EXTENDS Integers, Sequences, FiniteSets, TLC

CONSTANTS NRows, MaxDepth, Wrapped, HasWith,
          Dev_MarkerInCallerRow,      \* the <- back-reference is written into the caller's row (now: into a copy of it)
          Dev_PostProcessorCleanup,   \* subquery / EXISTS markers removed only by post-processors (success path)
          Dev_CteInCallerMap,         \* WITH entries written into the caller's map unless Wrapped
          Dev_ExistsInPlace           \* EXISTS writes the outer row's keys into the nested objects

VARIABLES mark, top, nested, stack, pend, row, pc, res
mvars == <<mark, top, nested, stack, pend, row, pc, res>>

Rows == 1..NRows
Sites == {"cmp", "sub", "exists"}

MInit ==
    /\ mark = [r \in Rows |-> FALSE] /\ top = {} /\ nested = [r \in Rows |-> FALSE]
    /\ stack = <<>> /\ pend = {} /\ row = 1 /\ pc = "new" /\ res = "none"

\* New: BuildCte registers the CTE thunk in the document the query reads from
BuildCte ==
    /\ pc = "new"
    /\ top' = IF HasWith /\ Dev_CteInCallerMap /\ ~Wrapped THEN top \cup {"cte"} ELSE top
    /\ pc' = "rows"
    /\ UNCHANGED <<mark, nested, stack, pend, row, res>>

\* a comparison / subquery / EXISTS starts being evaluated against the current row
Enter(site) ==
    /\ pc = "rows" /\ row <= NRows /\ Len(stack) < MaxDepth
    /\ stack' = Append(stack, [site |-> site, had |-> mark[row]])
    /\ mark' = IF Dev_MarkerInCallerRow THEN [mark EXCEPT ![row] = TRUE] ELSE mark
    /\ nested' = IF site = "exists" /\ Dev_ExistsInPlace THEN [nested EXCEPT ![row] = TRUE] ELSE nested
    /\ UNCHANGED <<top, pend, row, pc, res>>

\* how a frame ends (normally or by unwinding): comparisons always clean up with defer; subqueries
\* and EXISTS restore what they found (as coded now) or leave the cleanup to a post-processor
Unwound(f, m, p) ==
    IF ~Dev_MarkerInCallerRow THEN [m |-> m, p |-> p]
    ELSE IF f.site = "cmp" THEN [m |-> [m EXCEPT ![row] = FALSE], p |-> p]
    ELSE IF Dev_PostProcessorCleanup THEN [m |-> m, p |-> p \cup {row}]
    ELSE [m |-> [m EXCEPT ![row] = f.had], p |-> p]

Leave ==
    /\ pc = "rows" /\ stack # <<>>
    /\ LET u == Unwound(stack[Len(stack)], mark, pend)
       IN  mark' = u.m /\ pend' = u.p
    /\ stack' = SubSeq(stack, 1, Len(stack) - 1)
    /\ UNCHANGED <<top, nested, row, pc, res>>

RECURSIVE UnwindAll(_, _, _)
UnwindAll(st, m, p) ==
    IF st = <<>> THEN [m |-> m, p |-> p]
    ELSE LET u == Unwound(st[Len(st)], m, p) IN UnwindAll(SubSeq(st, 1, Len(st) - 1), u.m, u.p)

\* the step being evaluated fails: every open frame unwinds, Exec returns the error at once
\* (post-processors do not run)
Fail ==
    /\ pc = "rows" /\ row <= NRows
    /\ LET u == UnwindAll(stack, mark, pend) IN mark' = u.m /\ pend' = u.p
    /\ stack' = <<>> /\ pc' = "done" /\ res' = "err"
    /\ UNCHANGED <<top, nested, row>>

NextRow ==
    /\ pc = "rows" /\ row <= NRows /\ stack = <<>>
    /\ row' = row + 1
    /\ UNCHANGED <<mark, top, nested, stack, pend, pc, res>>

\* success: outstanding goroutines are awaited, then the post-processors run
PostProcess ==
    /\ pc = "rows" /\ row > NRows
    /\ mark' = [r \in Rows |-> IF r \in pend THEN FALSE ELSE mark[r]]
    /\ pend' = {} /\ pc' = "done" /\ res' = "ok"
    /\ UNCHANGED <<top, nested, stack, row>>

MNext == BuildCte \/ (\E s \in Sites : Enter(s)) \/ Leave \/ Fail \/ NextRow \/ PostProcess
MSpec == MInit /\ [][MNext]_mvars

---------------------------------------------------------------------------
MTypeOK == pc \in {"new", "rows", "done"} /\ res \in {"none", "ok", "err"} /\ row \in 1..(NRows + 1)

\* C11: when New / Exec return - successfully or with an error - the caller's document is as before
DocRestored ==
    pc = "done" => /\ \A r \in Rows : ~mark[r] /\ ~nested[r]
                   /\ top = {}
\* C13 (one document shared by concurrent queries): the caller's rows are not written at any time
RowsUntouched == \A r \in Rows : ~mark[r] /\ ~nested[r]
\* between two rows no marker is left behind either (a later row's evaluation never sees one)
CleanBetweenRows == (pc = "rows" /\ stack = <<>>) => \A r \in Rows : (r < row /\ pend = {}) => ~mark[r]
\* every behaviour ends
Terminates == <>(pc = "done")
=============================================================================
