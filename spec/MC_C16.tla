------------------------------- MODULE MC_C16 -------------------------------
(* C16 - sanitized parameters are injection-safe for the library's own        *)
(* parser: for every argument string over an adversarial alphabet and every    *)
(* template, tokenizing the sanitized text gives the template's tokens with    *)
(* exactly one string literal at each placeholder whose decoded content is     *)
(* the argument; placeholders inside literals, quoted identifiers and comments *)
(* are left alone; $0, missing and unused arguments are errors.                *)
EXTENDS Lexers, Json

CONSTANTS MaxLen, Alphabet, TemplateIds, HistLen
\* (in Alphabet, 255255 stands for a single byte that is not UTF-8 (0xFF): the harness writes that byte; to the
\* sanitizer and the tokenizer it is one more character that means nothing)

VARIABLES cs, out, pc
vars == <<cs, out, pc>>

\* templates as code points (the harness uses exactly these)
T(id) == CASE id = 1 -> <<83,69,76,69,67,84,32,36,49,32,65,83,32,118,32,70,82,79,77,32,100,117,97,108>>                                   \* SELECT $1 AS v FROM dual
           [] id = 2 -> <<83,69,76,69,67,84,32,97,32,70,82,79,77,32,116,32,87,72,69,82,69,32,115,32,61,32,36,49,32,79,82,32,97,32,61,32,57,57>>   \* SELECT a FROM t WHERE s = $1 OR a = 99
           [] id = 3 -> <<83,69,76,69,67,84,32,36,49,32,65,83,32,118,44,32,39,36,49,32,45,45,32,120,39,32,65,83,32,108,44,32,97,32,65,83,32,96,99,36,49,96,32,70,82,79,77,32,116,32,47,42,32,36,49,32,42,47,32,35,32,36,49,10,32,87,72,69,82,69,32,97,32,61,32,36,50>>
                        \* SELECT $1 AS v, '$1 -- x' AS l, a AS `c$1` FROM t /* $1 */ # $1 <newline> WHERE a = $2
           [] id = 4 -> <<83,69,76,69,67,84,32,39,105,116,92,39,115,32,36,49,39,32,65,83,32,113,44,32,36,49,32,65,83,32,118,32,70,82,79,77,32,100,117,97,108>>   \* SELECT 'it\'s $1' AS q, $1 AS v FROM dual
           [] id = 5 -> <<83,69,76,69,67,84,32,36,49,32,65,83,32,97,44,32,36,50,32,65,83,32,98,32,70,82,79,77,32,100,117,97,108,32,45,45,32,36,49>>              \* SELECT $1 AS a, $2 AS b FROM dual -- $1
           [] id = 7 -> <<83,69,76,69,67,84,32,36,49,32,65,83,32,97,32,70,82,79,77,32,100,117,97,108,32,45,45,9,36,49>>      \* SELECT $1 AS a FROM dual --<TAB>$1
           [] id = 8 -> <<83,69,76,69,67,84,32,36,49,32,65,83,32,97,32,70,82,79,77,32,100,117,97,108,32,45,45,10,32,87,72,69,82,69,32,49,32,61,32,49,32,45,45,13,36,49>>      \* ... --<LF> WHERE 1 = 1 --<CR>$1
           [] id = 9 -> <<83,69,76,69,67,84,32,97,32,65,83,32,96,100,105,114,92,96,44,32,39,96,32,36,49,39,32,65,83,32,108,105,116,44,32,36,49,32,65,83,32,118,32,70,82,79,77,32,116,32,87,72,69,82,69,32,97,32,61,32,55>>
                        \* SELECT a AS `dir\`, '` $1' AS lit, $1 AS v FROM t WHERE a = 7   (a backslash has no meaning inside back quotes)
           [] id = 10 -> <<83,69,76,69,67,84,32,36,49,32,65,83,32,97,32,70,82,79,77,32,100,117,97,108,32,47,47,32,110,111,116,101,32,36,49>>      \* SELECT $1 AS a FROM dual // note $1
           [] id = 11 -> <<83,69,76,69,67,84,32,36,49,32,65,83,32,97,32,70,82,79,77,32,100,117,97,108,32,45,45,32,110,111,116,101,13,32,36,49>>      \* SELECT $1 AS a FROM dual -- note<CR> $1
           [] id = 12 -> <<83,69,76,69,67,84,32,53,45,45,51,32,65,83,32,119,44,32,36,49,32,65,83,32,97,32,70,82,79,77,32,100,117,97,108,32,35,32,120,92,10,32,87,72,69,82,69,32,36,49,32,61,32,36,49>>
                        \* SELECT 5--3 AS w, $1 AS a FROM dual # x\<LF> WHERE $1 = $1   (5--3 is 5 - -3; the backslash does not join the lines)
           [] id = 13 -> <<83,69,76,69,67,84,32,39,65533,39,32,65,83,32,114,44,32,36,49,32,65,83,32,97,32,70,82,79,77,32,100,117,97,108,32,47,42,32,65533,32,42,47,32,87,72,69,82,69,32,36,49,32,61,32,36,49>>
                        \* SELECT '<U+FFFD>' AS r, $1 AS a FROM dual /* <U+FFFD> */ WHERE $1 = $1   (the replacement character itself, valid UTF-8, in the template)
           \* a placeholder used again after another one: every occurrence is the argument of its own number
           [] id = 14 -> <<83,69,76,69,67,84,32,36,49,32,65,83,32,97,44,32,36,50,32,65,83,32,98,44,32,36,49,32,65,83,32,99,32,70,82,79,77,32,100,117,97,108>>      \* SELECT $1 AS a, $2 AS b, $1 AS c FROM dual
           [] id = 15 -> <<83,69,76,69,67,84,32,36,50,32,65,83,32,98,44,32,36,49,32,65,83,32,97,44,32,36,50,32,65,83,32,99,44,32,36,49,32,65,83,32,100,32,70,82,79,77,32,100,117,97,108>>      \* SELECT $2 AS b, $1 AS a, $2 AS c, $1 AS d FROM dual
           \* templates that leave the lexer in the middle of something (used as the earlier call of a history)
           [] id = 20 -> <<83,69,76,69,67,84,32,49,32,47,42,32,107,101,121,115,58,32,117,115,101,114,47,42,32,97,110,100,32,103,114,111,117,112,47,42,32,42,47,32,70,82,79,77,32,100,117,97,108>>
           [] id = 21 -> <<83,69,76,69,67,84,32,49,32,47,42,32,47,42>>
           [] id = 22 -> <<83,69,76,69,67,84,32,39,97,98,99>>
           [] id = 23 -> <<83,69,76,69,67,84,32,96,97,98,99>>
           [] id = 24 -> <<83,69,76,69,67,84,32,49,32,45,45,32,36,49>>
           [] id = 25 -> <<83,69,76,69,67,84,32,69,39,97,92>>
           [] OTHER  -> <<83,69,76,69,67,84,32,36,48,32,70,82,79,77,32,100,117,97,108>>                                                    \* SELECT $0 FROM dual
NArgs(id) == CASE id \in {3, 5, 14, 15} -> 2 [] OTHER -> 1

Strs == UNION {[1..n -> Alphabet] : n \in 0..MaxLen}
Str(c) == [t |-> "s", c |-> c]
Lit(c) == [t |-> "lit", c |-> c]
Second == Lit(<<55>>)      \* the second argument where a template has two: the number 7

\* histories: SanitizeSQL is a function of (template, arguments) - an earlier call, whatever state its
\* lexer ended in, must not show in a later one
Befores == {20, 21, 22, 23, 24, 25}
HistStrs == UNION {[1..n -> Alphabet] : n \in 0..HistLen}
Init == /\ \/ \E id \in TemplateIds : \E s \in Strs :
                 cs = [tpl |-> id, args |-> IF NArgs(id) = 2 THEN <<Str(s), Second>> ELSE <<Str(s)>>, before |-> 0]
           \/ \E id \in {1, 3, 5, 7} : \E b \in Befores : \E s \in HistStrs :
                 cs = [tpl |-> id, args |-> IF NArgs(id) = 2 THEN <<Str(s), Second>> ELSE <<Str(s)>>, before |-> b]
        /\ out = <<>> /\ pc = "start"
Run == pc = "start" /\ out' = Sanitize(T(cs.tpl), cs.args) /\ pc' = "done" /\ UNCHANGED cs
Next == Run
Spec == Init /\ [][Next]_vars

---------------------------------------------------------------------------
Done == pc = "done"
Arg1 == cs.args[1].c
\* the template with every placeholder (outside literals / identifiers / comments) replaced by a fixed literal 'X'
Reference == Sanitize(T(cs.tpl), IF NArgs(cs.tpl) = 2 THEN <<Str(<<88>>), Second>> ELSE <<Str(<<88>>)>>)
RefToks == MyTokens(Reference)
Toks == MyTokens(out)
IsX(t) == t.k = "str" /\ t.c = <<88>>

\* same statement shape, and the literal at each placeholder is exactly the argument
Safe ==
    (Done /\ cs.tpl # 6) =>
        /\ out # SanErr
        /\ Len(Toks) = Len(RefToks)
        /\ \A i \in DOMAIN Toks : IF IsX(RefToks[i]) THEN Toks[i] = [k |-> "str", c |-> Arg1] ELSE Toks[i] = RefToks[i]
        /\ \E i \in DOMAIN RefToks : IsX(RefToks[i])
\* $0 is an error
ZeroIsError == (Done /\ cs.tpl = 6) => out = SanErr
\* missing / unused arguments are errors (checked on the reference arguments)
ArityLaw == /\ Sanitize(T(1), <<>>) = SanErr
            /\ Sanitize(T(1), <<Str(<<88>>), Str(<<89>>)>>) = SanErr
            /\ Sanitize(T(5), <<Str(<<88>>)>>) = SanErr
\* QuoteString followed by the tokenizer's string scanning is the identity
RoundTrip == Done => LET r == MyString(QuoteString(Arg1), 2, SQ, <<>>) IN r.ok /\ r.c = Arg1 /\ r.p = Len(QuoteString(Arg1)) + 1

Export == Done => PrintT(ToJson([tpl |-> T(cs.tpl), id |-> cs.tpl, args |-> cs.args, out |-> out,
                                 before |-> IF cs.before = 0 THEN <<>> ELSE T(cs.before),
                                 outbefore |-> IF cs.before = 0 THEN <<>> ELSE Sanitize(T(cs.before), <<Str(<<88>>)>>)]))
=============================================================================
