------------------------------- MODULE MC_C08 -------------------------------
(* C08 - a FROM path that resolves to an array of arrays (any depth): the      *)
(* result has the same nesting and every inner array's result equals the       *)
(* same WHERE + select list run directly on that inner array; flattening the   *)
(* source with mix=> and querying once gives the concatenation.                *)
EXTENDS Gen

CONSTANTS LeafVals, MaxLeaf, MaxOuter, Deep3

LPool == <<Row([a |-> NumV(1)]), Row([a |-> NumV(3), b |-> NumV(1)]), Row([a |-> NumV(5)])>>
LRows == {LPool[i] : i \in 1..LeafVals}
Leaves == {ArrV(s) : s \in SeqsUpTo(LRows, MaxLeaf)}
M2 == {ArrV(s) : s \in SeqsFromTo(Leaves, 1, MaxOuter)}                     \* depth 2, ragged, empty inner arrays
SmallLeaves == {ArrV(s) : s \in SeqsUpTo(LRows, 1)}
Mid == {ArrV(s) : s \in SeqsUpTo(SmallLeaves, 2)}
M3 == IF Deep3 THEN {ArrV(s) : s \in SeqsFromTo(Mid, 1, 2)} ELSE {}        \* depth 3

A == Col("a")
\* (the last one reads the document next to the table through the back-reference: w = 3 in every document)
\* (m.a: the column spelled with the table's name in front is a path through a key m of the row - which no row has -
\* inside the inner arrays exactly as on an array queried directly)
MA == ColP(<<"m", "a">>)
Wheres == {None, CmpE(">", A, LN(1)), CmpE("=", A, LN(3)), NotE(CmpE("<", A, LN(5))), CmpE("=", A, ColP(<<"<-", "w">>)),
           OrE(CmpE(">", MA, LN(1)), CmpE("=", A, LN(3)))}
Sels == {<<Star>>, <<Item(A, "")>>, <<Item(Bin("+", A, LN(1)), "b")>>,          \* b = a + 1: projecting twice would show
         <<Item(A, "x"), Item(Col("b"), "")>>, <<Item(MA, "q"), Item(A, "")>>}
MFrom == Table(<<"m">>, "")
MixFrom == [k |-> "sel", as |-> "", sel |-> <<[fn |-> "mix", steps |-> <<[k |-> "key", name |-> "m"]>>]>>]

Init ==
    /\ \E m \in M2 \cup M3 : \E w \in Wheres : \E sl \in Sels : \E f \in {MFrom, MixFrom} :
          cs = [fam |-> IF f = MFrom THEN "nested" ELSE "mix", doc |-> ObjV([x \in {"m", "w"} |-> IF x = "m" THEN m ELSE NumV(3)]),
                q |-> [BaseQ EXCEPT !.sel = sl, !.where = w, !.from = f]]
    /\ EngineInit
Next == EngineNext
Spec == Init /\ [][Next]_vars

---------------------------------------------------------------------------
Src == cs.doc.f["m"]
Flat(rows) == RunQ([cs.q EXCEPT !.from = Table(<<"r">>, "")], ObjV([x \in {"r", "w"} |-> IF x = "r" THEN ArrV(rows) ELSE cs.doc.f["w"]]))

IsLeafArr(x) == IsArr(x) /\ \A i \in DOMAIN x.e : ~IsArr(x.e[i])
\* the query applied inside every innermost array, nesting preserved
RECURSIVE Inside(_)
Inside(x) == IF IsLeafArr(x) THEN Flat(x.e) ELSE ArrV([i \in 1..Len(x.e) |-> Inside(x.e[i])])
\* leaf results concatenated in order
RECURSIVE LeafConcat(_)
LeafConcat(x) == IF IsLeafArr(x) THEN Flat(x.e).e ELSE Concat([i \in 1..Len(x.e) |-> LeafConcat(x.e[i])])

Total == Done => ~IsErr(res)
SameNestingAndInner == (Ok /\ cs.fam = "nested") => res = Inside(Src)
MixIsConcat == (Ok /\ cs.fam = "mix") => res.e = LeafConcat(Src)

Export == Done => PrintT(ToJson([q |-> cs.q, doc |-> cs.doc, fam |-> cs.fam, hist |-> hist, res |-> res]))
=============================================================================
