------------------------------- MODULE MC_C06 -------------------------------
(* C06 - SELECT DISTINCT keeps the first occurrence of each distinct output   *)
(* row; A UNION ALL B concatenates, A UNION B concatenates and removes        *)
(* duplicates, chains associate to the left, LIMIT applies to the combined    *)
(* result.                                                                    *)
EXTENDS Gen

CONSTANTS MaxRows,     \* rows per table, DISTINCT family
          MaxBranch,   \* rows per branch table, UNION family
          UVals        \* how many of the branch row values are used

S(c) == StrV(c)
\* values chosen so that textual fingerprints of different rows coincide:
\* {a:"x b:y"} / {a:"x", b:"y"},  1 / "1",  missing b / b = NULL
DPool == {Row([a |-> S(<<120>>), b |-> S(<<121>>)]),
          Row([a |-> S(<<120, 32, 98, 58, 121>>)]),
          Row([a |-> S(<<120>>), b |-> S(<<122>>)]),
          Row([a |-> NumV(1), b |-> S(<<121>>)]),
          Row([a |-> S(<<49>>), b |-> S(<<121>>)]),
          Row([a |-> S(<<120>>), b |-> Null]),
          Row([a |-> S(<<120>>)]),
          \* values with an identity of their own (a non-empty array, an object): a select list naming the column twice
          \* yields rows that reach one and the same value by two routes
          Row([a |-> ArrV(<<NumV(1), S(<<121>>)>>), b |-> S(<<121>>)]),
          Row([a |-> ObjV([p |-> ArrV(<<NumV(1)>>)]), b |-> S(<<121>>)])}
DLists == {<<Star>>, <<Item(Col("a"), "")>>, <<Item(Col("a"), ""), Item(Col("b"), "")>>, <<Item(Col("b"), "k")>>,
           <<Item(Col("a"), ""), Item(Col("a"), "x")>>, <<Star, Item(Col("a"), "x")>>}
DWins  == {<<-1, -1>>, <<2, -1>>, <<1, 1>>}

UPool == <<Row([a |-> NumV(1)]), Row([a |-> NumV(2)]), Row([a |-> S(<<49>>)])>>
URows == {UPool[i] : i \in 1..UVals}
Branch(name, w) == [BaseQ EXCEPT !.sel = <<Item(Col("a"), "")>>, !.from = Table(<<name>>, ""), !.where = w]
Union(l, r, all, w) == [k |-> "union", l |-> l, r |-> r, all |-> all, limit |-> w[1], offset |-> w[2]]
NoWin == <<-1, -1>>
\* (2000000000 / 2000000001: the largest counts the parser accepts, see MC_C05 - "all the rest" after the offset)
UWins == {NoWin, <<2, -1>>, <<1, 1>>, <<3, 2>>, <<2000000001, 1>>, <<2000000000, 2>>, <<2000000001, -1>>}
Ge2   == CmpE(">=", Col("a"), LN(2))
Tbls  == SeqsUpTo(URows, MaxBranch)
Doc3(t, u, v) == ObjV([x \in {"t", "u", "v"} |-> ArrV(IF x = "t" THEN t ELSE IF x = "u" THEN u ELSE v)])

Init ==
    /\ \/ \E tbl \in SeqsUpTo(DPool, MaxRows) : \E sl \in DLists : \E w \in DWins :
            cs = [fam |-> "distinct", doc |-> Doc1("t", tbl),
                  q |-> [BaseQ EXCEPT !.sel = sl, !.distinct = TRUE, !.limit = w[1], !.offset = w[2]]]
       \/ \E t \in Tbls : \E u \in Tbls : \E all \in BOOLEAN : \E w \in UWins : \E wr \in {None, Ge2} :
            cs = [fam |-> "union2", doc |-> Doc3(t, u, <<>>),
                  q |-> Union(Branch("t", None), Branch("u", wr), all, w)]
       \/ \E t \in Tbls : \E u \in Tbls : \E v \in Tbls : \E a1 \in BOOLEAN : \E a2 \in BOOLEAN : \E w \in {NoWin, <<2, 1>>} :
            cs = [fam |-> "union3", doc |-> Doc3(t, u, v),
                  q |-> Union(Union(Branch("t", None), Branch("u", None), a1, NoWin), Branch("v", None), a2, w)]
       \* a nested union with a window of its own (parenthesised): its LIMIT applies to its own combined, de-duplicated rows
       \/ \E t \in Tbls : \E u \in Tbls : \E v \in Tbls : \E a1 \in BOOLEAN : \E a2 \in BOOLEAN : \E wi \in {<<2, -1>>, <<1, 1>>} : \E left \in BOOLEAN :
            cs = [fam |-> "union3", doc |-> Doc3(t, u, v),
                  q |-> IF left THEN Union(Union(Branch("t", None), Branch("u", None), a1, wi), Branch("v", None), a2, NoWin)
                                ELSE Union(Branch("v", None), Union(Branch("t", None), Branch("u", None), a1, wi), a2, NoWin)]
       \* branches whose select lists are aggregates without GROUP BY (one row each), spelled alike on both sides
       \/ \E t \in Tbls : \E u \in Tbls : \E all \in BOOLEAN : \E ag \in {<<Item(Agg("count", <<>>), "n")>>, <<Item(Agg("count", <<>>), "n"), Item(Agg("count", <<"a">>), "m")>>} :
            cs = [fam |-> "union2", doc |-> Doc3(t, u, <<>>),
                  q |-> Union([Branch("t", None) EXCEPT !.sel = ag], [Branch("u", None) EXCEPT !.sel = ag], all, NoWin)]
       \* DISTINCT over grouped rows: groups that agree on the selected columns give one row
       \* (scalar grouping keys: what GROUP BY makes of an array or an object is claimed by no property)
       \/ \E tbl \in SeqsUpTo({r \in DPool : \A x \in DOMAIN r.f : ~IsArr(r.f[x]) /\ ~IsObj(r.f[x])}, MaxRows) : \E sl \in {<<Item(Col("a"), "")>>, <<Item(Col("b"), "")>>, <<Item(Col("a"), ""), Item(Col("b"), "")>>, <<Item(Col("b"), "k"), Item(Agg("count", <<>>), "c")>>} :
            cs = [fam |-> "distinct", doc |-> Doc1("t", tbl),
                  q |-> [BaseQ EXCEPT !.sel = sl, !.distinct = TRUE, !.group = <<"a", "b">>]]
    /\ EngineInit

Next == EngineNext
Spec == Init /\ [][Next]_vars

---------------------------------------------------------------------------
Total == Done => ~IsErr(res)

IsSubseq(s, t) == \E idx \in SUBSET DOMAIN t : s = FilterSeq(t, idx)

\* DISTINCT: each distinct row once, at the position of its first occurrence
Sel_ == Stage("select")
Dis  == Stage("distinct")
DistinctLaw ==
    (HasStage("distinct") /\ cs.fam = "distinct") =>
        /\ Len(Dis) = Cardinality(Range(Sel_))
        /\ Range(Dis) = Range(Sel_)
        /\ Dis = FilterSeq(Sel_, {i \in DOMAIN Sel_ : \A j \in 1..(i - 1) : Sel_[j] # Sel_[i]})
        /\ Dedup(Dis) = Dis

Rows_(q) == RunQ(q, cs.doc).e
NoW(q)   == [q EXCEPT !.limit = -1, !.offset = -1]
\* UNION ALL concatenates; UNION = DISTINCT of that; LIMIT applies to the combined result
UnionLaw ==
    (Ok /\ cs.q.k = "union") =>
        LET cat == Rows_(cs.q.l) \o Rows_(cs.q.r)
            all == IF cs.q.all THEN cat ELSE Dedup(cat)
        IN  /\ Rows_(NoW(cs.q)) = all
            /\ res.e = Window(all, cs.q.offset, cs.q.limit)
            /\ Rows_(NoW([cs.q EXCEPT !.all = FALSE])) = Dedup(Rows_(NoW([cs.q EXCEPT !.all = TRUE])))

\* chains of one kind are associative
Assoc ==
    \* (left-nested chains whose inner union has no window of its own)
    (Ok /\ cs.fam = "union3" /\ cs.q.l.k = "union" /\ cs.q.l.limit = -1 /\ cs.q.l.offset = -1 /\ cs.q.all = cs.q.l.all) =>
        LET a == cs.q.l.l
            b == cs.q.l.r
            c == cs.q.r
            right == Rows_(Union(b, c, cs.q.all, NoWin))
            cat == Rows_(a) \o right
        IN  Rows_(NoW(cs.q)) = IF cs.q.all THEN cat ELSE Dedup(cat)

Export ==
    Done => PrintT(ToJson([q |-> cs.q, doc |-> cs.doc, fam |-> cs.fam, hist |-> hist, res |-> res,
                           dups |-> IF cs.q.k = "union"
                                    THEN Len(Rows_(NoW([cs.q EXCEPT !.all = TRUE]))) - Len(Rows_(NoW([cs.q EXCEPT !.all = FALSE])))
                                    ELSE Len(Sel_) - Len(Dis)]))
=============================================================================
