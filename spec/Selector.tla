------------------------------ MODULE Selector ------------------------------
(***************************************************************************)
(* The path-selector language (property C09).  A selector is a sequence of   *)
(* segments joined by `::`; a segment is an optional top level function and  *)
(* a sequence of steps:                                                      *)
(*   [k |-> "key", name]                      a.b  'quoted key'              *)
(*   [k |-> "idx", keep, dims |-> Seq(dim)]   [0] [each:0] [keep=>each:each]  *)
(*        dim: [k|->"each"]  [k|->"at", i]  [k|->"range", lo, hi]             *)
(*             (lo = -1: begin, hi = -1: end; a range slices the current      *)
(*             dimension, the next dim applies to the slice)                  *)
(*   [k |-> "pipe", items |-> Seq([key, ty])] {k|string, k2}                  *)
(* EvalSel(doc, sel) is a value or Err: a step applied to the wrong shape,    *)
(* an index or bound outside the array, an unknown function or conversion.    *)
(* NULL stays NULL under every further step; a missing key is NULL.           *)
(***************************************************************************)
EXTENDS Builtins

\* flatten `depth` levels; elements that are not arrays are kept (Unwind in selector.go)
RECURSIVE Unwind(_, _)
Unwind(es, depth) ==
    IF depth = 0 THEN es
    ELSE Concat([i \in 1..Len(es) |-> IF IsArr(es[i]) THEN Unwind(es[i].e, depth - 1) ELSE <<es[i]>>])

\* complete flattening (mix=> on arrays)
RECURSIVE MixArr(_)
MixArr(es) == Concat([i \in 1..Len(es) |-> IF IsArr(es[i]) THEN MixArr(es[i].e) ELSE <<es[i]>>])

RECURSIVE SelDim(_, _)
SelDim(data, dims) ==
    IF dims = <<>> THEN data
    ELSE IF IsNull(data) THEN Null
    ELSE IF ~IsArr(data) THEN Err
    ELSE LET d == Head(dims)
             n == Len(data.e)
         IN  CASE d.k = "range" ->
                    LET lo == IF d.lo = -1 THEN 0 ELSE d.lo
                        hi == IF d.hi = -1 THEN n ELSE d.hi
                    IN  IF lo > hi \/ hi > n THEN Err
                        ELSE SelDim(ArrV(SubSeq(data.e, lo + 1, hi)), Tail(dims))
               [] d.k = "each" ->
                    LET r == [i \in 1..n |-> SelDim(data.e[i], Tail(dims))]
                    IN  IF AnyErr(r) THEN Err ELSE ArrV(r)
               [] OTHER -> IF d.i >= n THEN Err ELSE SelDim(data.e[d.i + 1], Tail(dims))

\* %f of a number with at most six fractional digits
Pad6(fr) == fr \o [i \in 1..(6 - Len(fr)) |-> 48]
FixedText(a) == LET m == Abs(a.n)
                IN  (IF a.n < 0 THEN <<45>> ELSE <<>>) \o NatDigits(m \div a.d) \o <<46>> \o Pad6(FracDigits(m % a.d, a.d, 6))

PipeValue(v, ty) ==
    CASE ty = "" -> v
      [] ty = "string" -> IF IsNum(v) THEN (IF v.d = 1 THEN StrV(NumText(v)) ELSE StrV(FixedText(v)))
                          ELSE IF IsScalar(v) THEN StrV(Text(v)) ELSE Unspec   \* %v of an object / array
      [] ty = "number" -> IF IsStr(v) THEN ParseNum(v.c) ELSE Err
      [] OTHER -> Err

RECURSIVE Reader(_, _)
Reader(data, steps) ==
    IF steps = <<>> \/ IsAny(data) THEN data
    ELSE IF IsNull(data) THEN Null
    ELSE LET s == Head(steps)
             each == LET r == [i \in 1..Len(data.e) |-> Reader(data.e[i], steps)]
                     IN  IF AnyErr(r) THEN Err ELSE IF \E i \in DOMAIN r : IsAny(r[i]) THEN Unspec ELSE ArrV(r)
         IN  CASE s.k = "key" ->
                    IF IsObj(data) THEN Reader(Get(data, s.name), Tail(steps))
                    ELSE IF IsArr(data) THEN each ELSE Err
               [] s.k = "idx" ->
                    IF ~IsArr(data) THEN Err
                    ELSE LET r == SelDim(data, s.dims)
                         IN  IF IsErr(r) THEN Err
                             ELSE IF s.keep \/ ~IsArr(r) THEN Reader(r, Tail(steps))
                             ELSE Reader(ArrV(Unwind(r.e, Len(s.dims) - 1)), Tail(steps))
               [] s.k = "pipe" ->
                    IF IsObj(data)
                    THEN LET ks == {s.items[i].key : i \in DOMAIN s.items}
                             last(k) == CHOOSE i \in DOMAIN s.items : s.items[i].key = k /\ \A j \in DOMAIN s.items : s.items[j].key = k => j <= i
                             vals == [k \in ks |-> PipeValue(Get(data, k), s.items[last(k)].ty)]
                         IN  IF \E i \in DOMAIN s.items : IsErr(PipeValue(Get(data, s.items[i].key), s.items[i].ty)) THEN Err
                             ELSE IF \E k \in ks : IsAny(vals[k]) THEN Unspec
                             ELSE Reader(ObjV(vals), Tail(steps))
                    ELSE IF IsArr(data) THEN each ELSE Err
               [] OTHER -> Err

TopLevel(fn, v) ==
    CASE fn = "" -> v
      [] fn = "mix" -> IF IsArr(v) THEN ArrV(MixArr(v.e)) ELSE IF IsObj(v) THEN Unspec ELSE Err   \* objects: MixObject, not modelled
      [] fn = "distinct" -> IF IsArr(v) THEN ArrV(Dedup(v.e)) ELSE Err
      [] OTHER -> Err

EvalSeg(data, seg) ==
    LET r == Reader(data, seg.steps)
    IN  IF IsErr(r) \/ IsAny(r) THEN r ELSE TopLevel(seg.fn, r)

RECURSIVE EvalSel(_, _)
EvalSel(data, sel) ==
    IF sel = <<>> THEN data
    ELSE LET r == EvalSeg(data, Head(sel)) IN IF IsErr(r) \/ IsAny(r) THEN r ELSE EvalSel(r, Tail(sel))
=============================================================================
