----------------------------- MODULE AsyncTrace -----------------------------
(***************************************************************************)
(* Trace validation for the execution strategies (C14).  The harness's own   *)
(* functions record, with a sequence number taken under one lock:            *)
(*   {"ev":"begin"}                         a new run (fixed NRows, Items)    *)
(*   {"ev":"row","r"}                       the main goroutine starts row r   *)
(*   {"ev":"start","r","i"} / {"ev":"finish","r","i"}   a qualified call      *)
(*   {"ev":"ret","ok","rows"}               Exec has returned (ok = no error) *)
(* Every event must be an enabled action of Async.tla: in particular "ret"    *)
(* is only enabled once the wait group has drained.                           *)
(***************************************************************************)
EXTENDS Async, Values, Json

Trace == ndJsonDeserialize("trace.ndjson")
VARIABLE l
tvars == <<avars, l>>
E == Trace[l]

Items0 == <<"col", "async">>
Items1 == <<"async", "spinasync", "sync">>
Items2 == <<"once", "async", "spin">>
Items3 == <<"async", "col", "async">>
Items4 == <<"spinasync", "async", "async", "once">>
Items5 == <<"async", "fail", "spinasync">>
Items6 == <<"spinasync", "async", "fail">>

Note(ok, what, exp) ==
    IF ok THEN TRUE
    ELSE /\ PrintT(ToJson([mismatch |-> what, event |-> l, expected |-> exp]))
         /\ TLCSet(1, TLCGet(1) + 1)
Mark == TLCSet(2, IF TLCGet(2) > l THEN TLCGet(2) ELSE l)
Consume == Mark /\ l' = l + 1

TraceInit == l = 1 /\ TLCSet(1, 0) /\ TLCSet(2, 0) /\ AInit

Begin ==
    /\ l <= Len(Trace) /\ E.ev = "begin"
    /\ pc' = "rows" /\ next' = 1 /\ wg' = 0 /\ once' = NoOnce /\ sched' = <<>>
    /\ st' = [c \in Calls |-> "none"] /\ inv' = [c \in Calls |-> 0]
    /\ cell' = [r \in Rows |-> [i \in Its |-> Absent]] /\ owg' = 0
    /\ Consume

TRow == l <= Len(Trace) /\ E.ev = "row" /\ pc = "rows" /\ next = E.r /\ MainRow /\ Consume
\* the main goroutine leaves the row loop: not logged
Silent == l <= Len(Trace) /\ E.ev \in {"start", "finish", "ret"} /\ RowsDone /\ UNCHANGED l
C_ == <<E.r, E.i>>
TStart  == l <= Len(Trace) /\ E.ev = "start"  /\ C_ \in Calls /\ st[C_] = "spawned" /\ FnStart(C_)  /\ Consume
TFinish == l <= Len(Trace) /\ E.ev = "finish" /\ C_ \in Calls /\ st[C_] = "running" /\ FnFinish(C_) /\ Consume

KeyName(i) == CASE i = 1 -> "c1" [] i = 2 -> "c2" [] i = 3 -> "c3" [] i = 4 -> "c4" [] i = 5 -> "c5" [] OTHER -> "c6"
ExpectedRow(r, cl) ==
    LET present == {i \in Its : cl[r][i] # Absent}
    IN  ObjV([k \in {"m"} \cup {KeyName(i) : i \in present} |->
               IF k = "m" THEN NumV(r) ELSE NumV(cl[r][CHOOSE i \in present : KeyName(i) = k])])
TRet ==
    /\ l <= Len(Trace) /\ E.ev = "ret" /\ pc \in {"wait", "failed"} /\ wg = 0 /\ Return
    /\ IF pc = "failed"
       THEN Note(~E.ok, "api", [error |-> "expected"])
       ELSE IF EmptyWindow THEN Note(E.ok /\ E.rows = <<>>, "api", [rows |-> <<>>])
       ELSE Note(E.ok /\ E.rows = [r \in Rows |-> ExpectedRow(r, cell')], "api", [rows |-> [r \in Rows |-> ExpectedRow(r, cell')]])
    /\ Consume

\* an event the specification cannot take here: Exec returning before the wait group drained, a call
\* starting twice or never spawned, a row out of order
Stuck ==
    /\ l <= Len(Trace) /\ ~(pc = "rows" /\ next > NRows)
    /\ \/ E.ev = "row" /\ ~(pc = "rows" /\ next = E.r)
       \/ E.ev = "start" /\ ~(C_ \in Calls /\ st[C_] = "spawned")
       \/ E.ev = "finish" /\ ~(C_ \in Calls /\ st[C_] = "running")
       \/ E.ev = "ret" /\ ~(pc \in {"wait", "failed"} /\ wg = 0)
    /\ Note(FALSE, "api", [unexpected |-> E, pc |-> pc, wg |-> wg])
    /\ Consume /\ UNCHANGED avars

TraceNext == Begin \/ TRow \/ Silent \/ TStart \/ TFinish \/ TRet \/ Stuck
TraceSpec == TraceInit /\ [][TraceNext]_tvars
Summary == PrintT(<<"TRACE-SUMMARY", TLCGet(1), TLCGet(2), Len(Trace)>>)
=============================================================================
