------------------------------- MODULE MC_C19 -------------------------------
(* C19 / C11 - query shapes with a fault-injecting function boom(x) (the       *)
(* identity when it does not fail) in every clause position the engine can     *)
(* express: WHERE, select list, CASE arm, HAVING, CTE body, derived table      *)
(* (also as a join side), row-scoped subquery, IN subquery, EXISTS, either     *)
(* union branch, an inner dimension, two levels deep; plus RAISE / RAISE_WHEN   *)
(* on some row and type errors per clause.  The specification gives the         *)
(* fault-free meaning; the harness measures the number N of invocations and     *)
(* re-runs with the k-th invocation failing for every k in 1..N.                *)
EXTENDS Gen

CONSTANTS MaxRows

N_(ps) == ArrV([i \in 1..Len(ps) |-> Row([p |-> NumV(ps[i])])])
TRows == {Row([a |-> NumV(1), g |-> NumV(0), s |-> StrV(<<120>>), n |-> N_(<<2, 5>>)]),
          Row([a |-> NumV(3), g |-> NumV(1), s |-> StrV(<<121>>), n |-> N_(<<1>>)]),
          Row([a |-> NumV(4), g |-> NumV(0), s |-> StrV(<<120>>), n |-> N_(<<>>)])}
URows == <<Row([c |-> NumV(3)]), Row([c |-> NumV(9)])>>
Docs == {ObjV([x \in {"t", "u", "m"} |-> CASE x = "t" -> ArrV(t) [] x = "u" -> ArrV(URows) [] OTHER -> ArrV(<<ArrV(t), ArrV(<<>>)>>)]) :
            t \in SeqsFromTo(TRows, 1, MaxRows)}

A == Col("a")
Boom(e) == [k |-> "fn", f |-> "boom", args |-> <<e>>]
Fn(f, args) == [k |-> "fn", f |-> f, args |-> args]
I(e, as) == Item(e, as)
SelQ(sel, from, where) == [BaseQ EXCEPT !.sel = sel, !.from = from, !.where = where]
T == Table(<<"t">>, "")
U == Table(<<"u">>, "")
NQ(sel, w) == SelQ(sel, Table(<<"n">>, ""), w)
UnionQ(l, r) == [k |-> "union", l |-> l, r |-> r, all |-> TRUE, limit |-> -1, offset |-> -1]
JoinQ == [BaseQ EXCEPT !.sel = <<Star>>,
            !.from = [k |-> "join", type |-> "inner", kw |-> "",
                      l |-> Derived(SelQ(<<I(Boom(A), "a")>>, T, None), "x"), r |-> Table(<<"u">>, "y"),
                      on |-> CmpE("=", ColP(<<"x", "a">>), ColP(<<"y", "c">>))]]

Shapes == {
  [pos |-> "where",   q |-> SelQ(<<I(A, "")>>, T, CmpE(">", Boom(A), LN(1)))],
  [pos |-> "select",  q |-> SelQ(<<I(A, ""), I(Boom(A), "b")>>, T, None)],
  [pos |-> "both",    q |-> SelQ(<<I(Boom(A), "b")>>, T, CmpE(">=", Boom(A), LN(3)))],
  [pos |-> "case",    q |-> SelQ(<<I(CaseE(<<[c |-> CmpE(">", A, LN(1)), v |-> Boom(A)]>>, LN(0)), "v")>>, T, None)],
  [pos |-> "having",  q |-> [SelQ(<<I(Col("g"), ""), I(Agg("count", <<>>), "k")>>, T, None) EXCEPT !.group = <<"g">>,
                              !.having = CmpE(">", Boom(Agg("count", <<>>)), LN(0))]],
  [pos |-> "cte",     q |-> [SelQ(<<Star>>, Table(<<"c">>, ""), None) EXCEPT !.with = <<[name |-> "c", q |-> SelQ(<<I(Boom(A), "a")>>, T, None)]>>]],
  [pos |-> "derived", q |-> SelQ(<<I(ColP(<<"x", "a">>), "")>>, Derived(SelQ(<<I(Boom(A), "a")>>, T, None), "x"), None)],
  [pos |-> "joinside", q |-> JoinQ],
  [pos |-> "subquery", q |-> SelQ(<<I(A, ""), I(Sub(NQ(<<I(Boom(Col("p")), "p")>>, None)), "s")>>, T, None)],
  [pos |-> "insub",   q |-> SelQ(<<I(A, "")>>, T, InSub(A, SelQ(<<I(Boom(Col("c")), "c")>>, Table(<<"<-", "u">>, ""), None)))],
  [pos |-> "exists",  q |-> SelQ(<<I(A, "")>>, T, Exists(NQ(<<Star>>, CmpE(">", Boom(Col("p")), LN(1)))))],
  [pos |-> "exists_select", q |-> SelQ(<<I(A, "")>>, T, Exists(NQ(<<I(Boom(Col("p")), "p")>>, None)))],
  [pos |-> "notexists_select", q |-> SelQ(<<I(A, "")>>, T, NotE(Exists(NQ(<<I(Boom(Col("p")), "p")>>, CmpE(">", Col("p"), LN(1))))))],
  [pos |-> "exists_having", q |-> SelQ(<<I(A, "")>>, T, Exists([NQ(<<I(Col("p"), ""), I(Agg("count", <<>>), "k")>>, None) EXCEPT !.group = <<"p">>,
                                                                !.having = CmpE(">", Boom(Agg("count", <<>>)), LN(0))]))],
  [pos |-> "exists_raise", q |-> SelQ(<<I(A, "")>>, T, Exists(NQ(<<I(Fn("raise_when", <<CmpE(">", Col("p"), LN(4)), LS(<<98>>)>>), ""), I(Col("p"), "")>>, None)))],
  [pos |-> "unionr",  q |-> UnionQ(SelQ(<<I(A, "")>>, T, None), SelQ(<<I(Boom(Col("c")), "a")>>, U, None))],
  [pos |-> "unionl",  q |-> UnionQ(SelQ(<<I(Boom(A), "a")>>, T, None), SelQ(<<I(Col("c"), "a")>>, U, None))],
  [pos |-> "dimension", q |-> SelQ(<<I(Boom(A), "b")>>, Table(<<"m">>, ""), CmpE(">", A, LN(1)))],
  [pos |-> "deep",    q |-> [SelQ(<<Star>>, Table(<<"c">>, ""), None) EXCEPT !.with =
                              <<[name |-> "c", q |-> SelQ(<<I(A, ""), I(Sub(NQ(<<I(Boom(Col("p")), "p")>>, None)), "s")>>, T, CmpE(">", Boom(A), LN(0)))]>>]],
  \* a fault in the select list of a statement that also has a star / a row-scoped subquery / a lazily read CTE (<-c) in it
  [pos |-> "starfault", q |-> SelQ(<<I(Boom(A), "b"), Star>>, T, None)],
  [pos |-> "starwhere", q |-> SelQ(<<Star>>, T, CmpE(">", Boom(A), LN(1)))],
  [pos |-> "subfault",  q |-> SelQ(<<I(A, ""), I(Sub(NQ(<<I(Col("p"), "")>>, None)), "s"), I(Boom(A), "b")>>, T, None)],
  [pos |-> "lazycte",   q |-> [SelQ(<<I(A, ""), I(Sub(SelQ(<<I(A, "")>>, Table(<<"<-", "c">>, ""), CmpE(">", A, LN(1)))), "s")>>, T, None)
                                 EXCEPT !.with = <<[name |-> "c", q |-> SelQ(<<I(Boom(A), "a")>>, T, None)]>>]],
  [pos |-> "lazycte_in", q |-> [SelQ(<<I(A, "")>>, T, InSub(A, SelQ(<<I(A, "")>>, Table(<<"<-", "c">>, ""), None)))
                                 EXCEPT !.with = <<[name |-> "c", q |-> SelQ(<<I(Boom(A), "a")>>, T, CmpE(">", A, LN(1)))]>>]],
  [pos |-> "inlist",  q |-> SelQ(<<I(A, "")>>, T, InE(FALSE, A, <<Boom(LN(1)), LN(4)>>))],
  [pos |-> "between", q |-> SelQ(<<I(A, "")>>, T, Between(FALSE, Boom(A), LN(1), Boom(LN(3))))],
  [pos |-> "fnarg",   q |-> SelQ(<<I(Fn("concat", <<Boom(Col("s")), LS(<<33>>)>>), "v")>>, T, None)],
  [pos |-> "groupsel", q |-> [SelQ(<<I(Col("g"), ""), I(Boom(Agg("sum", <<"a">>)), "v")>>, T, None) EXCEPT !.group = <<"g">>]],
  [pos |-> "distinctorder", q |-> [SelQ(<<I(Boom(Col("g")), "g")>>, T, None) EXCEPT !.distinct = TRUE,
                                     !.order = <<[key |-> <<"g">>, asc |-> FALSE]>>, !.limit = 1]],
  [pos |-> "joinon",  q |-> [BaseQ EXCEPT !.from = [k |-> "join", type |-> "inner", kw |-> "", l |-> Table(<<"t">>, "x"), r |-> Table(<<"u">>, "y"),
                                on |-> AndE(CmpE("<=", ColP(<<"x", "a">>), ColP(<<"y", "c">>)), Fn("boomt", <<LN(1)>>))]]],
  [pos |-> "leftjoinon", q |-> [BaseQ EXCEPT !.from = [k |-> "join", type |-> "left", kw |-> "", l |-> Table(<<"t">>, "x"), r |-> Table(<<"u">>, "y"),
                                on |-> AndE(Fn("boomt", <<LN(1)>>), CmpE(">", ColP(<<"x", "a">>), ColP(<<"y", "c">>)))]]],
  \* the statement that owns the failing FROM (a CTE body, a derived table, a join condition) carries a window of its own
  [pos |-> "ctelimit", q |-> [SelQ(<<Star>>, Table(<<"c">>, ""), None) EXCEPT !.with = <<[name |-> "c", q |-> SelQ(<<I(Boom(A), "a")>>, T, None)]>>, !.limit = 5]],
  [pos |-> "derivedlimit", q |-> [SelQ(<<I(ColP(<<"x", "a">>), "")>>, Derived(SelQ(<<I(Boom(A), "a")>>, T, None), "x"), None) EXCEPT !.limit = 1, !.offset = 1]],
  [pos |-> "joinonlimit",  q |-> [BaseQ EXCEPT !.limit = 9, !.from = [k |-> "join", type |-> "inner", kw |-> "", l |-> Table(<<"t">>, "x"), r |-> Table(<<"u">>, "y"),
                                on |-> AndE(CmpE("<=", ColP(<<"x", "a">>), ColP(<<"y", "c">>)), Fn("boomt", <<LN(1)>>))]]],
  [pos |-> "derivedorder", q |-> [SelQ(<<I(ColP(<<"x", "a">>), "")>>, Derived(SelQ(<<I(Boom(A), "a")>>, T, None), "x"), None) EXCEPT !.order = <<[key |-> <<"a">>, asc |-> FALSE]>>, !.limit = 2]],
  \* failures the query raises by itself on some row
  [pos |-> "raise_when", q |-> SelQ(<<I(A, ""), I(Fn("raise_when", <<CmpE(">", A, LN(3)), LS(<<98, 97, 100>>)>>), "")>>, T, None)],
  [pos |-> "raise_where", q |-> SelQ(<<I(A, ""), I(Fn("raise", <<LS(<<98, 97, 100>>)>>), "r")>>, T, CmpE(">", A, LN(3)))],
  [pos |-> "type_select", q |-> SelQ(<<I(Bin("+", A, Col("s")), "v")>>, T, CmpE(">", A, LN(3)))],
  \* ... inside an operand of a comparison: an integer division by zero (a panic inside the engine), a type error
  [pos |-> "panic_cmp",   q |-> SelQ(<<I(A, "")>>, T, CmpE("=", Bin("div", A, Bin("-", A, LN(3))), LN(1)))],
  [pos |-> "type_cmp",    q |-> SelQ(<<I(A, "")>>, T, CmpE(">", Bin("+", A, Col("s")), LN(1)))],
  [pos |-> "raise_cmp",   q |-> SelQ(<<I(A, "")>>, T, CmpE(">", Fn("if", <<CmpE(">", A, LN(3)), Fn("raise", <<LS(<<98>>)>>), A>>), LN(0)))],
  [pos |-> "type_where",  q |-> SelQ(<<I(A, "")>>, T, NotE(A))],
  [pos |-> "type_cte",    q |-> [SelQ(<<Star>>, Table(<<"c">>, ""), None) EXCEPT !.with = <<[name |-> "c", q |-> SelQ(<<I(Bin("*", Col("s"), LN(2)), "v")>>, T, CmpE(">", A, LN(3)))]>>]],
  [pos |-> "type_sub",    q |-> SelQ(<<I(A, ""), I(Sub(NQ(<<I(Un("-", LS(<<120>>)), "p")>>, None)), "s")>>, T, None)] }

Init == /\ \E d \in Docs : \E sh \in Shapes : cs = [fam |-> sh.pos, q |-> sh.q, doc |-> d]
        /\ EngineInit
Next == EngineNext
Spec == Init /\ [][Next]_vars

\* a failure surfaces as an error with no rows at all
NoPartial == (Done /\ IsErr(res)) => work = <<>>
\* the self-raising shapes fail exactly when some row triggers them
RaiseLaw == (Done /\ cs.fam = "raise_when") => (IsErr(res) <=> \E i \in DOMAIN cs.doc.f["t"].e : cs.doc.f["t"].e[i].f["a"] = NumV(4))

Export == Done => PrintT(ToJson([q |-> cs.q, doc |-> cs.doc, fam |-> cs.fam, hist |-> hist, res |-> res]))
=============================================================================
