------------------------------- MODULE MC_C20 -------------------------------
(* C20 - SETVAR / GETVAR are per-key registers in evaluation order; the       *)
(* caller's map holds the last written values and later queries observe them. *)
EXTENDS Vars, Json

CONSTANTS MaxItems, MaxRows, Second     \* Second: histories of two queries

KeysK == {"k1", "k2"}
\* (the string '1' prints like the number 1 of the first row: a register holds what was written last, not what it resembles)
ValE  == {[k |-> "col", c |-> "a"], [k |-> "lit", v |-> NumV(5)], [k |-> "lit", v |-> StrV(<<49>>)]} \cup {[k |-> "addvar", key |-> x, c |-> "a"] : x \in KeysK}
Items == {[k |-> "set", key |-> x, v |-> e] : x \in KeysK, e \in ValE} \cup
         {[k |-> "get", key |-> "k1", as |-> "g"], [k |-> "get", key |-> "k2", as |-> "h"], [k |-> "col", c |-> "a"],
          \* GETVAR as the argument of an ordinary function whose arguments name no column: IF(TRUE, GETVAR(k), 0) is GETVAR(k)
          [k |-> "get", key |-> "k1", as |-> "w", wrap |-> TRUE]}
Lists == UNION {[1..n -> Items] : n \in 1..MaxItems}
RowsA == {ObjV([a |-> NumV(i)]) : i \in 1..2}
Tables == UNION {[1..n -> RowsA] : n \in 0..MaxRows}
\* second queries: read both registers, accumulate once more
Lists2 == {<<[k |-> "get", key |-> "k1", as |-> "g"], [k |-> "get", key |-> "k2", as |-> "h"]>>,
           <<[k |-> "set", key |-> "k1", v |-> [k |-> "addvar", key |-> "k1", c |-> "a"]], [k |-> "get", key |-> "k1", as |-> "g"]>>,
           <<[k |-> "get", key |-> "k2", as |-> "h"], [k |-> "set", key |-> "k2", v |-> [k |-> "col", c |-> "a"]], [k |-> "get", key |-> "k2", as |-> "g"]>>}
Inits == {<<>>, [x \in {"k1"} |-> NumV(10)]}     \* <<>> : the empty map

\* (a register holding a string is never fed into GETVAR(k) + a: that is a type error, which belongs to C19)
HasStr(sl) == \E i \in DOMAIN sl : sl[i].k = "set" /\ sl[i].v.k = "lit" /\ sl[i].v.v.t = "str"
HasAdd(sl) == \E i \in DOMAIN sl : sl[i].k = "set" /\ sl[i].v.k = "addvar"
Init ==
    \E sl \in {x \in Lists : ~(HasStr(x) /\ HasAdd(x))} : \E t \in Tables : \E v0 \in Inits :
        \/ \E lm \in {-1, 1} : VarsInit(<<[sel |-> sl, tbl |-> t, lim |-> lm]>>, v0)
        \/ /\ Second
           /\ \E sl2 \in {x \in Lists2 : ~(HasStr(sl) /\ HasAdd(x))} : \E t2 \in {tt \in Tables : Len(tt) = 1} :
                 VarsInit(<<[sel |-> sl, tbl |-> t, lim |-> -1], [sel |-> sl2, tbl |-> t2, lim |-> -1]>>, v0)
Next == VarsNext
Spec == Init /\ [][Next]_vvars

\* ---- export: items as expression ASTs the harness renders
KeyLit(k) == [k |-> "lit", v |-> StrV(IF k = "k1" THEN <<107, 49>> ELSE <<107, 50>>)]
GetAst(k) == [k |-> "fn", f |-> "getvar", args |-> <<KeyLit(k)>>]
ValAst(v) == CASE v.k = "col" -> [k |-> "col", p |-> <<v.c>>]
               [] v.k = "lit" -> v
               [] OTHER -> [k |-> "bin", op |-> "+", l |-> GetAst(v.key), r |-> [k |-> "col", p |-> <<v.c>>]]
ItemAst(it) == CASE it.k = "set" -> [k |-> "item", as |-> "", e |-> [k |-> "fn", f |-> "setvar", args |-> <<KeyLit(it.key), ValAst(it.v)>>]]
                 [] it.k = "get" -> [k |-> "item", as |-> it.as,
                                     e |-> IF "wrap" \in DOMAIN it
                                           THEN [k |-> "fn", f |-> "if", args |-> <<[k |-> "lit", v |-> BoolV(TRUE)], GetAst(it.key), [k |-> "lit", v |-> NumV(0)]>>]
                                           ELSE GetAst(it.key)]
                 [] OTHER -> [k |-> "item", as |-> "", e |-> [k |-> "col", p |-> <<it.c>>]]
MapV(m) == ObjV(m)
Export ==
    VarsDone => PrintT(ToJson([prog |-> [i \in DOMAIN prog |-> [sel |-> [j \in DOMAIN prog[i].sel |-> ItemAst(prog[i].sel[j])],
                                                               tbl |-> ArrV(prog[i].tbl), lim |-> prog[i].lim]],
                               vars0 |-> MapV(vars0),
                               results |-> [i \in DOMAIN results |-> [rows |-> ArrV(results[i].rows), vars |-> MapV(results[i].vars)]],
                               ncalls |-> Len(calls)]))
=============================================================================
