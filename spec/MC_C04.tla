------------------------------- MODULE MC_C04 -------------------------------
(* C04 - INNER / LEFT / RIGHT joins of two aliased arrays return the textbook  *)
(* multiset for every strategy.  One case per (tables, ON, type); the harness   *)
(* runs every spelling of the strategy (automatic, HASH_JOIN, STRAIGHT_JOIN,    *)
(* PARALLEL variants) against the same expectation.                             *)
EXTENDS Joins, Gen

CONSTANTS MaxRows, Wide, FewOns,
          Big,      \* numeric keys 2^24 and 2^24 + 1 (neighbours that a float32 cannot tell apart) instead of 1 and 2
          Many      \* two fixed pairs of long tables (37 / 40 distinct keys against 35 / 33, partly overlapping, with duplicates):
                    \* more key groups than any fixed number of workers, shares or slots

\* two join columns per side whose names sort differently on the two sides (x.a, x.z / y.m, y.b);
\* numbers and strings; with Wide a string key containing the separator of the key text
SVals == IF Wide THEN {StrV(<<112>>), StrV(<<113>>), StrV(<<112, 45>>), StrV(<<45, 113>>)} ELSE {StrV(<<112>>), StrV(<<113>>)}
NKeys == IF Big THEN {16777216, 16777217} ELSE {1, 2}
LRows == {Row([a |-> NumV(i), z |-> s]) : i \in NKeys, s \in SVals}
RRows == {Row([m |-> NumV(i), b |-> s]) : i \in NKeys, s \in SVals}
ManyL(n) == [i \in 1..n |-> Row([a |-> NumV(i), z |-> StrV(IF i % 2 = 0 THEN <<112>> ELSE <<113>>)])]
ManyR(n) == [i \in 1..n |-> Row([m |-> NumV(IF i > 30 THEN i - 30 ELSE i + 5), b |-> StrV(IF i % 3 = 0 THEN <<112>> ELSE <<113>>)])]
Ls == IF Many THEN {ManyL(37), ManyL(40)} ELSE SeqsUpTo(LRows, MaxRows)
Rs == IF Many THEN {ManyR(35), ManyR(33)} ELSE SeqsUpTo(RRows, MaxRows)

XA == ColP(<<"x", "a">>)
XZ == ColP(<<"x", "z">>)
YM == ColP(<<"y", "m">>)
YB == ColP(<<"y", "b">>)
Or2(op, l, r, flip) == IF flip THEN CmpE(op, r, l) ELSE CmpE(op, l, r)
Num1 == {Or2(op, XA, YM, f) : op \in CmpOps, f \in BOOLEAN}
Str1 == {Or2(op, XZ, YB, f) : op \in {"=", "!=", "<"}, f \in BOOLEAN}
Two  == {AndE(p, q) : p \in {CmpE("=", XA, YM), CmpE("=", YM, XA), CmpE("<=", XA, YM), CmpE("!=", XA, YM)}, q \in Str1} \cup
        {AndE(q, p) : p \in {CmpE("=", XA, YM), CmpE(">", XA, YM)}, q \in {CmpE("=", XZ, YB), CmpE("=", YB, XZ)}} \cup
        {OrE(p, q) : p \in {CmpE("=", XA, YM), CmpE("<", YM, XA)}, q \in {CmpE("=", XZ, YB), CmpE("!=", YB, XZ)}} \cup
        \* one column compared twice
        {AndE(CmpE("=", XA, YM), CmpE(op, XA, YM)) : op \in {"=", "<="}}
Core == {CmpE("=", XA, YM), CmpE("<", YM, XA), CmpE("!=", XZ, YB),
         AndE(CmpE("=", XA, YM), CmpE("=", YB, XZ)), AndE(CmpE("=", XZ, YB), CmpE(">", XA, YM)),
         OrE(CmpE("=", XA, YM), CmpE("=", XZ, YB)), AndE(CmpE("=", XA, YM), CmpE("<=", XA, YM))}
Ons == IF FewOns THEN Core ELSE Num1 \cup Str1 \cup Two

JoinFrom(type, on) == [k |-> "join", type |-> type, kw |-> "", l |-> Table(<<"l">>, "x"), r |-> Table(<<"r">>, "y"), on |-> on]

Init == /\ \E l \in Ls : \E r \in Rs : \E on \in Ons : \E ty \in {"inner", "left", "right"} :
              cs = [fam |-> ty, q |-> [BaseQ EXCEPT !.from = JoinFrom(ty, on)],
                    doc |-> ObjV([x \in {"l", "r"} |-> IF x = "l" THEN ArrV(l) ELSE ArrV(r)])]
        /\ EngineInit
Next == EngineNext
Spec == Init /\ [][Next]_vars

---------------------------------------------------------------------------
F_  == cs.q.from
LS_ == Source(F_.l, cs.doc).e
RS_ == Source(F_.r, cs.doc).e
Textbook == JoinRows(F_, cs.doc)

Total == Done => ~IsErr(res)
\* every strategy the engine may run computes the textbook multiset
Strategies == {"auto", "hash", "parallel"} \cup (IF F_.type = "inner" THEN {"straight"} ELSE {})
StrategiesAgree ==
    Done => \A s \in Strategies :
               LET m == JoinModel(F_, LS_, RS_, s, cs.doc)
               IN  ~IsErr(m) /\ BagEq(m.e, Textbook.e)
\* LEFT keeps every left row at least once, RIGHT every right row; INNER is their common part
OuterLaw ==
    Ok => /\ (F_.type = "left"  => \A i \in DOMAIN LS_ : \E j \in DOMAIN res.e : res.e[j].f["x"] = LS_[i].f["x"])
          /\ (F_.type = "right" => \A i \in DOMAIN RS_ : \E j \in DOMAIN res.e : res.e[j].f["y"] = RS_[i].f["y"])
          /\ Len(res.e) >= Len(JoinRows([F_ EXCEPT !.type = "inner"], cs.doc).e)

Export == Done => PrintT(ToJson([q |-> cs.q, doc |-> cs.doc, fam |-> cs.fam, res |-> res,
                                 equi |-> EquiConj(F_.on)]))
=============================================================================
