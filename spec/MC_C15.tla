------------------------------- MODULE MC_C15 -------------------------------
(* C15 - the comparison used by WHERE / ORDER BY / IN / joins is a coherent    *)
(* order over every Go numeric kind x boundary value and strings.  Every      *)
(* ordered pair of the domain is one behaviour: Init picks (a, b), Compare    *)
(* computes CodeCmp.  The laws are invariants (triples by quantifying over    *)
(* the third value); every pair is exported and compare.Compare is called     *)
(* on the real Go values.                                                     *)
EXTENDS GoNum, Json

CONSTANT KindSet        \* the Go kinds in this run

VARIABLES a, b, r, pc
vars == <<a, b, r, pc>>

Nums == {NumG(k, i) : k \in KindSet, i \in 1..NP} 
NumVals == {v \in Nums : Repr(v.kind, v.p)}
\* "", "1", "1.5", "10", "9", "-1", "a", "1e", "128", "-", "1.50", and the two %v texts of 2147483647 (as an integer
\* kind and as a float kind): a number compares with a string by the text of ITS OWN kind
StrVals == {StrG(c) : c \in {<<>>, <<49>>, <<49, 46, 53>>, <<49, 48>>, <<57>>, <<45, 49>>, <<97>>, <<49, 101>>,
                             <<49, 50, 56>>, <<45>>, <<49, 46, 53, 48>>,
                             Points[Idx("2147483647")].itxt, Points[Idx("2147483647")].ftxt}}
Vals == NumVals \cup StrVals

Init == a \in Vals /\ b \in Vals /\ r = 2 /\ pc = "start"
Compare == pc = "start" /\ r' = CodeCmp(a, b) /\ pc' = "done" /\ UNCHANGED <<a, b>>
Next == Compare
Spec == Init /\ [][Next]_vars

Done == pc = "done"
RangeOK   == Done => r \in {-1, 0, 1}
AsStated  == Done => r = IdealCmp(a, b)
Reflexive == Done => CodeCmp(a, a) = 0
AntiSym   == Done => r = -CodeCmp(b, a)
SameKind(x, y) == IsG(x) = IsG(y)
Transitive ==
    (Done /\ SameKind(a, b) /\ r <= 0) =>
        \A c \in Vals : (SameKind(b, c) /\ CodeCmp(b, c) <= 0) => CodeCmp(a, c) <= 0
\* equal numbers are interchangeable: cmp(a, c) = cmp(b, c) for every c of the same kind class
Congruent ==
    (Done /\ SameKind(a, b) /\ r = 0) => \A c \in Vals : SameKind(a, c) => CodeCmp(a, c) = CodeCmp(b, c)
\* the text a number is compared by is that of its kind: an integer kind meets its plain digits, a float kind its %v form
OwnText == (Done /\ IsG(a)) =>
              /\ CodeCmp(a, StrG(GText(a))) = 0
              /\ (~IsG(b) /\ b.c # GText(a)) => r # 0
\* the examples of the statement
Examples ==
    /\ CodeCmp(NumG("int", Idx("1")), NumG("float64", Idx("1.5"))) = -1
    /\ CodeCmp(NumG("float64", Idx("1")), NumG("float64", Idx("1.5"))) = -1
    /\ CodeCmp(NumG("int", Idx("-1")), NumG("uint", Idx("1"))) = -1
    /\ CodeCmp(NumG("uint", Idx("1")), NumG("int", Idx("-1"))) = 1

Enc(v) == IF IsG(v) THEN [t |-> "gnum", kind |-> v.kind, dec |-> Points[v.p].dec, txt |-> GText(v)] ELSE v
Export == Done => PrintT(ToJson([a |-> Enc(a), b |-> Enc(b), want |-> r]))
=============================================================================
