------------------------------- MODULE Async -------------------------------
(***************************************************************************)
(* Function execution strategies (property C14).  The main goroutine        *)
(* evaluates the select list row by row; a call qualified ASYNC, SPINASYNC   *)
(* or SPIN is handed to a goroutine of its own, ONCE is evaluated for the    *)
(* first row and remembered, an unqualified call runs in place.  Exec        *)
(* returns after the wait group has drained and the post-processors have     *)
(* replaced every async slot by its value.                                   *)
(*                                                                         *)
(*   Items    the select list: a sequence of kinds                          *)
(*            "col" | "sync" | "async" | "spinasync" | "spin" | "once"       *)
(*            | "oncenull" (a ONCE function whose result is NULL)           *)
(*            | "fail" (an unqualified call that returns an error for row     *)
(*              FailRow and behaves like "sync" for every other row)          *)
(*   call     <<row, item>>;  its value is Val(row)                          *)
(*   st       call -> "none" | "spawned" | "running" | "done"                *)
(*   wg       the query's wait group counter                                 *)
(*   cell     row -> item -> Absent | Slot | a value: what the output    *)
(*            row holds for that item                                        *)
(*   inv      call -> number of invocations of the function                  *)
(*   once     NoOnce or the remembered ONCE value                            *)
(*   sched    history: the schedule so far (exported for replay)             *)
(* Dev_AddInGoroutine: the wait group is incremented by the goroutine        *)
(* itself instead of by the spawner (the classic misuse) - a deviation the   *)
(* model must reject.                                                        *)
(* A failing row ends the row loop: the items left of the failing call have   *)
(* been evaluated (their goroutines exist), the items right of it and the     *)
(* later rows have not.  Exec then returns the error - after the wait group   *)
(* has drained, so that no ASYNC / SPINASYNC call outlives the query          *)
(* (Dev_NoWaitOnError: it returns at once, the pinned behaviour).             *)
(***************************************************************************)
EXTENDS Integers, Sequences, FiniteSets, TLC

\* cell / once markers (integers, so that cells compare with values)
Absent == -1
Slot == -2
Unresolved == -3
NoOnce == -1

CONSTANTS NRows, Items, Dev_AddInGoroutine,
          Nested,        \* the select list belongs to a nested query (derived table, CTE body, subquery): its wait group is
                         \* chained to the outer query's by a goroutine that waits for it and then releases the outer one
          Dev_NoChain,   \* deviation: the outer query does not wait for the nested query's wait group
          FailRow,       \* 0, or the row for which the "fail" item returns an error
          Dev_NoWaitOnError, \* deviation: a failed Exec returns without waiting for the calls it has started
          EmptyWindow,   \* LIMIT 0 / an OFFSET past the last row: the select list is still evaluated for every row (the
                         \* window is cut afterwards), no row reaches the output - and Exec still waits for every call
          Dev_NoWaitWhenEmpty \* deviation: Exec returns at once when the output is empty

VARIABLES pc, next, st, wg, cell, inv, once, sched,
          owg            \* the outer query's wait group (1 while the chain goroutine is waiting; unused when ~Nested)
avars == <<pc, next, st, wg, cell, inv, once, sched, owg>>

Rows  == 1..NRows
Its   == DOMAIN Items
\* ("oncearg": a ONCE call whose argument expression has a value on the first row only - the arguments of a ONCE call
\* are read for its one invocation, not for the rows that merely see the remembered value)
IsOnce(k) == k \in {"once", "oncenull", "oncearg"}
NullVal == -4
Calls == {<<r, i>> : r \in Rows, i \in {j \in Its : Items[j] \in {"sync", "fail", "async", "spinasync", "spin", "once", "oncenull", "oncearg"}}}
Kind(c) == Items[c[2]]
Val(r) == r * 10
Bg(c)  == Kind(c) \in {"async", "spinasync", "spin"}          \* runs in a goroutine
Counted(c) == Kind(c) \in {"async", "spinasync"}              \* Exec waits for it

AInit ==
    /\ pc = "rows" /\ next = 1 /\ wg = 0 /\ once = NoOnce /\ sched = <<>>
    /\ owg = IF Nested /\ ~Dev_NoChain THEN 1 ELSE 0
    /\ st = [c \in Calls |-> "none"] /\ inv = [c \in Calls |-> 0]
    /\ cell = [r \in Rows |-> [i \in Its |-> Absent]]

\* the main goroutine evaluates every item of row `next`, left to right, in one step; the first
\* ONCE call of the query runs, later ones reuse what it returned - NULL included
OnceVal(r) == IF \E i \in Its : Items[i] = "oncenull" THEN NullVal ELSE Val(r)
\* the items of row r the main goroutine gets to: all of them, or those up to the failing call
Fails(r) == FailRow # 0 /\ r = FailRow /\ \E i \in Its : Items[i] = "fail"
FailAt == CHOOSE i \in Its : Items[i] = "fail" /\ \A j \in Its : Items[j] = "fail" => i <= j
Reached(r, i) == ~Fails(r) \/ i <= FailAt
MainRow ==
    /\ pc = "rows" /\ next <= NRows
    /\ LET r == next
           onceHere == \E i \in Its : IsOnce(Items[i]) /\ Reached(r, i)
           onceNow == IF onceHere THEN (IF once = NoOnce THEN OnceVal(r) ELSE once) ELSE once
           Ev(c) == c[1] = r /\ Reached(r, c[2])
       IN  /\ st' = [c \in Calls |-> IF Ev(c) THEN (IF Bg(c) THEN "spawned" ELSE IF IsOnce(Kind(c)) /\ once # NoOnce THEN "none" ELSE "done") ELSE st[c]]
           /\ inv' = [c \in Calls |-> IF Ev(c) /\ (Kind(c) \in {"sync", "fail"} \/ (IsOnce(Kind(c)) /\ once = NoOnce)) THEN inv[c] + 1 ELSE inv[c]]
           /\ wg' = IF Dev_AddInGoroutine THEN wg ELSE wg + Cardinality({c \in Calls : Ev(c) /\ Counted(c)})
           /\ once' = onceNow
           /\ cell' = IF Fails(r) THEN cell     \* the row never reaches the output
                      ELSE [cell EXCEPT ![r] = [i \in Its |->
                          CASE Items[i] = "col"   -> Val(r)
                            [] Items[i] \in {"sync", "fail"} -> Val(r)
                            [] Items[i] = "async" -> Slot
                            [] IsOnce(Items[i])   -> onceNow
                            [] OTHER -> Absent]]
           /\ sched' = Append(sched, [ev |-> "row", r |-> r])
           /\ pc' = IF Fails(r) THEN "failed" ELSE pc
    /\ next' = next + 1
    /\ UNCHANGED owg

RowsDone == pc = "rows" /\ next > NRows /\ pc' = "wait" /\ UNCHANGED <<next, st, wg, cell, inv, once, sched, owg>>

\* the chain goroutine: the nested query's wait group has drained, the outer one is released
ChainDone == Nested /\ owg = 1 /\ pc = "wait" /\ wg = 0 /\ owg' = 0 /\ UNCHANGED <<pc, next, st, wg, cell, inv, once, sched>>

FnStart(c) ==
    /\ st[c] = "spawned"
    /\ st' = [st EXCEPT ![c] = "running"] /\ inv' = [inv EXCEPT ![c] = inv[c] + 1]
    /\ wg' = IF Dev_AddInGoroutine /\ Counted(c) THEN wg + 1 ELSE wg
    /\ sched' = Append(sched, [ev |-> "start", r |-> c[1], i |-> c[2]])
    /\ UNCHANGED <<pc, next, cell, once, owg>>

FnFinish(c) ==
    /\ st[c] = "running"
    /\ st' = [st EXCEPT ![c] = "done"]
    /\ wg' = IF Counted(c) THEN wg - 1 ELSE wg
    /\ sched' = Append(sched, [ev |-> "finish", r |-> c[1], i |-> c[2]])
    /\ UNCHANGED <<pc, next, cell, inv, once, owg>>

\* wg.Wait() returns, the post-processors put the values into the async columns, Exec returns
Return ==
    /\ \/ pc = "wait" /\ ((IF Nested THEN owg = 0 ELSE wg = 0) \/ (EmptyWindow /\ Dev_NoWaitWhenEmpty))
       \/ pc = "failed" /\ (Dev_NoWaitOnError \/ wg = 0)
    /\ cell' = [r \in Rows |-> [i \in Its |->
                  IF cell[r][i] = Slot THEN (IF st[<<r, i>>] = "done" THEN Val(r) ELSE Unresolved) ELSE cell[r][i]]]
    /\ pc' = (IF pc = "failed" THEN "doneErr" ELSE "done") /\ sched' = Append(sched, [ev |-> "return"])
    /\ UNCHANGED <<next, st, wg, inv, once, owg>>

ANext == MainRow \/ RowsDone \/ ChainDone \/ (\E c \in Calls : FnStart(c) \/ FnFinish(c)) \/ Return
ASpec == AInit /\ [][ANext]_avars /\ WF_avars(ANext)

---------------------------------------------------------------------------
ATypeOK == pc \in {"rows", "wait", "failed", "done", "doneErr"} /\ wg >= 0
Returned == pc \in {"done", "doneErr"}
Succeeded == pc = "done"
\* once Exec has returned: every ASYNC and SPINASYNC call has been invoked exactly once and completed
\* (after a failure: every call the query got to - none is left spawned or running)
AllCompleted ==
    /\ Succeeded => \A c \in Calls : Counted(c) => st[c] = "done" /\ inv[c] = 1
    /\ pc = "doneErr" => \A c \in Calls : Counted(c) => st[c] \in {"none", "done"} /\ inv[c] = (IF st[c] = "done" THEN 1 ELSE 0)
\* ... its value sits in that row's column, equal to the unqualified call's value; SPIN / SPINASYNC add no column
ValuesInPlace ==
    Succeeded /\ ~EmptyWindow => \A r \in Rows : \A i \in Its :
        CASE Items[i] \in {"async", "sync", "col"} -> cell[r][i] = Val(r)
          [] Items[i] \in {"spin", "spinasync"}  -> cell[r][i] = Absent
          [] OTHER -> TRUE
\* ONCE: a single invocation per query, every row sees that value
OnceLaw ==
    Succeeded => \A i \in Its : IsOnce(Items[i]) =>
        /\ Cardinality({c \in Calls : c[2] = i /\ inv[c] = 1}) = (IF \A j \in 1..(i - 1) : ~IsOnce(Items[j]) THEN 1 ELSE 0)
        /\ ~EmptyWindow => \A r \in Rows : cell[r][i] = OnceVal(1)
\* nothing is invoked twice, ever
AtMostOnce == \A c \in Calls : inv[c] <= 1
Terminates == <>Returned
\* a SPIN call may still be running when Exec returns - that is allowed
Export == Returned => PrintT(sched)
=============================================================================
