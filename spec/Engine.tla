------------------------------- MODULE Engine -------------------------------
(***************************************************************************)
(* The query engine as a state machine, one action per code region of       *)
(* New (BuildCte, BuildFrom / BuildUnion) and exec (WHERE loop, ExecGroupBy, *)
(* ExecSelect, ExecDistinct, ExecOrderBy, the OFFSET/LIMIT window, return).  *)
(* The same stage names are emitted by the verifStage hook in /repo, so a    *)
(* recorded execution is a behaviour of this machine (EngineTrace.tla).      *)
(*                                                                         *)
(*   cs    the case: [q |-> query, doc |-> caller's document]               *)
(*   pc    control point                                                     *)
(*   data  the document the query runs on (doc plus materialised CTEs)       *)
(*   work  the rows between two stages                                       *)
(*   res   None until returned; then ArrV(rows) or Err                       *)
(*   hist  history variable: <<[st, rows]>> per stage taken (export only;    *)
(*         excluded from the VIEW)                                           *)
(***************************************************************************)
EXTENDS Genql, Json

VARIABLES cs, pc, data, work, res, hist
vars == <<cs, pc, data, work, res, hist>>
View == <<cs, pc, data, work, res>>

CONSTANT NondetOrder      \* TRUE: ExecOrder may return any sequence OrderOK allows

EngineInit ==
    /\ pc = "new" /\ data = Null /\ work = <<>> /\ res = None /\ hist = <<>>

Q == cs.q

Fail(site) ==
    /\ pc' = "done" /\ res' = Err /\ work' = <<>>
    /\ hist' = Append(hist, [st |-> site, rows |-> <<>>, err |-> TRUE])
    /\ UNCHANGED <<cs, data>>

Advance(next, site, v) ==
    IF IsErr(v) THEN Fail(site)
    ELSE /\ pc' = next /\ work' = v.e
         /\ hist' = Append(hist, [st |-> site, rows |-> v.e, err |-> FALSE])
         /\ UNCHANGED <<cs, data, res>>

BuildCte ==
    /\ pc = "new" /\ Q.k = "select"
    /\ LET d == BindCtes(Q.with, cs.doc)
       IN  IF IsErr(d) THEN Fail("cte")
           ELSE /\ data' = d /\ pc' = "bound"
                /\ UNCHANGED <<cs, work, res, hist>>

\* FROM dual: exec has a branch of its own - the select list on the document as the one row, nothing else
ExecDual ==
    /\ pc = "bound" /\ Q.from.k = "dual"
    /\ LET r == Project(Q, data, NoMarker(cs.doc))
       IN  IF IsErr(r) THEN Fail("dual")
           ELSE /\ pc' = "windowed" /\ work' = <<r>>
                /\ hist' = Append(hist, [st |-> "dual", rows |-> <<r>>, err |-> FALSE])
                /\ UNCHANGED <<cs, data, res>>

BuildFrom ==
    /\ pc = "bound" /\ Q.from.k # "dual"
    /\ LET s == Source(Q.from, data)
       IN  IF IsErr(s) THEN Fail("from")
           ELSE /\ pc' = "built" /\ work' = s.e
                /\ hist' = Append(hist, [st |-> "from", rows |-> s.e, err |-> FALSE])
                /\ UNCHANGED <<cs, data, res>>

\* New evaluates both branches of a UNION eagerly; what is left for exec is the window
BuildUnion ==
    /\ pc = "new" /\ Q.k = "union"
    /\ LET v == RunQ(Q, cs.doc)
       IN  IF IsErr(v) THEN Fail("union")
           ELSE /\ pc' = "windowed" /\ work' = v.e /\ data' = cs.doc
                /\ hist' = Append(hist, [st |-> "union", rows |-> v.e, err |-> FALSE])
                /\ UNCHANGED <<cs, res>>

ExecWhere    == pc = "built"    /\ Advance("filtered", "where",    StWhere(Q, data, work))
ExecGroupBy  == pc = "filtered" /\ Advance("grouped",  "group",    StGroup(Q, data, work))
ExecSelect   == pc = "grouped"  /\ Advance("selected", "select",   StSelect(Q, data, work))
ExecDistinct == pc = "selected" /\ Advance("distinct", "distinct", StDistinct(Q, work))

RECURSIVE PermSeqs(_)
PermSeqs(s) == IF s = <<>> THEN {<<>>}
               ELSE UNION {{<<s[i]>> \o t : t \in PermSeqs(SubSeq(s, 1, i - 1) \o SubSeq(s, i + 1, Len(s)))} : i \in DOMAIN s}

OrderChoices(rows, keys) ==
    IF keys = <<>> THEN {rows}
    ELSE IF NondetOrder THEN {o \in PermSeqs(rows) : OrderOK(rows, o, keys)}
    ELSE {SortStable(rows, keys)}

ExecOrderBy ==
    /\ pc = "distinct"
    /\ \E o \in OrderChoices(work, Q.order) : Advance("ordered", "order", ArrV(o))

ExecWindow == pc = "ordered" /\ Advance("windowed", "window", StWindow(Q, work))

Return ==
    /\ pc = "windowed"
    /\ pc' = "done" /\ res' = ArrV(work)
    /\ hist' = Append(hist, [st |-> "ret", rows |-> work, err |-> FALSE])
    /\ UNCHANGED <<cs, data, work>>

EngineNext ==
    \/ BuildCte \/ BuildFrom \/ BuildUnion \/ ExecDual
    \/ ExecWhere \/ ExecGroupBy \/ ExecSelect \/ ExecDistinct \/ ExecOrderBy \/ ExecWindow
    \/ Return

---------------------------------------------------------------------------
\* properties of the machine itself

TypeOK == pc \in {"new", "bound", "built", "filtered", "grouped", "selected",
                  "distinct", "ordered", "windowed", "done"}

Done == pc = "done"
Ok   == Done /\ ~IsErr(res)

\* one semantics, two presentations: the stepwise pipeline agrees with RunQ
\* (exactly when ORDER BY is canonical; up to what ORDER BY leaves open otherwise)
StepwiseIsRunQ ==
    Done => LET r == TopRun(cs.q, cs.doc)
            IN  IF IsErr(res) THEN IsErr(r)
                ELSE IF NondetOrder THEN ~IsErr(r) /\ Len(r.e) = Len(res.e)
                ELSE r = res

\* the caller's document is not a variable any action writes (C11 at model level)
DocUnchanged == [][cs' = cs]_vars

Stage(name) == LET idx == {i \in DOMAIN hist : hist[i].st = name}
               IN  IF idx = {} THEN <<>> ELSE hist[CHOOSE i \in idx : TRUE].rows
HasStage(name) == \E i \in DOMAIN hist : hist[i].st = name
=============================================================================
