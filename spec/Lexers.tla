------------------------------- MODULE Lexers -------------------------------
(***************************************************************************)
(* Character-level scanners (kind K3): texts are sequences of code points.   *)
(*  (a) the sanitizer: its lexer (SanLex: raw / single-quoted / double-      *)
(*      quoted / back-quoted / E'' / placeholder / line comment / nested      *)
(*      block comment states, as coded) and the formatting of arguments       *)
(*      (QuoteString doubles quotes and backslashes);                         *)
(*  (b) the MySQL-dialect tokenizer of the library's parser, as far as        *)
(*      strings, quoted identifiers and comments go (MyTokens): backslash      *)
(*      decoding as in scanStringSlow, doubled delimiters, -- / # / block      *)
(*      comments;                                                             *)
(*  (c) the option rewriters DoubleQuotesToBackTick and FixIdiomaticArray     *)
(*      as coded (property C17).                                              *)
(***************************************************************************)
EXTENDS Integers, Sequences, FiniteSets, TLC

SQ == 39   \* '
DQ == 34   \* "
BT == 96   \* `
BS == 92   \* \
NL == 10
IsDigitC(c) == c >= 48 /\ c <= 57
At(s, i) == IF i >= 1 /\ i <= Len(s) THEN s[i] ELSE -1          \* -1: end of text
Sub(s, a, b) == IF a > b THEN <<>> ELSE SubSeq(s, a, b)          \* positions a..b

---------------------------------------------------------------------------
\* (a) sanitizer

RECURSIVE Replace2(_, _)
\* doubles every quote and every backslash
Replace2(s, i) == IF i > Len(s) THEN <<>>
                  ELSE (IF s[i] = SQ THEN <<SQ, SQ>> ELSE IF s[i] = BS THEN <<BS, BS>> ELSE <<s[i]>>) \o Replace2(s, i + 1)
QuoteString(s) == <<SQ>> \o Replace2(s, 1) \o <<SQ>>

\* a part is [k |-> "text", c] or [k |-> "arg", n]
TextPart(c) == [k |-> "text", c |-> c]
ArgPart(n)  == [k |-> "arg", n |-> n]

\* SanLex: position p is the next unread code point (1-based), st the start of the pending text
RECURSIVE LexFrom(_, _, _, _, _, _, _)
LexFrom(src, p, st, state, nested, num, parts) ==
    LET c == At(src, p)
        n == At(src, p + 1)
        flush == IF p - st > 0 THEN Append(parts, TextPart(Sub(src, st, p - 1))) ELSE parts
    IN
    IF c = -1 THEN
        \* end of text: a pending placeholder is emitted, pending text is flushed
        IF state = "ph" THEN Append(parts, ArgPart(num)) ELSE flush
    ELSE CASE state = "raw" ->
                 IF (c = 101 \/ c = 69) /\ n = SQ THEN LexFrom(src, p + 2, st, "esc", nested, 0, parts)
                 ELSE IF c = SQ THEN LexFrom(src, p + 1, st, "sq", nested, 0, parts)
                 ELSE IF c = DQ THEN LexFrom(src, p + 1, st, "dq", nested, 0, parts)
                 ELSE IF c = BT THEN LexFrom(src, p + 1, st, "bt", nested, 0, parts)
                 ELSE IF c = 35 THEN LexFrom(src, p + 1, st, "lc", nested, 0, parts)
                 ELSE IF c = 36 /\ IsDigitC(n) THEN LexFrom(src, p + 1, p + 1, "ph", nested, 0, Append(parts, TextPart(Sub(src, st, p - 1))))
                 \* -- opens a comment only in front of a blank, a tab, a line end or the end of the text; // always does
                 ELSE IF c = 45 /\ n = 45 /\ At(src, p + 2) \in {32, 9, 10, 13, -1} THEN LexFrom(src, p + 2, st, "lc", nested, 0, parts)
                 ELSE IF c = 47 /\ n = 42 THEN LexFrom(src, p + 2, st, "bc", nested, 0, parts)
                 ELSE IF c = 47 /\ n = 47 THEN LexFrom(src, p + 2, st, "lc", nested, 0, parts)
                 ELSE LexFrom(src, p + 1, st, "raw", nested, 0, parts)
           [] state \in {"sq", "dq", "esc"} ->
                 LET q == IF state = "dq" THEN DQ ELSE SQ IN
                 IF c = BS THEN LexFrom(src, IF n = -1 THEN p + 1 ELSE p + 2, st, state, nested, 0, parts)
                 ELSE IF c = q THEN (IF n = q THEN LexFrom(src, p + 2, st, state, nested, 0, parts)
                                     ELSE LexFrom(src, p + 1, st, "raw", nested, 0, parts))
                 ELSE LexFrom(src, p + 1, st, state, nested, 0, parts)
           [] state = "bt" ->
                 IF c = BT THEN (IF n = BT THEN LexFrom(src, p + 2, st, "bt", nested, 0, parts)
                                 ELSE LexFrom(src, p + 1, st, "raw", nested, 0, parts))
                 ELSE LexFrom(src, p + 1, st, "bt", nested, 0, parts)
           [] state = "ph" ->
                 IF IsDigitC(c) THEN LexFrom(src, p + 1, st, "ph", nested, num * 10 + (c - 48), parts)
                 ELSE LexFrom(src, p, p, "raw", nested, 0, Append(parts, ArgPart(num)))
           [] state = "lc" ->   \* a line comment ends at the line feed and nowhere else
                 IF c = NL THEN LexFrom(src, p + 1, st, "raw", nested, 0, parts)
                 ELSE LexFrom(src, p + 1, st, "lc", nested, 0, parts)
           [] OTHER ->   \* block comment, nesting counted
                 IF c = 47 /\ n = 42 THEN LexFrom(src, p + 2, st, "bc", nested + 1, 0, parts)
                 ELSE IF c = 42 /\ n = 47 THEN (IF nested = 0 THEN LexFrom(src, p + 2, st, "raw", 0, 0, parts)
                                                ELSE LexFrom(src, p + 2, st, "bc", nested - 1, 0, parts))
                 ELSE LexFrom(src, p + 1, st, "bc", nested, 0, parts)
SanLex(src) == LexFrom(src, 1, 1, "raw", 0, 0, <<>>)

\* arguments: [t|->"s", c] strings, [t|->"lit", c] anything formatted without quoting (numbers, true, null)
FormatArg(a) == IF a.t = "s" THEN QuoteString(a.c) ELSE a.c

RECURSIVE Join(_, _, _)
Join(parts, args, i) ==
    IF i > Len(parts) THEN <<>>
    ELSE (IF parts[i].k = "text" THEN parts[i].c ELSE FormatArg(args[parts[i].n])) \o Join(parts, args, i + 1)

SanErr == <<-9>>      \* Sanitize reports an error
\* SanitizeSQL(template, args...): $0, a missing or an unused argument are errors
Sanitize(tpl, args) ==
    LET parts == SanLex(tpl)
        used  == {parts[i].n : i \in {j \in DOMAIN parts : parts[j].k = "arg"}}
    IN  IF \E n \in used : n < 1 \/ n > Len(args) THEN SanErr
        ELSE IF \E n \in 1..Len(args) : n \notin used THEN SanErr
        ELSE Join(parts, args, 1)

---------------------------------------------------------------------------
\* (b) the MySQL-dialect tokenizer: strings, quoted identifiers, comments; everything else one token per code point

Decoded(c) == CASE c = 48 -> 0 [] c = 98 -> 8 [] c = 110 -> 10 [] c = 114 -> 13 [] c = 116 -> 9 [] c = 90 -> 26 [] OTHER -> c

\* scan a string whose opening delimiter was at p-1; returns [ok, c (decoded content), p (next position)]
RECURSIVE MyString(_, _, _, _)
MyString(src, p, delim, acc) ==
    LET c == At(src, p) n == At(src, p + 1) IN
    IF c = -1 THEN [ok |-> FALSE, c |-> acc, p |-> p]
    ELSE IF c = BS THEN
        (IF n = -1 THEN [ok |-> FALSE, c |-> acc, p |-> p + 1]
         ELSE IF n = 37 \/ n = 95 THEN MyString(src, p + 2, delim, acc \o <<BS, n>>)     \* \% and \_ keep the backslash
         ELSE MyString(src, p + 2, delim, Append(acc, Decoded(n))))
    ELSE IF c = delim THEN (IF n = delim THEN MyString(src, p + 2, delim, Append(acc, delim))
                            ELSE [ok |-> TRUE, c |-> acc, p |-> p + 1])
    ELSE MyString(src, p + 1, delim, Append(acc, c))

RECURSIVE MyIdent(_, _, _)
MyIdent(src, p, acc) ==
    LET c == At(src, p) n == At(src, p + 1) IN
    IF c = -1 THEN [ok |-> FALSE, c |-> acc, p |-> p]
    ELSE IF c = BT THEN (IF n = BT THEN MyIdent(src, p + 2, Append(acc, BT)) ELSE [ok |-> TRUE, c |-> acc, p |-> p + 1])
    ELSE MyIdent(src, p + 1, Append(acc, c))

RECURSIVE SkipLine(_, _)
SkipLine(src, p) == IF At(src, p) = -1 THEN p ELSE IF At(src, p) = NL THEN p + 1 ELSE SkipLine(src, p + 1)
RECURSIVE SkipBlock(_, _)
SkipBlock(src, p) == IF At(src, p) = -1 THEN -1 ELSE IF At(src, p) = 42 /\ At(src, p + 1) = 47 THEN p + 2 ELSE SkipBlock(src, p + 1)
IsSpace(c) == c \in {32, 9, 10, 13}

RECURSIVE MyTokFrom(_, _, _)
MyTokFrom(src, p, toks) ==
    LET c == At(src, p) n == At(src, p + 1) IN
    IF c = -1 THEN toks
    ELSE IF IsSpace(c) THEN MyTokFrom(src, p + 1, toks)
    ELSE IF c = SQ \/ c = DQ THEN
        LET r == MyString(src, p + 1, c, <<>>)
        IN  IF r.ok THEN MyTokFrom(src, r.p, Append(toks, [k |-> "str", c |-> r.c])) ELSE Append(toks, [k |-> "lexerror"])
    ELSE IF c = BT THEN
        LET r == MyIdent(src, p + 1, <<>>)
        IN  IF r.ok THEN MyTokFrom(src, r.p, Append(toks, [k |-> "ident", c |-> r.c])) ELSE Append(toks, [k |-> "lexerror"])
    ELSE IF c = 35 THEN MyTokFrom(src, SkipLine(src, p + 1), toks)
    ELSE IF c = 45 /\ n = 45 /\ (IsSpace(At(src, p + 2)) \/ At(src, p + 2) = -1) THEN MyTokFrom(src, SkipLine(src, p + 2), toks)
    ELSE IF c = 47 /\ n = 47 THEN MyTokFrom(src, SkipLine(src, p + 2), toks)
    ELSE IF c = 47 /\ n = 42 THEN
        LET e == SkipBlock(src, p + 2) IN IF e = -1 THEN Append(toks, [k |-> "lexerror"]) ELSE MyTokFrom(src, e, toks)
    ELSE MyTokFrom(src, p + 1, Append(toks, [k |-> "ch", c |-> c]))
MyTokens(src) == MyTokFrom(src, 1, <<>>)
---------------------------------------------------------------------------
\* (c) the option rewriters of processors.go, as coded

RwErr == <<-9>>

\* DoubleQuotesToBackTick: "..." becomes `...`; inside it \" and "" stand for a quote character and a
\* back quote is doubled; '...' (with backslash escapes) and `...` are copied
RECURSIVE DQ2BTFrom(_, _, _, _)
DQ2BTFrom(s, p, mode, out) ==
    LET c == At(s, p) n == At(s, p + 1) IN
    IF c = -1 THEN out
    ELSE CASE mode = "raw" ->
                 IF c = SQ THEN DQ2BTFrom(s, p + 1, "sq", Append(out, c))
                 ELSE IF c = BT THEN DQ2BTFrom(s, p + 1, "bt", Append(out, c))
                 ELSE IF c = DQ THEN DQ2BTFrom(s, p + 1, "dq", Append(out, BT))
                 ELSE DQ2BTFrom(s, p + 1, "raw", Append(out, c))
           [] mode = "sq" ->
                 IF c = SQ THEN DQ2BTFrom(s, p + 1, "raw", Append(out, c))
                 ELSE IF c = BS THEN (IF n = -1 THEN RwErr ELSE DQ2BTFrom(s, p + 2, "sq", out \o <<c, n>>))
                 ELSE DQ2BTFrom(s, p + 1, "sq", Append(out, c))
           [] mode = "bt" ->
                 DQ2BTFrom(s, p + 1, IF c = BT THEN "raw" ELSE "bt", Append(out, c))
           [] OTHER ->
                 IF c = DQ THEN (IF n = DQ THEN DQ2BTFrom(s, p + 2, "dq", Append(out, DQ))
                                 ELSE DQ2BTFrom(s, p + 1, "raw", Append(out, BT)))
                 ELSE IF c = BT THEN DQ2BTFrom(s, p + 1, "dq", out \o <<BT, BT>>)
                 ELSE IF c = BS THEN (IF n = -1 THEN RwErr
                                      ELSE IF n = DQ THEN DQ2BTFrom(s, p + 2, "dq", Append(out, DQ))
                                      ELSE DQ2BTFrom(s, p + 1, "dq", Append(out, c)))
                 ELSE DQ2BTFrom(s, p + 1, "dq", Append(out, c))
DQ2BT(s) == DQ2BTFrom(s, 1, "raw", <<>>)

\* FindArrayIndex + FixIdiomaticArray: outside quotes (a backslash skips the next byte anywhere) every [
\* becomes ARRAY( and every ] becomes ) ; a ] with no open [ or an unclosed [ is an error
ARRAYP == <<65, 82, 82, 65, 89, 40>>
RECURSIVE FixArrFrom(_, _, _, _, _)
FixArrFrom(s, p, hold, pending, out) ==
    LET c == At(s, p) IN
    IF c = -1 THEN (IF pending # 0 THEN RwErr ELSE out)
    \* a backslash takes the next character with it inside a quoted string only
    ELSE IF c = BS /\ hold \in {SQ, DQ} THEN FixArrFrom(s, p + 2, hold, pending, out \o (IF At(s, p + 1) = -1 THEN <<c>> ELSE <<c, At(s, p + 1)>>))
    ELSE IF c \in {DQ, SQ, BT} THEN
        FixArrFrom(s, p + 1, IF hold = 0 THEN c ELSE IF hold = c THEN 0 ELSE hold, pending, Append(out, c))
    ELSE IF hold # 0 THEN FixArrFrom(s, p + 1, hold, pending, Append(out, c))
    ELSE IF c = 91 THEN FixArrFrom(s, p + 1, hold, pending + 1, out \o ARRAYP)
    ELSE IF c = 93 THEN (IF pending = 0 THEN RwErr ELSE FixArrFrom(s, p + 1, hold, pending - 1, Append(out, 41)))
    ELSE FixArrFrom(s, p + 1, hold, pending, Append(out, c))
FixArr(s) == FixArrFrom(s, 1, 0, 0, <<>>)
=============================================================================
