------------------------------- MODULE MC_C01 -------------------------------
(* C01 - WHERE keeps exactly the satisfying rows, in source order.          *)
(* Enumerates tables x predicates per predicate family; checks the laws the  *)
(* property states on the specification and exports every case for replay.   *)
EXTENDS Gen

CONSTANTS MaxRows,      \* rows per table
          Deep          \* TRUE: binary connectives over the full atom set

A == Col("a")
S == Col("s")

\* ---- numeric family: column a over 0..2
NumRows  == {Row([a |-> NumV(i)]) : i \in 0..2}
NumConst == {LN(i) : i \in 0..2}
NumCmp   == {CmpE(op, A, c) : op \in CmpOps, c \in NumConst}
NumIn    == {InE(neg, A, l) : neg \in BOOLEAN, l \in SeqsFromTo(NumConst, 1, 2)}
NumBtw   == {Between(neg, A, lo, hi) : neg \in BOOLEAN, lo \in NumConst, hi \in NumConst}
\* long literal lists (eight and more members)
Long(neg, from) == InE(neg, A, [i \in 1..9 |-> LN(from + i - 1)])
NumLong  == {Long(neg, f) : neg \in BOOLEAN, f \in {0, 1, 2}}
NumAtoms == NumCmp \cup NumIn \cup NumBtw \cup NumLong
NumCore  == {CmpE(op, A, LN(1)) : op \in CmpOps} \cup
            {InE(neg, A, <<LN(0), LN(2)>>) : neg \in BOOLEAN} \cup
            {Between(neg, A, LN(1), LN(2)) : neg \in BOOLEAN}

\* ---- string family: column s; 40 = '(' 37 = '%' 95 = '_' 97 = 'a' 66 = 'B' 98 = 'b'
\* 10 = line feed: % and _ stand for any characters, a line break included ('a<LF>' LIKE 'a%', 'a_')
StrVals  == {<<>>, <<97>>, <<66>>, <<40>>, <<97, 66>>, <<66, 97>>, <<40, 97>>, <<97, 97>>, <<97, 10>>}
StrRows  == {Row([s |-> StrV(c)]) : c \in StrVals}
Pats     == SeqsUpTo({97, 98, 37, 95, 40}, 2)
StrConst == {LS(c) : c \in {<<>>, <<97>>, <<66>>, <<97, 66>>}}
\* one inner %: the value has to hold the text in front of it and the text behind it one after the other, not overlapping
\* ('a%a' is not matched by 'a', 'aB%B' not by 'aB')
Pats3    == {<<97, 37, 97>>, <<97, 66, 37, 66>>, <<97, 37, 97, 97>>, <<40, 37, 40, 97>>}
StrLike  == {LikeE(neg, S, LS(p)) : neg \in BOOLEAN, p \in Pats \cup Pats3}
StrCmp   == {CmpE(op, S, c) : op \in CmpOps, c \in StrConst}
StrIn    == {InE(neg, S, l) : neg \in BOOLEAN, l \in SeqsFromTo(StrConst, 1, 2)}
StrBtw   == {Between(neg, S, lo, hi) : neg \in BOOLEAN, lo \in StrConst, hi \in StrConst}
StrAtoms == StrLike \cup StrCmp \cup StrIn \cup StrBtw
StrCore  == {LikeE(FALSE, S, LS(<<97, 37>>)), LikeE(TRUE, S, LS(<<95, 98>>)), CmpE("<", S, LS(<<97, 66>>)),
             CmpE(">=", S, LS(<<66>>)), InE(TRUE, S, <<LS(<<97>>), LS(<<66>>)>>), Between(FALSE, S, LS(<<66>>), LS(<<97, 66>>))}

\* ---- boolean / nullable family: column b (bool), n (NULL or 1)
BnRows   == {Row([b |-> BoolV(x), n |-> y]) : x \in BOOLEAN, y \in {Null, NumV(1)}}
BnAtoms  == {IsE(op, Col("b")) : op \in {"true", "false", "nottrue", "notfalse"}} \cup
            {IsE(op, Col("n")) : op \in {"null", "notnull"}}

\* ---- column-to-column and arithmetic comparisons: columns a, c
AcRows   == {Row([a |-> NumV(i), c |-> NumV(j)]) : i \in 0..2, j \in 0..2}
AcAtoms  == {CmpE(op, A, Col("c")) : op \in CmpOps} \cup
            {CmpE(op, Bin("+", A, LN(1)), Col("c")) : op \in {"=", "<", ">="}}

\* ---- numeric-looking strings: still compared as strings ("10" < "9", "1.0" # "1")
DigVals  == {<<49, 48>>, <<57>>, <<49, 46, 48>>, <<49>>}
DigRows  == {Row([s |-> StrV(c)]) : c \in DigVals}
DigConst == {LS(c) : c \in {<<57>>, <<49, 48>>, <<49>>}}
DigAtoms == {CmpE(op, S, c) : op \in CmpOps, c \in DigConst} \cup
            {InE(neg, S, l) : neg \in BOOLEAN, l \in SeqsFromTo(DigConst, 1, 2)} \cup
            {Between(neg, S, lo, hi) : neg \in BOOLEAN, lo \in DigConst, hi \in DigConst}

Combine(atoms, core) ==
    LET bin == IF Deep THEN atoms ELSE core
    IN  atoms \cup {NotE(x) : x \in atoms}
              \cup {AndE(x, y) : x \in bin, y \in bin}
              \cup {OrE(x, y) : x \in bin, y \in bin}
              \cup {NotE(AndE(x, y)) : x \in core, y \in core}
              \cup {OrE(NotE(x), NotE(y)) : x \in core, y \in core}

\* ---- IN over a single-column subquery (rooted at the caller's document through <-)
SubQ(w) == [BaseQ EXCEPT !.sel = <<Item(Col("c"), "")>>, !.from = Table(<<"<-", "u">>, ""), !.where = w]
\* ... and over the very table the outer query is filtering
SelfQ(w) == [BaseQ EXCEPT !.sel = <<Item(A, "")>>, !.from = Table(<<"<-", "t">>, ""), !.where = w]
SubPreds == {InSub(A, SubQ(None)), InSub(A, SubQ(CmpE(">", Col("c"), LN(0)))),
             NotE(InSub(A, SubQ(None))), AndE(InSub(A, SubQ(None)), CmpE("<", A, LN(2))),
             InSub(A, SelfQ(CmpE(">", A, LN(0)))), NotE(InSub(A, SelfQ(CmpE("<", A, LN(2))))),
             \* the operator NOT IN over a subquery: the complement of IN ("consequently NOT IN is the complement of IN")
             NotInSub(A, SubQ(None)), NotInSub(A, SubQ(CmpE(">", Col("c"), LN(0)))), NotE(NotInSub(A, SubQ(None))),
             OrE(NotInSub(A, SubQ(None)), CmpE("=", A, LN(0))), NotInSub(A, SelfQ(CmpE("<", A, LN(2))))}
URows == {Row([c |-> NumV(i)]) : i \in 0..2}

Families ==
    {[name |-> "num",  rows |-> NumRows, preds |-> Combine(NumAtoms, NumCore), extra |-> {<<>>}],
     [name |-> "str",  rows |-> StrRows, preds |-> Combine(StrAtoms, StrCore), extra |-> {<<>>}],
     [name |-> "bn",   rows |-> BnRows,  preds |-> Combine(BnAtoms, BnAtoms),  extra |-> {<<>>}],
     [name |-> "ac",   rows |-> AcRows,  preds |-> Combine(AcAtoms, AcAtoms),  extra |-> {<<>>}],
     [name |-> "dig",  rows |-> DigRows, preds |-> DigAtoms \cup {NotE(x) : x \in DigAtoms}, extra |-> {<<>>}],
     [name |-> "sub",  rows |-> NumRows, preds |-> SubPreds, extra |-> SeqsUpTo(URows, 2)]}

Init ==
    /\ \E fam \in Families : \E tbl \in SeqsUpTo(fam.rows, MaxRows) : \E p \in fam.preds : \E u \in fam.extra :
          cs = [fam |-> fam.name,
                q   |-> [BaseQ EXCEPT !.where = p],
                doc |-> ObjV([x \in {"t", "u"} |-> IF x = "t" THEN ArrV(tbl) ELSE ArrV(u)])]
    /\ EngineInit

Next == EngineNext
Spec == Init /\ [][Next]_vars

---------------------------------------------------------------------------
\* the laws of C01, stated on the specification
P    == cs.q.where
Tbl  == cs.doc.f["t"].e
Kept(p) == StWhere([cs.q EXCEPT !.where = p], cs.doc, Tbl)
Truth(p, i) == Ev(p, Tbl[i], cs.doc)

\* every predicate of the domain evaluates to a boolean on every row
Total == Done => ~IsErr(res)

\* exactly the satisfying rows, each once, in source order
ExactlySatisfying ==
    Ok => res.e = FilterSeq(Tbl, {i \in DOMAIN Tbl : Truth(P, i).b})

\* a predicate and its negation partition the rows
Partition ==
    Ok => LET n == Kept(NotE(P)).e
          IN  /\ Len(res.e) + Len(n) = Len(Tbl)
              /\ \A i \in DOMAIN Tbl : Truth(P, i).b # Truth(NotE(P), i).b

\* NOT IN is the complement of IN; BETWEEN is >= AND <=; NOT LIKE complements LIKE
Complement ==
    Ok => CASE P.k = "in" -> Kept([P EXCEPT !.neg = ~P.neg]).e = Kept(NotE(P)).e
            [] P.k = "like" -> Kept([P EXCEPT !.neg = ~P.neg]).e = Kept(NotE(P)).e
            [] P.k = "between" /\ ~P.neg ->
                   res.e = Kept(AndE(CmpE(">=", P.e, P.lo), CmpE("<=", P.e, P.hi))).e
            [] OTHER -> TRUE

\* De Morgan
DeMorgan ==
    Ok => CASE P.k = "not" /\ P.e.k = "and" -> res.e = Kept(OrE(NotE(P.e.l), NotE(P.e.r))).e
            [] P.k = "not" /\ P.e.k = "or"  -> res.e = Kept(AndE(NotE(P.e.l), NotE(P.e.r))).e
            [] OTHER -> TRUE

Export ==
    Done => PrintT(ToJson([q |-> cs.q, doc |-> cs.doc, fam |-> cs.fam, hist |-> hist, res |-> res,
                           \* what the negated predicate keeps: replayed on the same document object
                           neg |-> Kept(NotE(P))]))
=============================================================================
