------------------------------- MODULE Joins -------------------------------
(***************************************************************************)
(* Operational models of the two join algorithms of join.go, structured      *)
(* like the code, next to the textbook meaning Genql!JoinRows (property      *)
(* C04).  Both work on "catalogs": the rows of a side keyed by the tuple of  *)
(* that side's join columns, taken in the order of the ON comparisons, each   *)
(* value by its %v text (two scalars have equal text iff the engine's        *)
(* comparison calls them equal).                                             *)
(*                                                                         *)
(*   HashJoinModel      probe the right catalog with each left key           *)
(*   NestedLoopModel    evaluate ON once per pair of distinct keys; a left   *)
(*                      key no right key matched yields the NULL-extended     *)
(*                      rows for LEFT (sides are swapped first for RIGHT)     *)
(* Strategy(on, type, requested) is the choice Join.Exec makes.              *)
(***************************************************************************)
EXTENDS Genql

\* the comparisons of an ON expression, left to right
RECURSIVE Comparisons(_)
Comparisons(on) == IF on.k \in {"and", "or"} THEN Comparisons(on.l) \o Comparisons(on.r)
                   ELSE IF on.k = "cmp" THEN <<on>> ELSE <<>>

\* pure conjunction of equalities: the automatic hash path (hashJoinAnalyze)
RECURSIVE EquiConj(_)
EquiConj(on) == CASE on.k = "cmp" -> on.op = "="
                  [] on.k = "and" -> EquiConj(on.l) /\ EquiConj(on.r)
                  [] OTHER -> FALSE

\* the column of side `ident` in each comparison, in order (extractJoinColumns)
SideCols(on, ident) ==
    LET cs == Comparisons(on)
    IN  [i \in 1..Len(cs) |-> IF cs[i].l.k = "col" /\ cs[i].l.p[1] = ident THEN cs[i].l.p ELSE cs[i].r.p]

KeyTexts(row, cols) == [i \in 1..Len(cols) |-> Text(PathGet(row, cols[i]))]

Strategy(on, requested) ==
    IF requested = "straight" THEN "nested"
    ELSE IF EquiConj(on) THEN "hash"              \* requested or automatic
    ELSE "nested"                                 \* HASH_JOIN on a condition it cannot serve falls back

\* LEFT-oriented core: every l row with its partners, or NULL-extended under `outer`
HashCore(ls, rs, lcols, rcols, rAlias, outer) ==
    Concat([i \in 1..Len(ls) |->
        LET k  == KeyTexts(ls[i], lcols)
            ps == FilterSeq(rs, {j \in DOMAIN rs : KeyTexts(rs[j], rcols) = k})
        IN  IF ps # <<>> THEN [j \in 1..Len(ps) |-> Merge(ls[i], ps[j])]
            ELSE IF outer THEN <<Put(ls[i], rAlias, Null)>> ELSE <<>>])

NestedCore(ls, rs, lcols, rcols, on, rAlias, outer, data) ==
    LET lkeys == Dedup([i \in 1..Len(ls) |-> KeyTexts(ls[i], lcols)])
        rkeys == Dedup([j \in 1..Len(rs) |-> KeyTexts(rs[j], rcols)])
        lrows(k) == FilterSeq(ls, {i \in DOMAIN ls : KeyTexts(ls[i], lcols) = k})
        rrows(k) == FilterSeq(rs, {j \in DOMAIN rs : KeyTexts(rs[j], rcols) = k})
        \* ON is evaluated on one representative per key pair (it mentions only key columns)
        holds(lk, rk) == Ev(on, Merge(lrows(lk)[1], rrows(rk)[1]), data)
        bad == \E a \in DOMAIN lkeys : \E b \in DOMAIN rkeys : ~IsBool(holds(lkeys[a], rkeys[b]))
    IN  IF bad THEN Err
        ELSE ArrV(Concat([a \in 1..Len(lkeys) |->
               LET lk == lkeys[a]
                   ms == FilterSeq(rkeys, {b \in DOMAIN rkeys : holds(lk, rkeys[b]).b})
               IN  IF ms # <<>>
                   THEN Concat([b \in 1..Len(ms) |->
                          Concat([i \in 1..Len(lrows(lk)) |-> [j \in 1..Len(rrows(ms[b])) |-> Merge(lrows(lk)[i], rrows(ms[b])[j])]])])
                   ELSE IF outer THEN [i \in 1..Len(lrows(lk)) |-> Put(lrows(lk)[i], rAlias, Null)] ELSE <<>>]))

\* from = [k|->"join", type, l, r, on] (or using instead of on); ls / rs the aliased rows of the two sides
JoinModel(from, ls, rs, requested, data) ==
    LET swap == from.type = "right"
        L == IF swap THEN rs ELSE ls
        R == IF swap THEN ls ELSE rs
        la == IF swap THEN from.r.as ELSE from.l.as
        ra == IF swap THEN from.l.as ELSE from.r.as
        on == JoinOn(from)
        lc == SideCols(on, la)
        rc == SideCols(on, ra)
        outer == from.type # "inner"
    IN  IF Strategy(on, requested) = "hash" THEN ArrV(HashCore(L, R, lc, rc, ra, outer))
        ELSE NestedCore(L, R, lc, rc, on, ra, outer, data)
=============================================================================
