------------------------------- MODULE MC_C17 -------------------------------
(* C17 - the dialect options rewrite only syntax.  A statement is a sequence   *)
(* of tokens: Lit(content) a single-quoted literal, Id(content) a quoted        *)
(* identifier, LB / RB array brackets, Ch(c) anything else.  It has a MySQL     *)
(* spelling (identifiers in back quotes, ARRAY( ... )) and the spellings the    *)
(* options accept (identifiers in double quotes; [ ... ]).  The rewriters of    *)
(* the options, as coded, must map the second onto something the tokenizer      *)
(* reads exactly like the first; contents of literals and back-quoted           *)
(* identifiers reach the tokenizer untouched.                                   *)
EXTENDS Lexers, Json

CONSTANTS MaxContent, MaxBrTokens

VARIABLES cs, out, pc
vars == <<cs, out, pc>>

Lit(c) == [k |-> "lit", c |-> c]
Id(c)  == [k |-> "id", c |-> c]
Ch(c)  == [k |-> "ch", c |-> <<c>>]
LB == [k |-> "lb"]
RB == [k |-> "rb"]

\* spelling of one token
RECURSIVE Dbl(_, _, _)
Dbl(s, q, i) == IF i > Len(s) THEN <<>> ELSE (IF s[i] = q THEN <<q, q>> ELSE <<s[i]>>) \o Dbl(s, q, i + 1)
LitText(c) == QuoteString(c)                                   \* ' doubled, \ doubled
\* the other spelling of a literal: quote and backslash escaped with a backslash
RECURSIVE BsEsc(_, _)
BsEsc(s, i) == IF i > Len(s) THEN <<>> ELSE (IF s[i] = SQ \/ s[i] = BS THEN <<BS, s[i]>> ELSE <<s[i]>>) \o BsEsc(s, i + 1)
LitText2(c) == <<SQ>> \o BsEsc(c, 1) \o <<SQ>>
IdMy(c) == <<BT>> \o Dbl(c, BT, 1) \o <<BT>>
IdPG(c) == <<DQ>> \o Dbl(c, DQ, 1) \o <<DQ>>                   \* standard SQL: a quote inside is doubled
Render(ts, pg, br) ==
    LET one(t) == CASE t.k = "lit" -> IF "bs" \in DOMAIN t THEN LitText2(t.c) ELSE LitText(t.c)
                    [] t.k = "id"  -> IF pg THEN IdPG(t.c) ELSE IdMy(t.c)
                    [] t.k = "idbt" -> IdMy(t.c)
                    [] t.k = "lb"  -> IF br THEN <<91>> ELSE ARRAYP
                    [] t.k = "rb"  -> IF br THEN <<93>> ELSE <<41>>
                    [] OTHER       -> t.c
        F[i \in 0..Len(ts)] == IF i = 0 THEN <<>> ELSE F[i - 1] \o (IF i > 1 THEN <<32>> ELSE <<>>) \o one(ts[i])
    IN  F[Len(ts)]

\* (233: a two-byte rune - the rewriters work on bytes and must hand every one of them through)
LitAlpha == {97, DQ, SQ, BT, BS, 91, 93, 233}
IdAlpha  == {97, DQ, SQ, BT, 91, 93, 32, 233}
Contents(A, lo) == UNION {[1..n -> A] : n \in lo..MaxContent}
Lits == {Lit(c) : c \in Contents(LitAlpha, 0)} \cup {[k |-> "lit", c |-> c, bs |-> TRUE] : c \in Contents(LitAlpha, 1)}
Ids  == {Id(c) : c \in Contents(IdAlpha, 1)}
\* identifier / literal pairs for the quoting option
\* a back-quoted identifier may stand in the double-quoted spelling as it is (it is not rewritten); one ending in a backslash, followed
\* by double-quoted tokens, shows whether the rewriter knows that a backslash means nothing inside back quotes
IdBT(c) == [k |-> "idbt", c |-> c]
QuoteSeqs == {<<a>> : a \in Lits \cup Ids} \cup {<<a, Ch(44), b>> : a \in Ids, b \in Lits \cup Ids} \cup {<<a, Ch(61), b>> : a \in Lits, b \in Ids}
             \cup {<<IdBT(c), Ch(44), b>> : c \in {<<107, BS>>, <<BS>>, <<107, BS, BT>>, <<107>>}, b \in {Id(<<110>>), Id(<<DQ>>), Lit(<<DQ>>), Lit(<<97>>)}}
\* double-quoted identifiers holding backslashes (not in front of a double quote, not at the end - there the rewriter, as
\* coded, reads an escape): a backslash means nothing in an identifier, two of them stay two
IdsBS == {Id(<<BS, 97>>), Id(<<BS, BS, 97>>), Id(<<120, BS, BS, 121>>), Id(<<BS, BT, 97>>), Id(<<BS, BS, BS, 97>>), Id(<<BS, SQ, BS, BS, 110>>)}
QuoteSeqsBS == {<<a>> : a \in IdsBS} \cup {<<a, Ch(44), b>> : a \in IdsBS, b \in {Id(<<110>>), Lit(<<DQ>>), Lit(<<BS>>), Id(<<BS, BS, 97>>)}}
\* bracket structures (balanced or not) around a few literals / identifiers for the array option
\* (the last identifier ends in a backslash: inside back quotes a backslash is a character like any other)
\* (Lit(<<233>>), Id(<<233, 91>>): a two-byte rune in front of brackets - positions are byte positions)
BrTok == {LB, RB, Ch(49), Lit(<<91>>), Lit(<<93, SQ>>), Lit(<<BS>>), Id(<<91, 97>>), Id(<<BT, 93>>), Id(<<97, BS>>), Lit(<<233>>), Id(<<233, 91>>)}
BrSeqs == UNION {[1..n -> BrTok] : n \in 1..MaxBrTokens}
\* many brackets in one statement: an array of k one-element arrays, k-deep nesting, k flat arrays followed by a nested one,
\* and the unbalanced variants that lose their last closing bracket
RECURSIVE Rep(_, _)
Rep(ts, k) == IF k = 0 THEN <<>> ELSE ts \o Rep(ts, k - 1)
One == <<LB, Ch(49), RB>>
BrLong == UNION {{<<LB>> \o Rep(One, k) \o <<RB>>,
                  Rep(<<LB>>, k) \o <<Id(<<91, 97>>)>> \o Rep(<<RB>>, k),
                  Rep(One, k) \o <<LB, LB, Lit(<<93, SQ>>), RB, RB>>,
                  <<LB>> \o Rep(One, k),
                  Rep(<<LB>>, k) \o <<Ch(49)>> \o Rep(<<RB>>, k - 1)} : k \in {15, 16, 17, 33}}

Init == /\ \/ \E ts \in QuoteSeqs \cup QuoteSeqsBS : cs = [fam |-> "quotes", ts |-> ts, text |-> Render(ts, TRUE, FALSE)]
           \/ \E ts \in BrSeqs \cup BrLong : cs = [fam |-> "arrays", ts |-> ts, text |-> Render(ts, FALSE, TRUE)]
        /\ out = <<>> /\ pc = "start"
Rewrite == pc = "start" /\ out' = (IF cs.fam = "quotes" THEN DQ2BT(cs.text) ELSE FixArr(cs.text)) /\ pc' = "done" /\ UNCHANGED cs
Next == Rewrite
Spec == Init /\ [][Next]_vars

---------------------------------------------------------------------------
Done == pc = "done"
\* what the tokenizer must see: the tokens themselves
Expected(ts) == [i \in 1..Len(ts) |-> CASE ts[i].k = "lit" -> [k |-> "str", c |-> ts[i].c]
                                        [] ts[i].k \in {"id", "idbt"} -> [k |-> "ident", c |-> ts[i].c]
                                        [] OTHER -> [k |-> "ch", c |-> ts[i].c[1]]]
\* the MySQL spelling is read back as the tokens (sanity of the reference spelling)
ReferenceReads == (Done /\ cs.fam = "quotes") => MyTokens(Render(cs.ts, FALSE, FALSE)) = Expected(cs.ts)
\* PostgresEscapingDialect: the rewritten text reads exactly like the MySQL spelling - identifiers
\* requoted, contents of literals and identifiers untouched
QuotesPreserved == (Done /\ cs.fam = "quotes") => out # RwErr /\ MyTokens(out) = Expected(cs.ts)
\* IdiomaticArrays: balanced brackets become ARRAY( ... ), brackets inside literals and identifiers stay; unbalanced is an error
RECURSIVE DepthFrom(_, _, _)
DepthFrom(ts, i, d) == IF d < 0 THEN -1 ELSE IF i > Len(ts) THEN d
                       ELSE DepthFrom(ts, i + 1, IF ts[i].k = "lb" THEN d + 1 ELSE IF ts[i].k = "rb" THEN d - 1 ELSE d)
Depth(ts) == DepthFrom(ts, 1, 0)
Balanced(ts) == Depth(ts) = 0
ArraysRewritten == (Done /\ cs.fam = "arrays") =>
                      IF Balanced(cs.ts) THEN out = Render(cs.ts, FALSE, FALSE) ELSE out = RwErr

Export == Done => PrintT(ToJson([fam |-> cs.fam, text |-> cs.text, out |-> out]))
=============================================================================
