------------------------------- MODULE MC_C02 -------------------------------
(* C02 - projection: one output row per kept row, keys = aliases / column    *)
(* names (all source keys for the star item), values = the ordinary meaning of each      *)
(* expression on that row.  Two families: "expr" (one aliased expression     *)
(* tree per case, all operators) and "list" (select lists of 1-3 items with  *)
(* and without aliases, the star item, duplicate names, with and without WHERE).          *)
(* Inputs whose meaning the statement does not fix (division by zero, bit    *)
(* operators on negative numbers, shifts outside 0..16, unary operators on   *)
(* NULL) evaluate to Err in the specification and are kept out of the domain. *)
EXTENDS Gen

CONSTANTS MaxRows, Deep

Half == Rat(1, 2)
\* (n.q.r: a path of three plain keys, which may be written without quotes)
R(a, b, p, f) == Row([a |-> a, b |-> b, n |-> ObjV([p |-> p, q |-> ObjV([r |-> p])]), f |-> BoolV(f)])
Rows == {R(NumV(1), NumV(2), NumV(5), TRUE), R(NumV(3), Half, NumV(1), FALSE),
         R(NumV(-2), NumV(2), NumV(0), TRUE), R(NumV(0), NumV(3), NumV(2), FALSE),
         R(Null, NumV(1), NumV(4), TRUE),
         \* a ragged table: this row has no key b at all (a reference to it yields NULL - whatever an earlier row held)
         Row([a |-> NumV(2), n |-> ObjV([p |-> NumV(1), q |-> ObjV([r |-> NumV(1)])]), f |-> BoolV(TRUE)])}

A == Col("a")
B == Col("b")
NP == ColP(<<"n", "p">>)
M == Col("m")                      \* a key no row has
Cols   == {A, B, NP, M}
Consts == {LN(0), LN(1), LN(2), LN(3), LN(-1), Lit(Half)}
Atoms  == Cols \cup Consts
BinOps == {"+", "-", "*", "/", "div", "%", "&", "|", "^", "<<", ">>"}

D1 == {Bin(op, x, y) : op \in BinOps, x \in Atoms, y \in Atoms} \cup
      {Un(op, x) : op \in {"-", "~"}, x \in Atoms} \cup {Un("!", Col("f"))}
Core == {Bin("+", A, B), Bin("-", A, NP), Bin("*", B, LN(3)), Bin("/", A, LN(2)), Bin("div", NP, LN(2)),
         Bin("%", A, LN(2)), Bin("&", NP, LN(3)), Bin("|", LN(1), LN(2)), Bin("<<", LN(1), LN(3)),
         Un("-", B), Un("~", NP), Bin("+", A, M)}
D2 == {Bin(op, x, y) : op \in BinOps, x \in Core, y \in IF Deep THEN Atoms ELSE {A, LN(2), Lit(Half)}} \cup
      {Bin(op, y, x) : op \in BinOps, x \in Core, y \in IF Deep THEN Atoms ELSE {B, LN(3)}} \cup
      {Un(op, x) : op \in {"-", "~"}, x \in Core} \cup
      {Bin(op, x, y) : op \in {"+", "*", "-"}, x \in Core, y \in Core}
Conds == {CmpE(">", A, LN(0)), CmpE("=", B, LN(2)), IsE("null", A), CmpE("<", NP, A)}
Cases == {CaseE(<<[c |-> c1, v |-> v1]>>, els) : c1 \in Conds, v1 \in {A, LN(1), Bin("+", A, B)}, els \in {None, B, LN(0)}} \cup
         {CaseE(<<[c |-> c1, v |-> LN(1)], [c |-> c2, v |-> NP]>>, els) : c1 \in Conds, c2 \in Conds, els \in {None, LN(7)}}
\* guards: an arm that is not taken is not evaluated - the guarded division idiom, a later arm's condition that would
\* fail, a unary operator kept away from NULL (rows with a = 0, n.p = 0 and a = NULL exist)
Guarded == {CaseE(<<[c |-> CmpE("=", x, LN(0)), v |-> LN(0)]>>, Bin(op, B, x)) : x \in {A, NP}, op \in {"/", "%", "div"}} \cup
           {CaseE(<<[c |-> CmpE("=", A, LN(0)), v |-> LN(0)], [c |-> CmpE(">", Bin("/", B, A), LN(1)), v |-> LN(1)]>>, LN(7)),
            CaseE(<<[c |-> IsE("null", A), v |-> LN(0)]>>, Un("-", A)),
            CaseE(<<[c |-> IsE("null", A), v |-> LN(0)]>>, Un("~", A)),
            CaseE(<<[c |-> CmpE("!=", NP, LN(0)), v |-> Bin("/", A, NP)]>>, LN(0)),
            CaseE(<<[c |-> CmpE("=", NP, LN(0)), v |-> B], [c |-> CmpE("=", A, LN(0)), v |-> Bin("/", LN(1), NP)]>>, Bin("/", LN(1), A))}
Exprs == Atoms \cup D1 \cup D2 \cup Cases \cup Guarded

NQR == ColP(<<"n", "q", "r">>)
Items == {Star, Item(A, ""), Item(A, "x"), Item(NP, ""), Item(NP, "a"), Item(M, ""), Item(Bin("+", A, LN(1)), "b"), Item(NQR, ""),
          Item(Bin("*", B, LN(2)), "y"), Item(LS(<<104, 105>>), "s"),
          \* white space inside a literal and inside a quoted alias is content: two blanks, a tab, a line break
          Item(LS(<<120, 32, 32, 121, 10, 122, 9, 9>>), "w"), Item(A, "a  b")}
Lists == SeqsFromTo(Items, 1, 3)
\* FUSE: the keys of an object blended into the row (n = {p, q}), under a prefix when the item has an alias; items before
\* and after it that carry one of those names (later wins); FUSE of a missing column is an ordinary NULL column
\* columns whose names are no plain words (`k l`, a two-byte letter, `m-c`): names of the row like any other
KL == Col("k l")
OddLists == {<<Item(KL, "")>>, <<Item(KL, "v"), Item(A, "")>>, <<Item(Bin("+", KL, LN(1)), "w"), Item(Col("m-c"), "")>>, <<Star, Item(KL, "z")>>,
             <<Item(CaseE(<<[c |-> CmpE(">", KL, LN(7)), v |-> Col("m-c")]>>, KL), "c")>>}
OddRow(r) == Row(("k l" :> r.f["a"]) @@ ("m-c" :> r.f["f"]) @@ r.f)
FuseI(e, as) == Item([k |-> "fn", f |-> "fuse", args |-> <<e>>], as)
FuseItems == {FuseI(Col("n"), ""), FuseI(Col("n"), "z"), FuseI(ColP(<<"n", "q">>), ""), FuseI(M, "z")}
Others == {Item(A, "p"), Item(A, "z.p"), Item(B, "r"), Item(NP, "q")}
FuseLists == {<<f>> : f \in FuseItems} \cup {<<f, x>> : f \in FuseItems, x \in Others} \cup {<<x, f>> : f \in FuseItems, x \in Others}
             \cup {<<Star, f>> : f \in FuseItems} \cup {<<f, Star>> : f \in FuseItems}
             \cup {<<FuseI(Col("n"), ""), FuseI(ColP(<<"n", "q">>), "p")>>, <<FuseI(ColP(<<"n", "q">>), "n"), FuseI(Col("n"), "")>>}
Wheres == {None, CmpE(">", B, LN(1))}

Defined(q, doc) == ~IsErr(RunQ(q, doc))

Init ==
    /\ \/ \E tbl \in SeqsFromTo(Rows, 1, 1) \cup {<<>>} \cup (IF MaxRows >= 2 THEN {<<r1, r2>> : r1 \in Rows, r2 \in Rows} ELSE {}) :
          \E e \in Exprs :
            /\ cs = [fam |-> "expr", q |-> [BaseQ EXCEPT !.sel = <<Item(e, "v")>>], doc |-> Doc1("t", tbl)]
            /\ (Len(tbl) = 2 => e \in Atoms \cup Core \cup Cases \cup Guarded)
            /\ Defined(cs.q, cs.doc)
       \/ \E tbl \in SeqsUpTo(Rows, MaxRows) : \E sl \in Lists : \E w \in Wheres :
            /\ cs = [fam |-> "list", q |-> [BaseQ EXCEPT !.sel = sl, !.where = w], doc |-> Doc1("t", tbl)]
       \/ \E tbl \in SeqsUpTo({OddRow(r) : r \in {x \in Rows : "b" \in DOMAIN x.f}}, MaxRows) : \E sl \in OddLists : \E w \in Wheres \cup {CmpE(">", KL, LN(0))} :
            /\ cs = [fam |-> "list", q |-> [BaseQ EXCEPT !.sel = sl, !.where = w], doc |-> Doc1("t", tbl)]
            /\ Defined(cs.q, cs.doc)
       \/ \E tbl \in SeqsUpTo(Rows, MaxRows) : \E sl \in FuseLists : \E w \in Wheres :
            /\ cs = [fam |-> "fuse", q |-> [BaseQ EXCEPT !.sel = sl, !.where = w], doc |-> Doc1("t", tbl)]
    /\ EngineInit

Next == EngineNext
Spec == Init /\ [][Next]_vars

---------------------------------------------------------------------------
Kept == Stage("where")
Out  == Stage("select")
Sel  == cs.q.sel

Total == Done => ~IsErr(res)

\* exactly one output object per row that passed WHERE
OnePerRow == HasStage("select") => Len(Out) = Len(Kept)

\* keys are exactly the aliases / column names, plus all source keys for *
FuseNames(it, row) == LET o == PathGet(row, it.e.args[1].p) IN IF IsObj(o) THEN {FuseName(it, k) : k \in Keys(o)} ELSE {ItemName(it)}
NamesOf(row) == UNION {IF IsFuse(Sel[i]) THEN FuseNames(Sel[i], row) ELSE {ItemName(Sel[i])} : i \in {j \in DOMAIN Sel : Sel[j].k = "item"}} \cup
                (IF \E i \in DOMAIN Sel : Sel[i].k = "star" THEN Keys(row) ELSE {})
ExactKeys == HasStage("select") => \A i \in DOMAIN Out : Keys(Out[i]) = NamesOf(Kept[i])

\* each value is the meaning of (the last item carrying that name) on that row only
RowLocal ==
    HasStage("select") =>
        \A i \in DOMAIN Out : Out[i] = Project(cs.q, cs.doc, Kept[i])

\* no engine-internal key
NoMarkerKey == Ok => \A i \in DOMAIN res.e : ~("<-" \in Keys(res.e[i]))

\* sanity laws of the expression semantics, on every row of the case
V(e, i) == Ev(e, Kept[i], cs.doc)
Laws ==
    (HasStage("select") /\ cs.fam = "expr") =>
      LET e == Sel[1].e IN
        \A i \in DOMAIN Kept :
          /\ (e.k = "bin" /\ e.op = "-" /\ ~IsErr(V(e.r, i)) /\ IsNum(V(e.r, i))) => V(e, i) = V(Bin("+", e.l, Un("-", e.r)), i)
          /\ (e.k = "un" /\ e.op = "~") => V(Un("~", e), i) = NumV(Trunc(V(e.e, i)))
          /\ (e.k = "bin" /\ (IsNull(V(e.l, i)) \/ IsNull(V(e.r, i)))) => IsNull(V(e, i))
          /\ (e.k = "col" /\ e.p = <<"m">>) => IsNull(V(e, i))
          /\ (e.k = "case" /\ V(e.whens[1].c, i) = BoolV(TRUE)) => V(e, i) = V(e.whens[1].v, i)

Export ==
    Done => PrintT(ToJson([q |-> cs.q, doc |-> cs.doc, fam |-> cs.fam, hist |-> hist, res |-> res]))
=============================================================================
