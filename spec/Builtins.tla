------------------------------ MODULE Builtins ------------------------------
(***************************************************************************)
(* The built-in scalar functions (property C18): Builtin(f, args, consts)   *)
(* is the value of f applied to already evaluated arguments, or Err.        *)
(* ENCODE and HASH are uninterpreted: ENCODE(v, b) is the opaque text       *)
(* [t |-> "enc", b, v] that only DECODE with the same base opens again, and  *)
(* HASH(v, alg) the opaque text [t |-> "hash", alg, v] of which the          *)
(* specification fixes the hex length - the property states laws (round      *)
(* trip, purity, length), not bit patterns.                                  *)
(***************************************************************************)
EXTENDS Values

Bases   == {"base64", "base32", "hex"}
HashLen(alg) == CASE alg = "md5" -> 32 [] alg = "sha1" -> 40 [] alg = "sha256" -> 64 [] alg = "sha512" -> 128 [] OTHER -> 0
EncV(b, v)    == [t |-> "enc", b |-> b, v |-> v]
HashV(alg, v) == [t |-> "hash", alg |-> alg, n |-> HashLen(alg), v |-> v]

\* names (bases, algorithms, conversion types) arrive as strings; the functions lower-case them
Name(v) == IF IsStr(v) THEN LowerSeq(v.c) ELSE <<-1>>
Lit_(s) == CASE s = "base64" -> <<98, 97, 115, 101, 54, 52>> [] s = "base32" -> <<98, 97, 115, 101, 51, 50>>
             [] s = "hex" -> <<104, 101, 120>> [] s = "md5" -> <<109, 100, 53>> [] s = "sha1" -> <<115, 104, 97, 49>>
             [] s = "sha256" -> <<115, 104, 97, 50, 53, 54>> [] s = "sha512" -> <<115, 104, 97, 53, 49, 50>>
             [] s = "string" -> <<115, 116, 114, 105, 110, 103>> [] s = "double" -> <<100, 111, 117, 98, 108, 101>>
             [] s = "integer" -> <<105, 110, 116, 101, 103, 101, 114>> [] s = "array" -> <<97, 114, 114, 97, 121>>
             [] OTHER -> <<-2>>
NameIn(v, S) == \E s \in S : Name(v) = Lit_(s)
NameOf(v, S) == CHOOSE s \in S : Name(v) = Lit_(s)

\* simple case mapping on the code points the models use (ASCII letters and a few pairs beyond)
UpperOf(c) == CASE c >= 97 /\ c <= 122 -> c - 32
                [] c = 233 -> 201 [] c = 252 -> 220 [] c = 241 -> 209     \* e-acute, u-diaeresis, n-tilde
                [] c = 963 -> 931 [] c = 962 -> 931 [] c = 1103 -> 1071   \* sigma, final sigma, ya
                [] OTHER -> c
LowerOf(c) == CASE c >= 65 /\ c <= 90 -> c + 32
                [] c = 201 -> 233 [] c = 220 -> 252 [] c = 209 -> 241
                [] c = 931 -> 963 [] c = 1071 -> 1103
                [] OTHER -> c

\* decimal text -> number, for the spellings the models use: [-]digits[.digits]
IsDigit(c) == c >= 48 /\ c <= 57
RECURSIVE DigitsVal(_)
DigitsVal(s) == IF s = <<>> THEN 0 ELSE DigitsVal(SubSeq(s, 1, Len(s) - 1)) * 10 + (s[Len(s)] - 48)
RECURSIVE Pow10(_)
Pow10(n) == IF n = 0 THEN 1 ELSE 10 * Pow10(n - 1)
ParseDec(s) ==
    LET neg  == s # <<>> /\ s[1] = 45
        body == IF neg THEN Tail(s) ELSE s
        dots == {i \in DOMAIN body : body[i] = 46}
        dot  == IF dots = {} THEN Len(body) + 1 ELSE CHOOSE i \in dots : TRUE
        ip   == SubSeq(body, 1, dot - 1)
        fp   == SubSeq(body, dot + 1, Len(body))
        ok   == /\ Cardinality(dots) <= 1 /\ ip # <<>> /\ (dots = {} \/ fp # <<>>)
                /\ \A i \in DOMAIN body : i \in dots \/ IsDigit(body[i])
        mag  == Rat(DigitsVal(ip) * Pow10(Len(fp)) + DigitsVal(fp), Pow10(Len(fp)))
    IN  IF ~ok THEN Err ELSE IF neg THEN RNeg(mag) ELSE mag
\* ... optionally followed by e+XX (the form %v prints from 1e+06 on)
ParseNum(s) ==
    LET es == {i \in DOMAIN s : s[i] = 101}
    IN  IF es = {} THEN ParseDec(s)
        ELSE LET e  == CHOOSE i \in es : TRUE
                 m  == ParseDec(SubSeq(s, 1, e - 1))
                 xs == SubSeq(s, e + 2, Len(s))
             IN  IF Cardinality(es) # 1 \/ IsErr(m) \/ e + 1 > Len(s) \/ s[e + 1] # 43 \/ xs = <<>>
                    \/ (\E i \in DOMAIN xs : ~IsDigit(xs[i])) \/ DigitsVal(xs) > 8 THEN Err
                 ELSE LET p == Pow10(DigitsVal(xs))
                          g == GCD(m.d, p)           \* cancel first: TLC integers are 32-bit
                      IN  Rat(m.n * (p \div g), m.d \div g)

IsIntegral(v) == IsNum(v) /\ v.d = 1

Arity(f) == CASE f \in {"first", "last", "unwind", "to_lower", "to_upper", "constant", "fuse", "defaultkey", "getvar", "raise", "boom", "boomt"} -> 1
              [] f \in {"elementat", "changetype", "daterange", "hash", "encode", "decode", "setvar", "raise_when"} -> 2
              [] f = "if" -> 3
              [] OTHER -> -1           \* variadic: array, concat

RECURSIVE ConcatText(_)
ConcatText(args) == IF args = <<>> THEN <<>> ELSE Text(Head(args)) \o ConcatText(Tail(args))

\* one level of flattening
Unwind1(es) == Concat([i \in 1..Len(es) |-> IF IsArr(es[i]) THEN es[i].e ELSE <<es[i]>>])

Builtin(f, args, consts) ==
    LET n == Len(args)
        A(i) == args[i]
    IN
    IF Arity(f) >= 0 /\ n # Arity(f) THEN Err
    ELSE IF \E i \in DOMAIN args : IsErr(args[i]) THEN Err
    ELSE CASE
      f = "first" -> IF IsNull(A(1)) THEN Null ELSE IF ~IsArr(A(1)) THEN Err
                     ELSE IF A(1).e = <<>> THEN Null ELSE A(1).e[1]
   [] f = "last"  -> IF IsNull(A(1)) THEN Null ELSE IF ~IsArr(A(1)) THEN Err
                     ELSE IF A(1).e = <<>> THEN Null ELSE A(1).e[Len(A(1).e)]
   \* (a fractional index is outside what the statement covers and is not enumerated: the code truncates it toward zero,
   \* ELEMENTAT(arr, 1.5) = arr[1], ELEMENTAT(arr, -0.5) = arr[0]; this definition says Err for it)
   [] f = "elementat" ->
          IF IsNull(A(1)) THEN Null
          ELSE IF ~IsArr(A(1)) \/ ~IsIntegral(A(2)) THEN Err
          ELSE IF A(2).n < 0 \/ A(2).n >= Len(A(1).e) THEN Err
          ELSE A(1).e[A(2).n + 1]
   \* FUSE hands the object on; what makes it special is the select stage, which blends the object's keys into the row
   [] f = "fuse" -> IF IsNull(A(1)) THEN Null ELSE IF IsObj(A(1)) THEN A(1) ELSE Err
   [] f = "unwind" -> IF IsNull(A(1)) THEN Null ELSE IF ~IsArr(A(1)) THEN Err ELSE ArrV(Unwind1(A(1).e))
   [] f = "array"  -> ArrV(args)
   [] f = "concat" -> IF \E i \in DOMAIN args : ~IsScalar(args[i]) THEN Err
                      ELSE StrV(ConcatText(NonNullArgs(args)))
   [] f = "if" -> IF IsNull(A(1)) THEN A(3) ELSE IF ~IsBool(A(1)) THEN Err ELSE IF A(1).b THEN A(2) ELSE A(3)
   [] f = "to_lower" -> IF ~IsStr(A(1)) THEN Err ELSE StrV([i \in 1..Len(A(1).c) |-> LowerOf(A(1).c[i])])
   [] f = "to_upper" -> IF ~IsStr(A(1)) THEN Err ELSE StrV([i \in 1..Len(A(1).c) |-> UpperOf(A(1).c[i])])
   [] f = "changetype" ->
          IF IsNull(A(1)) THEN Null
          ELSE IF ~NameIn(A(2), {"string", "double", "integer", "array"}) THEN Err
          ELSE LET ty == NameOf(A(2), {"string", "double", "integer", "array"})
                   nv == IF IsNum(A(1)) THEN A(1) ELSE IF IsStr(A(1)) THEN ParseNum(A(1).c) ELSE Err
               IN  CASE ty = "array"  -> ArrV(<<A(1)>>)
                     [] ty = "string" -> IF IsScalar(A(1)) THEN StrV(Text(A(1))) ELSE Err
                     [] ty = "double" -> nv
                     [] OTHER -> IF IsErr(nv) \/ ~IsIntegral(nv) \/ (IsStr(A(1)) /\ \E i \in DOMAIN A(1).c : A(1).c[i] = 46) THEN Err ELSE nv
   [] f = "daterange" -> IF IsStr(A(1)) /\ IsStr(A(2)) THEN ArrV(<<A(1), A(2)>>) ELSE Err
   [] f = "constant" -> IF IsObj(consts) /\ IsStr(A(1)) /\ \E k \in Keys(consts) : KeyText(k) = A(1).c
                        THEN consts.f[CHOOSE k \in Keys(consts) : KeyText(k) = A(1).c] ELSE Err
   [] f = "encode" -> IF ~IsScalar(A(1)) \/ ~NameIn(A(2), Bases) THEN Err ELSE EncV(NameOf(A(2), Bases), A(1))
   [] f = "decode" -> IF ~NameIn(A(2), Bases) THEN Err
                      ELSE IF A(1).t = "enc" /\ A(1).b = NameOf(A(2), Bases) THEN A(1).v
                      ELSE Err
   [] f = "hash" -> IF ~IsScalar(A(1)) \/ ~NameIn(A(2), {"md5", "sha1", "sha256", "sha512"}) THEN Err
                    ELSE HashV(NameOf(A(2), {"md5", "sha1", "sha256", "sha512"}), A(1))
   \* harness-owned probe: the identity, with a fault injected by the harness at its k-th invocation
   [] f = "boom" -> A(1)
   [] f = "boomt" -> BoolV(TRUE)      \* the same probe for boolean positions (a join's ON)
   \* RAISE always fails; RAISE_WHEN fails iff its condition is true and otherwise contributes no column
   [] f = "raise" -> Err
   [] f = "raise_when" -> IF ~IsBool(A(1)) \/ A(1).b THEN Err ELSE [t |-> "omit"]
   [] OTHER -> Err
=============================================================================
