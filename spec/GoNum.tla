------------------------------- MODULE GoNum -------------------------------
(***************************************************************************)
(* The values compare.Compare is applied to (property C15): numbers of the  *)
(* twelve Go numeric kinds and strings (among the points two pairs of neighbours a few units in the last place apart: 0.3 / 0.30000000000000004 and 2^53 - 2 / 2^53 - 1).  A number is [kind, p] where p is    *)
(* the rank of its mathematical value in the ascending list Points - TLC    *)
(* integers are 32-bit, so 64-bit magnitudes never enter TLC arithmetic and  *)
(* the mathematical order is the order of ranks.  Each point carries its     *)
(* decimal spelling (dec: handed to the Go harness, which parses it into     *)
(* the kind), whether it is an integer, whether float32 holds it exactly     *)
(* with the same %v text as float64, and its %v text as code points for an   *)
(* integer kind (itxt) and for a float kind (ftxt: fmt's %v switches to      *)
(* exponent form from 1e+06 on ... the harness re-checks every text against   *)
(* fmt.Sprintf on the real value).                                           *)
(***************************************************************************)
EXTENDS Integers, Sequences, FiniteSets, TLC

Points == <<
  [dec |-> "-9007199254740992", int |-> TRUE,  f32 |-> FALSE, itxt |-> <<45, 57, 48, 48, 55, 49, 57, 57, 50, 53, 52, 55, 52, 48, 57, 57, 50>>, ftxt |-> <<45, 57, 46, 48, 48, 55, 49, 57, 57, 50, 53, 52, 55, 52, 48, 57, 57, 50, 101, 43, 49, 53>>],
  [dec |-> "-2147483649", int |-> TRUE,  f32 |-> FALSE, itxt |-> <<45, 50, 49, 52, 55, 52, 56, 51, 54, 52, 57>>, ftxt |-> <<45, 50, 46, 49, 52, 55, 52, 56, 51, 54, 52, 57, 101, 43, 48, 57>>],
  [dec |-> "-2147483648", int |-> TRUE,  f32 |-> FALSE, itxt |-> <<45, 50, 49, 52, 55, 52, 56, 51, 54, 52, 56>>, ftxt |-> <<45, 50, 46, 49, 52, 55, 52, 56, 51, 54, 52, 56, 101, 43, 48, 57>>],
  [dec |-> "-32769", int |-> TRUE,  f32 |-> TRUE, itxt |-> <<45, 51, 50, 55, 54, 57>>, ftxt |-> <<45, 51, 50, 55, 54, 57>>],
  [dec |-> "-32768", int |-> TRUE,  f32 |-> TRUE, itxt |-> <<45, 51, 50, 55, 54, 56>>, ftxt |-> <<45, 51, 50, 55, 54, 56>>],
  [dec |-> "-129",   int |-> TRUE,  f32 |-> TRUE, itxt |-> <<45, 49, 50, 57>>, ftxt |-> <<45, 49, 50, 57>>],
  [dec |-> "-128",   int |-> TRUE,  f32 |-> TRUE, itxt |-> <<45, 49, 50, 56>>, ftxt |-> <<45, 49, 50, 56>>],
  [dec |-> "-2",     int |-> TRUE,  f32 |-> TRUE, itxt |-> <<45, 50>>, ftxt |-> <<45, 50>>],
  [dec |-> "-1.5",   int |-> FALSE, f32 |-> TRUE, itxt |-> <<45, 49, 46, 53>>, ftxt |-> <<45, 49, 46, 53>>],
  [dec |-> "-1",     int |-> TRUE,  f32 |-> TRUE, itxt |-> <<45, 49>>, ftxt |-> <<45, 49>>],
  [dec |-> "-0.5",   int |-> FALSE, f32 |-> TRUE, itxt |-> <<45, 48, 46, 53>>, ftxt |-> <<45, 48, 46, 53>>],
  [dec |-> "0",      int |-> TRUE,  f32 |-> TRUE, itxt |-> <<48>>, ftxt |-> <<48>>],
  [dec |-> "0.3",    int |-> FALSE, f32 |-> FALSE, itxt |-> <<48, 46, 51>>, ftxt |-> <<48, 46, 51>>],
  [dec |-> "0.30000000000000004", int |-> FALSE, f32 |-> FALSE, itxt |-> <<48, 46, 51, 48, 48, 48, 48, 48, 48, 48, 48, 48, 48, 48, 48, 48, 48, 48, 52>>, ftxt |-> <<48, 46, 51, 48, 48, 48, 48, 48, 48, 48, 48, 48, 48, 48, 48, 48, 48, 48, 52>>],
  [dec |-> "0.5",    int |-> FALSE, f32 |-> TRUE, itxt |-> <<48, 46, 53>>, ftxt |-> <<48, 46, 53>>],
  [dec |-> "1",      int |-> TRUE,  f32 |-> TRUE, itxt |-> <<49>>, ftxt |-> <<49>>],
  [dec |-> "1.5",    int |-> FALSE, f32 |-> TRUE, itxt |-> <<49, 46, 53>>, ftxt |-> <<49, 46, 53>>],
  [dec |-> "2",      int |-> TRUE,  f32 |-> TRUE, itxt |-> <<50>>, ftxt |-> <<50>>],
  [dec |-> "9",      int |-> TRUE,  f32 |-> TRUE, itxt |-> <<57>>, ftxt |-> <<57>>],
  [dec |-> "10",     int |-> TRUE,  f32 |-> TRUE, itxt |-> <<49, 48>>, ftxt |-> <<49, 48>>],
  [dec |-> "127",    int |-> TRUE,  f32 |-> TRUE, itxt |-> <<49, 50, 55>>, ftxt |-> <<49, 50, 55>>],
  [dec |-> "128",    int |-> TRUE,  f32 |-> TRUE, itxt |-> <<49, 50, 56>>, ftxt |-> <<49, 50, 56>>],
  [dec |-> "255",    int |-> TRUE,  f32 |-> TRUE, itxt |-> <<50, 53, 53>>, ftxt |-> <<50, 53, 53>>],
  [dec |-> "256",    int |-> TRUE,  f32 |-> TRUE, itxt |-> <<50, 53, 54>>, ftxt |-> <<50, 53, 54>>],
  [dec |-> "32767",  int |-> TRUE,  f32 |-> TRUE, itxt |-> <<51, 50, 55, 54, 55>>, ftxt |-> <<51, 50, 55, 54, 55>>],
  [dec |-> "32768",  int |-> TRUE,  f32 |-> TRUE, itxt |-> <<51, 50, 55, 54, 56>>, ftxt |-> <<51, 50, 55, 54, 56>>],
  [dec |-> "65535",  int |-> TRUE,  f32 |-> TRUE, itxt |-> <<54, 53, 53, 51, 53>>, ftxt |-> <<54, 53, 53, 51, 53>>],
  [dec |-> "65536",  int |-> TRUE,  f32 |-> TRUE, itxt |-> <<54, 53, 53, 51, 54>>, ftxt |-> <<54, 53, 53, 51, 54>>],
  [dec |-> "2147483647", int |-> TRUE, f32 |-> FALSE, itxt |-> <<50, 49, 52, 55, 52, 56, 51, 54, 52, 55>>, ftxt |-> <<50, 46, 49, 52, 55, 52, 56, 51, 54, 52, 55, 101, 43, 48, 57>>],
  [dec |-> "2147483648", int |-> TRUE, f32 |-> FALSE, itxt |-> <<50, 49, 52, 55, 52, 56, 51, 54, 52, 56>>, ftxt |-> <<50, 46, 49, 52, 55, 52, 56, 51, 54, 52, 56, 101, 43, 48, 57>>],
  [dec |-> "4294967295", int |-> TRUE, f32 |-> FALSE, itxt |-> <<52, 50, 57, 52, 57, 54, 55, 50, 57, 53>>, ftxt |-> <<52, 46, 50, 57, 52, 57, 54, 55, 50, 57, 53, 101, 43, 48, 57>>],
  [dec |-> "4294967296", int |-> TRUE, f32 |-> FALSE, itxt |-> <<52, 50, 57, 52, 57, 54, 55, 50, 57, 54>>, ftxt |-> <<52, 46, 50, 57, 52, 57, 54, 55, 50, 57, 54, 101, 43, 48, 57>>],
  [dec |-> "9007199254740990", int |-> TRUE, f32 |-> FALSE, itxt |-> <<57, 48, 48, 55, 49, 57, 57, 50, 53, 52, 55, 52, 48, 57, 57, 48>>, ftxt |-> <<57, 46, 48, 48, 55, 49, 57, 57, 50, 53, 52, 55, 52, 48, 57, 57, 101, 43, 49, 53>>],
  [dec |-> "9007199254740991", int |-> TRUE, f32 |-> FALSE, itxt |-> <<57, 48, 48, 55, 49, 57, 57, 50, 53, 52, 55, 52, 48, 57, 57, 49>>, ftxt |-> <<57, 46, 48, 48, 55, 49, 57, 57, 50, 53, 52, 55, 52, 48, 57, 57, 49, 101, 43, 49, 53>>],
  [dec |-> "9007199254740992", int |-> TRUE, f32 |-> FALSE, itxt |-> <<57, 48, 48, 55, 49, 57, 57, 50, 53, 52, 55, 52, 48, 57, 57, 50>>, ftxt |-> <<57, 46, 48, 48, 55, 49, 57, 57, 50, 53, 52, 55, 52, 48, 57, 57, 50, 101, 43, 49, 53>>],
  [dec |-> "9223372036854775808", int |-> TRUE, f32 |-> FALSE, itxt |-> <<57, 50, 50, 51, 51, 55, 50, 48, 51, 54, 56, 53, 52, 55, 55, 53, 56, 48, 56>>, ftxt |-> <<57, 46, 50, 50, 51, 51, 55, 50, 48, 51, 54, 56, 53, 52, 55, 55, 54, 101, 43, 49, 56>>],
  [dec |-> "18446744073709549568", int |-> TRUE, f32 |-> FALSE, itxt |-> <<49, 56, 52, 52, 54, 55, 52, 52, 48, 55, 51, 55, 48, 57, 53, 52, 57, 53, 54, 56>>, ftxt |-> <<49, 46, 56, 52, 52, 54, 55, 52, 52, 48, 55, 51, 55, 48, 57, 53, 53, 101, 43, 49, 57>>],
  [dec |-> "340282346638528859811704183484516925440", int |-> FALSE, f32 |-> FALSE, itxt |-> <<51, 52, 48, 50, 56, 50, 51, 52, 54, 54, 51, 56, 53, 50, 56, 56, 53, 57, 56, 49, 49, 55, 48, 52, 49, 56, 51, 52, 56, 52, 53, 49, 54, 57, 50, 53, 52, 52, 48>>, ftxt |-> <<51, 46, 52, 48, 50, 56, 50, 51, 52, 54, 54, 51, 56, 53, 50, 56, 56, 54, 101, 43, 51, 56>>] >>

NP == Len(Points)
Idx(d) == CHOOSE i \in 1..NP : Points[i].dec = d

\* range of every integer kind, as ranks (int and uint are 64-bit on the platforms the harness runs on)
IntKinds == {"int", "int8", "int16", "int32", "int64", "uint", "uint8", "uint16", "uint32", "uint64"}
Lo(k) == CASE k = "int8"  -> Idx("-128")
           [] k = "int16" -> Idx("-32768")
           [] k = "int32" -> Idx("-2147483648")
           [] k \in {"int", "int64"} -> 1
           [] OTHER -> Idx("0")
Hi(k) == CASE k = "int8"   -> Idx("127")
           [] k = "int16"  -> Idx("32767")
           [] k = "int32"  -> Idx("2147483647")
           [] k = "uint8"  -> Idx("255")
           [] k = "uint16" -> Idx("65535")
           [] k = "uint32" -> Idx("4294967295")
           [] k \in {"int", "int64"} -> Idx("9007199254740992")   \* (the points above it are 2^63 and beyond)
           [] OTHER -> NP
Kinds == IntKinds \cup {"float32", "float64"}

Repr(k, i) == CASE k = "float64" -> TRUE
                [] k = "float32" -> Points[i].f32
                [] OTHER -> Points[i].int /\ i >= Lo(k) /\ i <= Hi(k)

NumG(k, i) == [t |-> "gnum", kind |-> k, p |-> i]
StrG(c)    == [t |-> "gstr", c |-> c]
IsG(v)     == v.t = "gnum"

\* fmt.Sprintf("%v", v)
GText(v) == IF IsG(v) THEN (IF v.kind \in IntKinds THEN Points[v.p].itxt ELSE Points[v.p].ftxt) ELSE v.c

RECURSIVE BytesCmp(_, _)
BytesCmp(s, u) ==
    IF s = <<>> /\ u = <<>> THEN 0
    ELSE IF s = <<>> THEN -1
    ELSE IF u = <<>> THEN 1
    ELSE IF Head(s) < Head(u) THEN -1
    ELSE IF Head(s) > Head(u) THEN 1
    ELSE BytesCmp(Tail(s), Tail(u))

Sign(x) == IF x < 0 THEN -1 ELSE IF x > 0 THEN 1 ELSE 0

\* what C15 states
IdealCmp(a, b) == IF IsG(a) /\ IsG(b) THEN Sign(a.p - b.p) ELSE BytesCmp(GText(a), GText(b))

\* compare.Compare as coded: the type switch on the left operand; two numbers of one kind are
\* compared directly, two numbers of different kinds through float64 (exact on the points, all of
\* which float64 holds); anything else by the %v texts
CodeCmp(a, b) ==
    IF IsG(a) THEN
        IF IsG(b) THEN (IF a.kind = b.kind THEN Sign(a.p - b.p) ELSE Sign(a.p - b.p))
        ELSE BytesCmp(GText(a), b.c)
    ELSE BytesCmp(GText(a), GText(b))
=============================================================================
