------------------------------ MODULE Registry ------------------------------
(***************************************************************************)
(* The function registry (property C14, last clause: functions registered   *)
(* as immediate reject ASYNC, SPIN and SPINASYNC with an error).  The        *)
(* registry is process-wide and lives as long as the process: what a call    *)
(* sees depends on the whole history of registrations, so the histories are  *)
(* what TLC enumerates.                                                      *)
(*                                                                         *)
(*   impl       name -> 0 (not registered) or the number of the latest       *)
(*              registered implementation (an implementation n returns       *)
(*              n * 100 + its argument)                                      *)
(*   immediate  the names on the immediate list                              *)
(*   last       name -> "none" | "plain" | "imm": kind of the latest         *)
(*              registration of the name                                     *)
(*   hist       the operations so far, each with the registry's answer       *)
(*              after it (exported for replay)                               *)
(*                                                                         *)
(* As coded, RegisterFunction never takes a name off the immediate list: a   *)
(* name registered as immediate and later re-registered as an ordinary       *)
(* function stays immediate ("sticky").  The property is silent about that   *)
(* case; the specification records what the code does and the replay         *)
(* reports a difference there as drift, not as a violation.                  *)
(* Dev_ToggleOnReRegister: registering an immediate name as immediate again  *)
(* takes it off the list - a deviation the model must reject.                *)
(***************************************************************************)
EXTENDS Integers, Sequences, FiniteSets, TLC, Json

CONSTANTS Names, MaxOps, Dev_ToggleOnReRegister
VARIABLES impl, immediate, last, hist
rvars == <<impl, immediate, last, hist>>

RInit == /\ impl = [n \in Names |-> 0] /\ immediate = {} /\ last = [n \in Names |-> "none"] /\ hist = <<>>

\* what a qualified call (ASYNC, SPIN, SPINASYNC) of name n meets
Status(n, im, la) ==
    CASE la[n] = "none"            -> "unknown"     \* no such function
      [] n \in im /\ la[n] = "imm" -> "rejects"
      [] n \in im                  -> "sticky"      \* immediate once, ordinary now: as coded still rejected (unclaimed)
      [] la[n] = "imm"             -> "LOST"        \* registered as immediate and not on the list: never allowed
      [] OTHER                     -> "runs"
Answer(im, la, ip) == [n \in Names |-> [status |-> Status(n, im, la), impl |-> ip[n]]]

Register(n, kind) ==
    /\ Len(hist) < MaxOps
    /\ LET id == Len(hist) + 1
           im == IF kind = "plain" THEN immediate
                 ELSE IF Dev_ToggleOnReRegister /\ n \in immediate THEN immediate \ {n}
                 ELSE immediate \cup {n}
           la == [last EXCEPT ![n] = kind]
           ip == [impl EXCEPT ![n] = id]
       IN  /\ impl' = ip /\ immediate' = im /\ last' = la
           /\ hist' = Append(hist, [op |-> kind, name |-> n, id |-> id, after |-> Answer(im, la, ip)])

RNext == \E n \in Names, kind \in {"plain", "imm"} : Register(n, kind)
RSpec == RInit /\ [][RNext]_rvars

---------------------------------------------------------------------------
\* a name whose latest registration is immediate is on the list: its qualified calls are rejected
ImmediateRejects == \A n \in Names : last[n] = "imm" => n \in immediate
\* a name never registered as immediate is not on the list: its qualified calls run
OrdinaryRuns == \A n \in Names : (\A k \in 1..Len(hist) : hist[k].name = n => hist[k].op = "plain") => n \notin immediate
\* the latest registration provides the implementation
LatestWins == \A n \in Names : impl[n] = (IF \E k \in 1..Len(hist) : hist[k].name = n
                                          THEN (CHOOSE k \in 1..Len(hist) : hist[k].name = n /\ \A j \in (k + 1)..Len(hist) : hist[j].name # n)
                                          ELSE 0)
NoLost == \A k \in 1..Len(hist) : \A n \in Names : hist[k].after[n].status # "LOST"
ExportJson == (Len(hist) = MaxOps) => PrintT(ToJson([hist |-> hist]))
=============================================================================
