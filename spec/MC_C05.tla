------------------------------- MODULE MC_C05 -------------------------------
(* C05 - ORDER BY sorts; LIMIT / OFFSET return the exact window, never fail. *)
(* Two families: "order" (tables x key lists, with and without a window)     *)
(* and "window" (every (limit, offset) pair in both spellings, on ordered    *)
(* and unordered sequences).  The comparator is the one of sort.go (Less);   *)
(* the window arithmetic of exec is WindowModel.                             *)
EXTENDS Gen

CONSTANTS MaxRows,      \* rows per table, "order" family
          MaxWin        \* rows per table, "window" family

\* 1 < 2 < 10 numerically but "10" < "2" as text; B < a < ab byte-wise
KVals == {NumV(1), NumV(2), NumV(10)}
SVals == {StrV(<<97>>), StrV(<<66>>), StrV(<<97, 98>>)}
NVals == {Null, NumV(1), NumV(3)}
ORows == {Row([k |-> a, s |-> b, n |-> c]) : a \in KVals, b \in SVals, c \in {Null, NumV(3)}}

Key(c, asc) == [key |-> <<c>>, asc |-> asc]
Keys1 == {<<Key(c, d)>> : c \in {"k", "s", "n"}, d \in BOOLEAN}
Keys2 == {<<Key(c1, d1), Key(c2, d2)>> : c1 \in {"k", "s"}, c2 \in {"k", "s"}, d1 \in BOOLEAN, d2 \in BOOLEAN} \
         {<<Key(c, d), Key(c, d)>> : c \in {"k", "s"}, d \in BOOLEAN}
\* (a column named twice with different directions: the first mention decides, the second never gets to)
Keys3 == {<<Key("k", FALSE), Key("s", TRUE), Key("k", TRUE)>>, <<Key("s", TRUE), Key("k", TRUE), Key("s", FALSE)>>}
\* ORDER BY on an aliased output column
AliasSel == <<Item(Col("k"), "x"), Item(Col("s"), "")>>
\* ... whose name is no plain word (an alias is a name, not a path: `m-c`, a two-byte letter, a name with a dot)
AliasSelY(nm) == <<Item(Col("k"), nm), Item(Col("s"), "")>>
OddNames == {"m-c", "k l", "n.q"}
KeysX == {<<Key("x", d)>> : d \in BOOLEAN} \cup {<<Key("s", d1), Key("x", d2)>> : d1 \in BOOLEAN, d2 \in BOOLEAN}

Wins0 == {<<-1, -1, "">>, <<1, 1, "">>, <<2, 0, "comma">>}

\* "window" family: rows identified by position value
WRows  == {Row([k |-> NumV(i)]) : i \in 0..3}
Huge == 2000000000              \* stands for the largest LIMIT the parser accepts (rendered as 9223372036854775807)
Limits == {0, 1, 2, 3, 5, 8, 9, Huge, Huge + 1}     \* Huge + 1 is rendered as 18446744073709551615, MySQL's idiom for "all the rest"
Offs   == {-1, 0, 1, 2, 4, 6, 8}
WinsAll == {<<-1, -1, "">>} \cup {<<n, m, "">> : n \in Limits, m \in Offs}
                            \cup {<<n, m, "comma">> : n \in Limits, m \in Offs \ {-1}}
WKeys == {<<>>, <<Key("k", TRUE)>>, <<Key("k", FALSE)>>}

MkQ(sel, keys, w) == [BaseQ EXCEPT !.sel = sel, !.order = keys, !.limit = w[1], !.offset = w[2]] @@ [limstyle |-> w[3]]

Init ==
    /\ \/ \E tbl \in SeqsUpTo(ORows, MaxRows) : \E ks \in Keys1 \cup Keys2 \cup Keys3 : \E w \in Wins0 :
            cs = [fam |-> "order", q |-> MkQ(<<Star>>, ks, w), doc |-> Doc1("t", tbl)]
       \/ \E tbl \in SeqsUpTo(ORows, MaxRows) : \E ks \in KeysX : \E w \in Wins0 :
            cs = [fam |-> "alias", q |-> MkQ(AliasSel, ks, w), doc |-> Doc1("t", tbl)]
       \/ \E tbl \in SeqsUpTo(ORows, MaxRows) : \E nm \in OddNames : \E d \in BOOLEAN : \E w \in {<<-1, -1, "">>, <<1, 1, "">>} :
            cs = [fam |-> "alias", q |-> MkQ(AliasSelY(nm), <<Key(nm, d)>>, w), doc |-> Doc1("t", tbl)]
       \/ \E tbl \in SeqsUpTo(WRows, MaxWin) : \E ks \in {<<Key("k", TRUE)>>, <<Key("k", FALSE)>>} : \E w \in {<<1, -1, "">>, <<1, 1, "">>, <<2, 0, "comma">>, <<-1, -1, "">>} :
            cs = [fam |-> "distinct", q |-> [MkQ(<<Item(Col("k"), "")>>, ks, w) EXCEPT !.distinct = TRUE], doc |-> Doc1("t", tbl)]
       \* a select list made of aggregates only yields one row: the window applies to that one-row sequence
       \/ \E tbl \in SeqsUpTo(WRows, MaxWin) : \E w \in {<<-1, -1, "">>, <<1, -1, "">>, <<1, 1, "">>, <<0, -1, "">>, <<2, 0, "comma">>, <<1, 1, "comma">>} :
            cs = [fam |-> "window", q |-> MkQ(<<Item(Agg("count", <<>>), "c"), Item(Agg("sum", <<"k">>), "s")>>, <<>>, w), doc |-> Doc1("t", tbl)]
       \* ORDER BY behind the last branch of a UNION sorts the combined result; the window comes after it
       \/ \E tbl \in SeqsUpTo(WRows, MaxWin) : \E ks \in {<<Key("k", TRUE)>>, <<Key("k", FALSE)>>} : \E w \in {<<-1, -1, "">>, <<2, -1, "">>, <<1, 1, "">>} : \E all \in BOOLEAN :
            \* (UNION ALL of t with itself leaves ties - equal rows - so every order satisfying the keys is the same sequence)
            cs = [fam |-> "union", doc |-> Doc1("t", tbl),
                  q |-> [k |-> "union", l |-> [BaseQ EXCEPT !.sel = <<Item(Col("k"), "")>>], r |-> [BaseQ EXCEPT !.sel = <<Item(Col("k"), "")>>, !.where = CmpE(">", Col("k"), LN(0))],
                         all |-> all, order |-> ks, limit |-> w[1], offset |-> w[2]]]
       \* a table longer than ten rows: counts of two digits cut it (8, 9, 10 and 11 keep different rows)
       \/ \E ks \in WKeys : \E w \in {<<10, -1, "">>, <<10, 1, "">>, <<8, 2, "comma">>, <<3, 8, "">>, <<9, 0, "comma">>, <<11, 10, "">>, <<2, 10, "comma">>} :
            cs = [fam |-> "window", q |-> MkQ(<<Star>>, ks, w), doc |-> Doc1("t", [i \in 1..12 |-> Row([k |-> NumV((i * 5) % 12)])])]
       \* tables long enough for the library's sort to leave insertion sort behind (13 rows and more), in several arrangements
       \/ \E n \in {13, 14, 20, 40} : \E mul \in {1, 3, 7, 11} : \E ks \in {<<Key("k", TRUE)>>, <<Key("k", FALSE)>>} : \E w \in {<<-1, -1, "">>, <<5, 3, "">>} :
            cs = [fam |-> "window", q |-> MkQ(<<Star>>, ks, w), doc |-> Doc1("t", [i \in 1..n |-> Row([k |-> NumV((i * mul) % (n + 1))])])]
       \/ \E tbl \in SeqsUpTo(WRows, MaxWin) : \E ks \in WKeys : \E w \in WinsAll :
            cs = [fam |-> "window", q |-> MkQ(<<Star>>, ks, w), doc |-> Doc1("t", tbl)]
    /\ EngineInit

Next == EngineNext
Spec == Init /\ [][Next]_vars

---------------------------------------------------------------------------
Keys_  == cs.q.order
Before == Stage("distinct")      \* the unordered result
Sorted == Stage("order")

Total == Done => ~IsErr(res)

\* a permutation of the unordered result in which every adjacent pair respects the key list
Ordered == HasStage("order") => OrderOK(Before, Sorted, Keys_)

\* NULL keys (single key) after every non-NULL key, in either direction
NullsLast ==
    (HasStage("order") /\ Len(Keys_) = 1) =>
        \A i, j \in DOMAIN Sorted :
            (IsNull(PathGet(Sorted[i], Keys_[1].key)) /\ ~IsNull(PathGet(Sorted[j], Keys_[1].key))) => j < i

\* adjacent pairs, spelled out without Less: lexicographic on the key list with directions
RECURSIVE LexLE(_, _, _)
LexLE(x, y, keys) ==
    IF keys = <<>> THEN TRUE
    ELSE LET a == PathGet(x, Head(keys).key)
             b == PathGet(y, Head(keys).key)
             c == IF IsNull(a) \/ IsNull(b) THEN 0 ELSE Cmp(a, b)
         IN  IF IsNull(a) /\ ~IsNull(b) THEN FALSE
             ELSE IF ~IsNull(a) /\ IsNull(b) THEN TRUE
             ELSE IF c = 0 THEN LexLE(x, y, Tail(keys))
             ELSE IF Head(keys).asc THEN c < 0 ELSE c > 0
AdjacentLex == HasStage("order") => \A i \in 1..(Len(Sorted) - 1) : LexLE(Sorted[i], Sorted[i + 1], Keys_)

\* what ORDER BY leaves open is only the order of tied rows: the key-tuple sequence is unique
KeySeqUnique ==
    (HasStage("order") /\ Len(Before) <= 3) =>
        \A o \in {p \in PermSeqs(Before) : OrderOK(Before, p, Keys_)} :
            [i \in DOMAIN o |-> KeyTuple(o[i], Keys_)] = [i \in DOMAIN Sorted |-> KeyTuple(Sorted[i], Keys_)]

\* exactly the elements at positions m .. m+n-1 that exist; the code's slice arithmetic agrees
Positions(s, m, n) ==
    LET off == IF m < 0 THEN 0 ELSE m
        cnt == IF n < 0 THEN Max2(0, Len(s) - off) ELSE Max2(0, Min2(n, Len(s) - off))
    IN  [i \in 1..cnt |-> s[off + i]]
ExactWindow ==
    /\ (Ok /\ cs.q.k = "select") =>
          /\ res.e = Positions(Sorted, cs.q.offset, cs.q.limit)
          /\ res.e = WindowModel(Sorted, cs.q.offset, cs.q.limit)
    \* a union: the combined (de-duplicated) rows, sorted, then the positions
    /\ (Ok /\ cs.q.k = "union") =>
          LET both == RunQ([x \in DOMAIN cs.q \ {"order"} |-> IF x \in {"limit", "offset"} THEN -1 ELSE cs.q[x]], cs.doc).e
          IN  /\ OrderOK(both, RunQ([cs.q EXCEPT !.limit = -1, !.offset = -1], cs.doc).e, cs.q.order)
              /\ res.e = Positions(RunQ([cs.q EXCEPT !.limit = -1, !.offset = -1], cs.doc).e, cs.q.offset, cs.q.limit)

Export ==
    Done => PrintT(ToJson([q |-> cs.q, doc |-> cs.doc, fam |-> cs.fam, hist |-> hist, res |-> res,
                           ties |-> HasTies(Before, Keys_)]))
=============================================================================
