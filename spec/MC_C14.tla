------------------------------- MODULE MC_C14 -------------------------------
(* C14 - all interleavings of the main goroutine and the goroutines of         *)
(* qualified calls for small tables and select lists; every terminal            *)
(* behaviour is exported as a schedule and forced onto the real engine.         *)
EXTENDS Async, Json

\* select lists of the configurations (substituted for Items in the .cfg files)
ItemsA == <<"col", "async">>
ItemsB == <<"async", "spinasync", "sync">>
ItemsC == <<"once", "async", "spin">>
ItemsD == <<"async", "col", "async">>
ItemsE == <<"spinasync", "col">>
ItemsF == <<"oncenull", "async">>
ItemsH == <<"async", "fail", "spinasync">>
ItemsI == <<"spinasync", "async", "fail">>
ItemsJ == <<"async", "spinasync", "once">>
ItemsK == <<"oncearg", "async", "col">>

ExportJson == Returned => PrintT(ToJson([items |-> Items, nrows |-> NRows, nested |-> Nested, failrow |-> FailRow, window |-> (IF EmptyWindow THEN "empty" ELSE "all"), sched |-> sched,
                                         cell |-> [r \in Rows |-> [i \in Its |-> cell[r][i]]]]))
=============================================================================
