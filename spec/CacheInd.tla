------------------------------ MODULE CacheInd ------------------------------
(***************************************************************************)
(* An inductive invariant for the selector-cache protocol of Cache.tla as   *)
(* coded now (no deviation), discharged by Apalache:                        *)
(*     CInit => IndInv                      (--init=CInit  --length=0)      *)
(*     IndInv /\ [CNext]_cvars => IndInv'   (--init=IndInv --length=1)      *)
(*     IndInv => Safety                     (--init=IndInv --inv=Safety)    *)
(* Unlike the TLC run (G = 3, reachable states only) this covers every      *)
(* state satisfying IndInv, reachable or not, for G = 6 goroutines, three   *)
(* texts and any set of nested (re-entrant) goroutines.                     *)
(***************************************************************************)
EXTENDS Cache

ConstInit ==
    /\ G = 6
    /\ Texts = {"a", "b", "c"}
    /\ Dev_ReadAfterUnlock = FALSE
    /\ Dev_EvalUnderLock = FALSE
    /\ Nested \in SUBSET (1..6)

PCs == {"start", "locked", "writing", "stored", "reading", "read", "evaluating", "done"}
Holding == {"locked", "writing", "stored", "reading", "read"}

IndInv ==
    /\ sel \in [Gs -> Texts]
    /\ pc \in [Gs -> PCs]
    /\ holder \in 0..G
    /\ cache \in SUBSET Texts
    /\ open \in SUBSET [g : Gs, kind : {"read", "write"}]
    /\ got \in [Gs -> Texts \cup {"", "missing"}]
    /\ inner \in [Gs -> {"none", "waiting", "done"}]
    \* the mutex: exactly the goroutine between Lock and Unlock holds it
    /\ \A g \in Gs : (holder = g) <=> (pc[g] \in Holding)
    \* the accesses in progress are exactly those of goroutines inside one
    /\ \A a \in open : (a.kind = "write" <=> pc[a.g] = "writing") /\ (a.kind = "read" <=> pc[a.g] = "reading")
    /\ \A g \in Gs : /\ pc[g] = "writing" => [g |-> g, kind |-> "write"] \in open
                     /\ pc[g] = "reading" => [g |-> g, kind |-> "read"] \in open
    \* after the store (or a hit) the entry is there, and it stays
    /\ \A g \in Gs : pc[g] \in {"stored", "reading", "read", "evaluating", "done"} => sel[g] \in cache
    /\ \A g \in Gs : pc[g] \in {"read", "evaluating", "done"} => got[g] = sel[g]
    \* the nested call happens during evaluation only, that is after Unlock
    /\ \A g \in Gs : inner[g] = "waiting" => pc[g] = "evaluating"
    /\ \A g \in Gs : inner[g] = "done" => pc[g] \in {"evaluating", "done"}
    /\ \A g \in Gs : inner[g] # "none" => g \in Nested

Safety == CTypeOK /\ NoOverlap /\ OwnEntry /\ UnderLock /\ NoSelfDeadlock
=============================================================================
