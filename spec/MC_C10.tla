------------------------------- MODULE MC_C10 -------------------------------
(* C10 - the construct x option x document matrix.  The containment model is   *)
(* Contain.tla; this module enumerates the cells the harness executes: every    *)
(* unsupported / malformed / failing construct the property names (and more)    *)
(* under all 2^3 option combinations on well-shaped, empty, wrong-shaped, wide   *)
(* (40 rows) and grid (rows that are arrays) documents.  The specification fixes only the outcome class: control returns  *)
(* to the caller, with a result or an error.                                    *)
EXTENDS Integers, Sequences, FiniteSets, TLC, Json

CONSTANT Constructs       \* names; the harness owns the SQL text of each

VARIABLES cell, outcome
vars == <<cell, outcome>>

Opts == SUBSET {"wrapped", "pg", "arr"}
Docs == {"normal", "empty", "wrongshape", "wide", "grid"}

Init == /\ \E c \in Constructs : \E o \in Opts : \E d \in Docs : cell = [construct |-> c, opts |-> o, doc |-> d]
        /\ outcome = "running"
\* whatever happens inside (Contain.tla), the call returns
Return == outcome = "running" /\ outcome' \in {"ok", "err"} /\ UNCHANGED cell
Next == Return
Spec == Init /\ [][Next]_vars

Returned == outcome \in {"running", "ok", "err"}
Export == (outcome = "ok") => PrintT(ToJson([construct |-> cell.construct, doc |-> cell.doc,
                                             wrapped |-> "wrapped" \in cell.opts, pg |-> "pg" \in cell.opts, arr |-> "arr" \in cell.opts]))
=============================================================================
