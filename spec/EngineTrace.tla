---------------------------- MODULE EngineTrace ----------------------------
(***************************************************************************)
(* Trace validation (code -> spec) for the sequential engine.  The harness  *)
(* drives the real library on generated queries beyond the exhaustive       *)
(* bounds and records, per query, one event per Engine.tla action:          *)
(*                                                                         *)
(*   {"ev":"call",  "q":<query AST>, "doc":<document>}                      *)
(*   {"ev":"stage", "st":"from|where|group|select|distinct|order|window",   *)
(*                  "rows":[...]}        (verifStage hook, top-level query) *)
(*   {"ev":"ret",   "ok":TRUE,  "rows":[...]}  |  {"ev":"ret", "ok":FALSE}   *)
(*                                                                         *)
(* Each trace action re-evaluates the corresponding stage operator of       *)
(* Genql.tla on the *logged* input of the stage and compares with the       *)
(* logged output (ORDER BY: membership in what OrderOK allows).  A          *)
(* mismatch does not stop validation: it is printed and counted in TLC      *)
(* register 1, so that every event of every query is examined.  Register 2  *)
(* is the high-water mark of consumed events.  Run with -workers 1.         *)
(***************************************************************************)
EXTENDS Genql, Json

Trace == ndJsonDeserialize("trace.ndjson")

VARIABLES l,      \* next event
          q, doc, \* the query being validated and the caller's document
          data,   \* doc plus materialised CTEs (Err if that failed)
          work,   \* logged rows of the previous stage
          st      \* name of the previous stage
tvars == <<l, q, doc, data, work, st>>

Ev_ == Trace[l]

Note(ok, what, exp) ==
    IF ok THEN TRUE
    ELSE /\ PrintT(ToJson([mismatch |-> what, event |-> l, expected |-> exp]))
         /\ TLCSet(1, TLCGet(1) + 1)

Mark == TLCSet(2, l)

TraceInit ==
    /\ l = 1 /\ q = None /\ doc = Null /\ data = Null /\ work = <<>> /\ st = "none"
    /\ TLCSet(1, 0) /\ TLCSet(2, 0)

Call ==
    /\ Ev_.ev = "call"
    /\ q' = Ev_.q /\ doc' = Ev_.doc
    /\ data' = IF Ev_.q.k = "select" THEN BindCtes(Ev_.q.with, Ev_.doc) ELSE Ev_.doc
    /\ work' = <<>> /\ st' = "call"

\* the order in which exec emits stages
Pred(s) == CASE s = "from" -> "call" [] s = "where" -> "from" [] s = "group" -> "where"
             [] s = "select" -> "group" [] s = "distinct" -> "select" [] s = "order" -> "distinct"
             [] s = "window" -> "order" [] OTHER -> "?"

Computed(s) ==
    CASE s = "from"     -> (IF q.k = "union" THEN RunQ([x \in DOMAIN q \ {"order"} |-> IF x = "all" THEN TRUE ELSE IF x \in {"limit", "offset"} THEN -1 ELSE q[x]], doc) ELSE Source(q.from, data))
      [] s = "where"    -> (IF q.k = "union" THEN ArrV(work) ELSE StWhere(q, data, work))
      [] s = "group"    -> (IF q.k = "union" THEN ArrV(work) ELSE StGroup(q, data, work))
      [] s = "select"   -> (IF q.k = "union" THEN ArrV(work) ELSE StSelect(q, data, work))
      [] s = "distinct" -> (IF q.k = "union" THEN (IF q.all THEN ArrV(work) ELSE ArrV(Dedup(work))) ELSE StDistinct(q, work))
      [] s = "window"   -> StWindow(q, work)
      [] OTHER -> Err

\* what the API-level result must satisfy by itself (the stage events sharpen it):
\* without ORDER BY / join the exact sequence; with a join the multiset (under a window: as many rows, all
\* of them rows of the un-windowed result); with ORDER BY
\* the key-tuple sequence of the canonical answer, drawn from the un-windowed result
Keyseq(rows, keys) == [i \in 1..Len(rows) |-> KeyTuple(rows[i], keys)]
SubBag(a, b) == \A i \in DOMAIN a : Count(a, a[i]) <= Count(b, a[i])
ApiOK(rows, want) ==
    IF q.k = "union" THEN (IF UOrder(q) = <<>> THEN rows = want ELSE Keyseq(rows, UOrder(q)) = Keyseq(want, UOrder(q)) /\ BagEq(rows, want))
    ELSE IF q.order # <<>>
    THEN LET full == RunQ([q EXCEPT !.limit = -1, !.offset = -1], doc)
         IN  /\ Keyseq(rows, q.order) = Keyseq(want, q.order)
             /\ SubBag(rows, full.e)
    ELSE IF q.from.k = "join"
    THEN \* the rows of a join come in no particular order: a window without ORDER BY keeps some of them
         IF q.limit >= 0 \/ q.offset >= 0
         THEN LET full == RunQ([q EXCEPT !.limit = -1, !.offset = -1], doc)
              IN  Len(rows) = Len(want) /\ SubBag(rows, full.e)
         ELSE BagEq(rows, want)
    ELSE rows = want

StageEv ==
    /\ Ev_.ev = "stage"
    /\ LET s == Ev_.st IN
       /\ Note(Pred(s) = st \/ (s = "window" /\ st = "order"), "stage out of order", [got |-> s, after |-> st])
       /\ IF s = "order"
          THEN LET keys == IF q.k = "union" THEN UOrder(q) ELSE q.order
               IN  Note(IF keys = <<>> THEN Ev_.rows = work ELSE OrderOK(work, Ev_.rows, keys),
                        "order", [in |-> work])
          ELSE LET c == Computed(s)
                   \* the rows of a join come in no particular order
                   asBag == s = "from" /\ q.k = "select" /\ q.from.k = "join"
               IN  Note(~IsErr(c) /\ (IF asBag THEN BagEq(c.e, Ev_.rows) ELSE c.e = Ev_.rows), s, c)
       /\ st' = s /\ work' = Ev_.rows
    /\ UNCHANGED <<q, doc, data>>

Ret ==
    /\ Ev_.ev = "ret"
    /\ IF Ev_.ok
       THEN /\ Note(st = "window" /\ Ev_.rows = work, "retstage", [work |-> work, after |-> st])
            /\ LET r == RunQ(q, doc) IN Note(~IsErr(r) /\ ApiOK(Ev_.rows, r.e), "api", r)
       ELSE \* an error return: the specification must also fail at the stage after the last logged one
            LET r == RunQ(q, doc) IN Note(IsErr(r) \/ IsErr(data), "api", r)
    /\ st' = "ret" /\ UNCHANGED <<q, doc, data, work>>

TraceNext ==
    /\ l <= Len(Trace)
    /\ (Call \/ StageEv \/ Ret)
    /\ Mark
    /\ l' = l + 1

TraceSpec == TraceInit /\ [][TraceNext]_tvars

Summary == PrintT(<<"TRACE-SUMMARY", TLCGet(1), TLCGet(2), Len(Trace)>>)
=============================================================================
