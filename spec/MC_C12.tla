------------------------------- MODULE MC_C12 -------------------------------
(* C12 - results are plain self-contained data and evaluation is               *)
(* deterministic.  The case matrix puts every expression form of the grammar   *)
(* into every clause position; the specification's result is plain by          *)
(* construction (PlainOK) - the harness checks the real result by reflection,  *)
(* JSON round trip and a second evaluation.                                    *)
EXTENDS Gen

CONSTANT MaxRows

NArr(ps) == ArrV([i \in 1..Len(ps) |-> Row([p |-> NumV(ps[i])])])
TRows == {Row([a |-> NumV(1), g |-> NumV(0), s |-> StrV(<<120>>), o |-> ObjV([k |-> NumV(1), l |-> StrV(<<121>>)]), n |-> NArr(<<1, 2>>)]),
          Row([a |-> NumV(3), g |-> NumV(1), s |-> StrV(<<121>>), o |-> ObjV([k |-> NumV(2)]), n |-> NArr(<<>>)]),
          Row([a |-> NumV(3), g |-> NumV(0), s |-> StrV(<<120>>), o |-> ObjV([k |-> NumV(2)]), n |-> NArr(<<3>>)])}
URows == <<Row([c |-> NumV(3)]), Row([c |-> NumV(1)])>>
\* a table whose join key is a number, NULL, or not there at all
WRows == <<Row([c |-> NumV(3)]), Row([c |-> Null, d |-> NumV(1)]), Row([d |-> NumV(2)]), Row([c |-> NumV(1)])>>
Docs == {ObjV([x \in {"t", "u", "w"} |-> IF x = "t" THEN ArrV(t) ELSE IF x = "u" THEN ArrV(URows) ELSE ArrV(WRows)]) : t \in SeqsFromTo(TRows, 1, MaxRows)}

A == Col("a")
S_ == Col("s")
Fn(f, args) == [k |-> "fn", f |-> f, args |-> args]
FnQ(qual, f, args) == [k |-> "fn", f |-> f, args |-> args, qual |-> qual]
X == LS(<<33>>)
NQ(sel, w) == [BaseQ EXCEPT !.sel = sel, !.from = Table(<<"n">>, ""), !.where = w]

\* every expression form
Forms == {
  [n |-> "col", e |-> A], [n |-> "path", e |-> ColP(<<"o", "k">>)], [n |-> "missing", e |-> Col("zz")],
  [n |-> "num", e |-> LN(2)], [n |-> "str", e |-> LS(<<104, 105>>)], [n |-> "bool", e |-> Lit(BoolV(TRUE))], [n |-> "null", e |-> Lit(Null)],
  [n |-> "add", e |-> Bin("+", A, LN(1))], [n |-> "div", e |-> Bin("/", A, LN(2))], [n |-> "mod", e |-> Bin("%", A, LN(2))],
  [n |-> "intdiv", e |-> Bin("div", A, LN(2))],
  \* zero divisors: an error in the specification - whatever the engine does, no +Inf / NaN may come out
  [n |-> "div0", e |-> Bin("/", A, Bin("-", A, A))], [n |-> "intdiv0", e |-> Bin("div", A, Bin("-", A, A))],
  [n |-> "mod0", e |-> Bin("%", A, Bin("-", A, A))],
  [n |-> "subasync", e |-> Sub(NQ(<<Item(FnQ("async", "concat", <<Col("p"), X>>), "q")>>, None))],
  [n |-> "neg", e |-> Un("-", A)], [n |-> "tilde", e |-> Un("~", A)],
  [n |-> "case", e |-> CaseE(<<[c |-> CmpE(">", A, LN(1)), v |-> S_]>>, A)],
  [n |-> "casenoelse", e |-> CaseE(<<[c |-> CmpE(">", A, LN(1)), v |-> Bin("*", A, LN(2))]>>, None)],
  [n |-> "concat", e |-> Fn("concat", <<S_, X>>)], [n |-> "array", e |-> Fn("array", <<A, S_>>)],
  [n |-> "if", e |-> Fn("if", <<CmpE(">", A, LN(1)), S_, A>>)], [n |-> "first", e |-> Fn("first", <<Col("n")>>)],
  [n |-> "upper", e |-> Fn("to_upper", <<S_>>)], [n |-> "unwind", e |-> Fn("unwind", <<Col("n")>>)],
  [n |-> "objcol", e |-> Col("o")], [n |-> "arrcol", e |-> Col("n")],
  [n |-> "sub", e |-> Sub(NQ(<<Item(Col("p"), "")>>, None))],
  [n |-> "subagg", e |-> Sub(NQ(<<Item(Agg("count", <<>>), "k")>>, None))],
  [n |-> "async", e |-> FnQ("async", "concat", <<S_, X>>)], [n |-> "scoped", e |-> FnQ("scoped", "concat", <<S_, X>>)],
  [n |-> "nestedfn", e |-> Fn("concat", <<Fn("to_upper", <<S_>>), Bin("+", A, LN(1))>>)] }
Scalarish == {"col", "path", "missing", "num", "str", "add", "div", "mod", "neg", "tilde", "case", "casenoelse", "concat", "if", "upper", "scoped", "nestedfn"}

I(e, as) == Item(e, as)
T == Table(<<"t">>, "")
SelQ(sel, where) == [BaseQ EXCEPT !.sel = sel, !.where = where]

\* every clause position
Queries(f) ==
  {[pos |-> "select",   q |-> SelQ(<<I(f.e, "v")>>, None)],
   [pos |-> "star",     q |-> SelQ(<<Star, I(f.e, "v")>>, None)],
   [pos |-> "where",    q |-> SelQ(<<I(A, "")>>, IsE("notnull", f.e))],
   [pos |-> "casearm",  q |-> SelQ(<<I(CaseE(<<[c |-> CmpE(">", A, LN(1)), v |-> f.e]>>, f.e), "v")>>, None)],
   [pos |-> "fnarg",    q |-> SelQ(<<I(Fn("array", <<f.e, LN(1)>>), "v")>>, None)],
   [pos |-> "ifarg",    q |-> SelQ(<<I(Fn("if", <<CmpE(">", A, LN(1)), f.e, LN(0)>>), "v")>>, None)],
   [pos |-> "having",   q |-> [SelQ(<<I(Col("g"), ""), I(Agg("count", <<>>), "k")>>, None) EXCEPT !.group = <<"g">>,
                                 !.having = OrE(IsE("notnull", f.e), CmpE(">", Agg("count", <<>>), LN(0)))]],
   [pos |-> "distinct", q |-> [SelQ(<<I(f.e, "v")>>, None) EXCEPT !.distinct = TRUE]]} \cup
  (IF f.n \in Scalarish
   THEN {[pos |-> "orderkey", q |-> [SelQ(<<I(f.e, "v"), I(A, "")>>, None) EXCEPT !.order = <<[key |-> <<"v">>, asc |-> TRUE], [key |-> <<"a">>, asc |-> FALSE]>>]],
         [pos |-> "cmp",      q |-> SelQ(<<I(A, "")>>, CmpE("=", f.e, f.e))],
         [pos |-> "inlist",   q |-> SelQ(<<I(A, "")>>, InE(FALSE, f.e, <<f.e, LN(7)>>))]}
   ELSE {})

\* statement-level forms
Whole == {
  [pos |-> "groupagg", q |-> [SelQ(<<I(Col("g"), ""), I(Agg("sum", <<"a">>), "x"), I(Agg("max", <<"a">>), "y"), I(Agg("avg", <<"a">>), "z")>>, None) EXCEPT !.group = <<"g">>]],
  [pos |-> "groupstar", q |-> [SelQ(<<Star>>, None) EXCEPT !.group = <<"g">>]],
  [pos |-> "wholeagg", q |-> SelQ(<<I(Agg("count", <<>>), "k"), I(Agg("min", <<"a">>), "m")>>, CmpE(">", A, LN(1)))],
  [pos |-> "cte",      q |-> [[BaseQ EXCEPT !.from = Table(<<"c">>, "")] EXCEPT !.with = <<[name |-> "c", q |-> SelQ(<<I(A, ""), I(Col("n"), "")>>, None)]>>]],
  [pos |-> "derived",  q |-> [BaseQ EXCEPT !.from = Derived(SelQ(<<I(A, ""), I(S_, "")>>, None), "x")]],
  [pos |-> "union",    q |-> [k |-> "union", l |-> SelQ(<<I(A, "")>>, None), r |-> [BaseQ EXCEPT !.sel = <<I(Col("c"), "a")>>, !.from = Table(<<"u">>, "")], all |-> FALSE, limit |-> -1, offset |-> -1]],
  [pos |-> "exists",   q |-> SelQ(<<Star>>, Exists(NQ(<<Star>>, CmpE(">=", Col("p"), A))))],
  [pos |-> "insub",    q |-> SelQ(<<Star>>, InSub(A, [BaseQ EXCEPT !.sel = <<I(Col("c"), "")>>, !.from = Table(<<"<-", "u">>, "")]))],
  [pos |-> "limit",    q |-> [SelQ(<<Star>>, None) EXCEPT !.order = <<[key |-> <<"s">>, asc |-> FALSE], [key |-> <<"a">>, asc |-> TRUE]>>, !.limit = 2, !.offset = 1]],
  \* DISTINCT followed by an ORDER BY that leaves ties (two distinct rows share s): no grouping, no join - the
  \* sequence is the same on every evaluation, with and without a LIMIT cutting through the tie
  [pos |-> "distinctorder", q |-> [SelQ(<<I(S_, ""), I(A, "")>>, None) EXCEPT !.distinct = TRUE, !.order = <<[key |-> <<"s">>, asc |-> TRUE]>>]],
  [pos |-> "distinctorderlimit", q |-> [SelQ(<<I(S_, ""), I(A, "")>>, None) EXCEPT !.distinct = TRUE, !.order = <<[key |-> <<"s">>, asc |-> FALSE]>>, !.limit = 1]],
  \* joins on a key that is NULL / missing in some rows, by the nested loop and by the hash path: what such keys match
  \* is not claimed anywhere (the comparison of the specification is the engine's as far as the drift report goes),
  \* that a repetition returns the same multiset is
  [pos |-> "joinnull", q |-> [BaseQ EXCEPT !.from = [k |-> "join", type |-> "inner", kw |-> "", l |-> Table(<<"w">>, "y"), r |-> Table(<<"t">>, "x"),
                                                    on |-> CmpE("<=", ColP(<<"x", "a">>), ColP(<<"y", "c">>))]]],
  [pos |-> "joinnullinner2", q |-> [BaseQ EXCEPT !.from = [k |-> "join", type |-> "inner", kw |-> "", l |-> Table(<<"t">>, "x"), r |-> Table(<<"w">>, "y"),
                                                    on |-> CmpE("!=", ColP(<<"x", "a">>), ColP(<<"y", "c">>))]]],
  [pos |-> "joinnullleft", q |-> [BaseQ EXCEPT !.from = [k |-> "join", type |-> "left", kw |-> "", l |-> Table(<<"t">>, "x"), r |-> Table(<<"w">>, "y"),
                                                    on |-> CmpE(">", ColP(<<"x", "a">>), ColP(<<"y", "c">>))]]],
  [pos |-> "joinnullhash", q |-> [BaseQ EXCEPT !.from = [k |-> "join", type |-> "right", kw |-> "", l |-> Table(<<"t">>, "x"), r |-> Table(<<"w">>, "y"),
                                                    on |-> CmpE("=", ColP(<<"x", "a">>), ColP(<<"y", "c">>))]]],
  \* a join cut by a window without ORDER BY: which rows the window keeps is open, that a repetition keeps the same ones is not
  [pos |-> "joinlimit", q |-> [BaseQ EXCEPT !.limit = 1, !.from = [k |-> "join", type |-> "inner", kw |-> "", l |-> Table(<<"t">>, "x"), r |-> Table(<<"u">>, "y"),
                                                    on |-> CmpE(">=", ColP(<<"x", "a">>), ColP(<<"y", "c">>))]]],
  [pos |-> "joinlimithash", q |-> [BaseQ EXCEPT !.limit = 1, !.offset = 1, !.from = [k |-> "join", type |-> "left", kw |-> "", l |-> Table(<<"w">>, "y"), r |-> Table(<<"t">>, "x"),
                                                    on |-> CmpE("=", ColP(<<"x", "a">>), ColP(<<"y", "c">>))]]],
  [pos |-> "joinlimitpar", q |-> [BaseQ EXCEPT !.limit = 2, !.from = [k |-> "join", type |-> "inner", kw |-> "PARALLEL JOIN", l |-> Table(<<"t">>, "x"), r |-> Table(<<"w">>, "y"),
                                                    on |-> CmpE("!=", ColP(<<"x", "a">>), ColP(<<"y", "c">>))]]],
  [pos |-> "joinlimitparhash", q |-> [BaseQ EXCEPT !.limit = 1, !.from = [k |-> "join", type |-> "inner", kw |-> "PARALLEL HASH_JOIN", l |-> Table(<<"u">>, "y"), r |-> Table(<<"t">>, "x"),
                                                    on |-> CmpE("=", ColP(<<"x", "a">>), ColP(<<"y", "c">>))]]],
  \* FROM dual: the document as the one row, at the top and inside a row-scoped subquery
  [pos |-> "dualstar",  q |-> [BaseQ EXCEPT !.from = Dual]],
  [pos |-> "dualitems", q |-> [BaseQ EXCEPT !.from = Dual, !.sel = <<I(Col("u"), ""), I(LN(2), "two"), I(Fn("first", <<Col("t")>>), "f"), Star>>]],
  [pos |-> "dualsub",   q |-> SelQ(<<I(A, ""), I(Sub([BaseQ EXCEPT !.from = Dual]), "x"), I(Sub([BaseQ EXCEPT !.from = Dual, !.sel = <<I(S_, "t"), Star>>]), "y")>>, None)],
  [pos |-> "spin",     q |-> SelQ(<<I(A, ""), I(FnQ("spin", "concat", <<S_, X>>), "v"), I(FnQ("spinasync", "concat", <<S_, X>>), "w")>>, None)],
  [pos |-> "asyncmix", q |-> SelQ(<<I(FnQ("async", "concat", <<S_, X>>), "v"), I(A, ""), I(FnQ("async", "concat", <<A, X>>), "w")>>, None)] }

Init == /\ \E d \in Docs :
             \/ \E f \in Forms : \E c \in Queries(f) : cs = [fam |-> c.pos, form |-> f.n, q |-> c.q, doc |-> d]
             \/ \E c \in Whole : cs = [fam |-> c.pos, form |-> "stmt", q |-> c.q, doc |-> d]
        /\ EngineInit
Next == EngineNext
Spec == Init /\ [][Next]_vars

---------------------------------------------------------------------------
\* a value is plain data: scalars, arrays and objects thereof; no marker key, nothing engine-internal
RECURSIVE Plain(_)
Plain(v) == CASE v.t \in {"null", "bool", "num", "str"} -> TRUE
              [] v.t = "arr" -> \A i \in DOMAIN v.e : Plain(v.e[i])
              [] v.t = "obj" -> ~("<-" \in DOMAIN v.f) /\ \A k \in DOMAIN v.f : Plain(v.f[k])
              [] OTHER -> FALSE
PlainOK == Ok => Plain(res)
\* the meaning is a function of (query, document): a second evaluation gives the same value
Deterministic == Done => res = TopRun(cs.q, cs.doc)

Export == Done => PrintT(ToJson([q |-> cs.q, doc |-> cs.doc, fam |-> cs.fam, form |-> cs.form, hist |-> hist, res |-> res,
                                 ties |-> (cs.q.k = "select" /\ cs.q.order # <<>> /\ HasStage("distinct") /\ HasTies(Stage("distinct"), cs.q.order))]))
=============================================================================
