------------------------------- MODULE Genql -------------------------------
(***************************************************************************)
(* Sequential data semantics of a genql query (kind K1 of DESIGN.md):       *)
(* what New + Exec *mean* on a JSON-like document.  One recursive           *)
(* evaluator for expressions (Ev) and one for queries (RunQ); the pipeline  *)
(* stages are separate operators so that Engine.tla can take them one       *)
(* action at a time and EngineTrace.tla can re-evaluate a single logged     *)
(* stage.                                                                   *)
(*                                                                         *)
(* Abstract syntax (records; also the JSON wire format):                    *)
(*  expression e:                                                           *)
(*   [k|->"col", p|->Seq(STRING)]         column / nested path              *)
(*   [k|->"lit", v|->Value]               number, string, bool or NULL      *)
(*   [k|->"bin", op, l, r]   op \in + - * / div % & | ^ << >>               *)
(*   [k|->"un",  op, e]      op \in - ~ !                                    *)
(*   [k|->"cmp", op, l, r]   op \in = != < <= > >=                          *)
(*   [k|->"like", neg, l, r]                                                *)
(*   [k|->"in", neg, l, list|->Seq(e)]    [k|->"insub", l, q, neg?]             *)
(*   [k|->"between", neg, e, lo, hi]                                        *)
(*   [k|->"is", op, e]  op \in null notnull true false nottrue notfalse     *)
(*   [k|->"and", l, r]  [k|->"or", l, r]  [k|->"not", e]                    *)
(*   [k|->"case", whens|->Seq([c, v]), els]   els = [k|->"none"] if absent  *)
(*   [k|->"agg", f, p]       f \in count sum min max avg; p = <<>> is `*`   *)
(*   [k|->"fn", f, args]     built-in scalar function (Builtins.tla)        *)
(*   [k|->"sub", q]  [k|->"exists", q]                                      *)
(*  select item: [k|->"star"]  or  [k|->"item", e, as]  (as = "" : none)     *)
(*  (a star may carry a qualifier, [k|->"star", qual]: as coded the          *)
(*  qualifier is not looked at)                                              *)
(*  from: [k|->"table", p|->Seq(STRING), as]                                *)
(*        [k|->"derived", q, as]                                            *)
(*        [k|->"join", ...]   (Joins.tla)                                   *)
(*  query: [k|->"select", with|->Seq([name, q]), sel, from, where, group,    *)
(*          having, distinct, order|->Seq([key|->Seq(STRING), asc]),         *)
(*          group|->Seq(STRING),                                            *)
(*          limit, offset]      where/having = [k|->"none"] if absent        *)
(*         [k|->"union", l, r, all, limit, offset]                           *)
(***************************************************************************)
EXTENDS Selector

None == [k |-> "none"]
IsNone(e) == e.k = "none"

---------------------------------------------------------------------------
\* bit operations on naturals (the engine converts operands to int64)
RECURSIVE BitOp(_, _, _)
BitOp(op, a, b) ==
    IF a = 0 /\ b = 0 THEN 0
    ELSE LET x == a % 2
             y == b % 2
             r == CASE op = "&" -> IF x = 1 /\ y = 1 THEN 1 ELSE 0
                    [] op = "|" -> IF x = 1 \/ y = 1 THEN 1 ELSE 0
                    [] OTHER    -> IF x # y THEN 1 ELSE 0
         IN  r + 2 * BitOp(op, a \div 2, b \div 2)

RECURSIVE Pow2(_)
Pow2(n) == IF n = 0 THEN 1 ELSE 2 * Pow2(n - 1)

\* selector key step(s): descend objects, map over arrays, NULL stays NULL
RECURSIVE PathGet(_, _)
PathGet(v, p) ==
    IF p = <<>> THEN v
    ELSE IF IsNull(v) THEN Null
    ELSE IF IsObj(v) THEN PathGet(Get(v, Head(p)), Tail(p))
    ELSE IF IsArr(v) THEN LET r == [i \in 1..Len(v.e) |-> PathGet(v.e[i], p)]
                          IN  IF AnyErr(r) THEN Err ELSE ArrV(r)
    ELSE Err

NoMarker(o) == ObjV([x \in (DOMAIN o.f) \ {"<-"} |-> o.f[x]])

\* arithmetic on two non-NULL numbers; Err where the statement fixes no meaning
Arith(op, a, b) ==
    CASE op = "+" -> RAdd(a, b)
      [] op = "-" -> RSub(a, b)
      [] op = "*" -> RMul(a, b)
      [] op = "/" -> IF RIsZero(b) THEN Err ELSE RDiv(a, b)
      [] op = "div" -> IF Trunc(b) = 0 THEN Err
                       ELSE LET x == Trunc(a)
                                y == Trunc(b)
                                m == Abs(x) \div Abs(y)
                            IN  NumV(IF (x < 0) # (y < 0) THEN -m ELSE m)
      [] op = "%" -> IF RIsZero(b) THEN Err
                     ELSE RSub(a, RMul(b, NumV(Trunc(RDiv(a, b)))))
      [] op \in {"&", "|", "^"} ->
             IF Trunc(a) < 0 \/ Trunc(b) < 0 THEN Err
             ELSE NumV(BitOp(op, Trunc(a), Trunc(b)))
      [] op = "<<" -> IF Trunc(b) < 0 \/ Trunc(b) > 16 THEN Err ELSE NumV(Trunc(a) * Pow2(Trunc(b)))
      [] op = ">>" -> IF Trunc(b) < 0 \/ Trunc(b) > 16 \/ Trunc(a) < 0 THEN Err
                      ELSE NumV(Trunc(a) \div Pow2(Trunc(b)))
      [] OTHER -> Err

CmpHolds(op, c) ==
    CASE op = "="  -> c = 0
      [] op = "!=" -> c # 0
      [] op = "<"  -> c < 0
      [] op = "<=" -> c <= 0
      [] op = ">"  -> c > 0
      [] op = ">=" -> c >= 0
      [] OTHER     -> FALSE

\* aggregate over a list of column values
RECURSIVE SumSeq(_)
SumSeq(s) == IF s = <<>> THEN NumV(0) ELSE RAdd(Head(s), SumSeq(Tail(s)))

NonNull(s) == FilterSeq(s, {i \in DOMAIN s : ~IsNull(s[i])})

Aggregate(f, vals, nrows) ==
    LET nn == NonNull(vals) IN
    CASE f = "count" -> NumV(nrows)
      [] \E i \in DOMAIN nn : ~IsNum(nn[i]) -> Err
      [] nn = <<>> -> Null
      [] f = "sum" -> SumSeq(nn)
      \* AVG is claimed on NULL-free columns only (SUM / COUNT); with NULL members its value is left open
      [] f = "avg" -> IF Len(nn) # Len(vals) THEN Unspec ELSE RDiv(SumSeq(nn), NumV(Len(vals)))
      [] f = "min" -> CHOOSE m \in Range(nn) : \A x \in Range(nn) : RCmp(m, x) <= 0
      [] f = "max" -> CHOOSE m \in Range(nn) : \A x \in Range(nn) : RCmp(m, x) >= 0
      [] OTHER -> Err

---------------------------------------------------------------------------
\* ORDER BY

\* the comparator of sort.go: keys = Seq([key |-> path, asc |-> BOOLEAN])
RECURSIVE Less(_, _, _)
Less(x, y, keys) ==
    IF keys = <<>> THEN FALSE
    ELSE LET a == PathGet(x, Head(keys).key)
             b == PathGet(y, Head(keys).key)
         IN  IF IsNull(a) THEN FALSE
             ELSE IF IsNull(b) THEN TRUE
             ELSE LET c == Cmp(a, b)
                  IN  IF c = 0 THEN Less(x, y, Tail(keys))
                      ELSE IF Head(keys).asc THEN c < 0 ELSE c > 0

\* what ORDER BY promises: a permutation in which no adjacent pair is inverted
OrderOK(in, out, keys) ==
    /\ BagEq(in, out)
    /\ \A i \in 1..(Len(out) - 1) : ~Less(out[i + 1], out[i], keys)

\* canonical (stable insertion) sort - one of the outputs OrderOK allows
RECURSIVE InsertSorted(_, _, _)
InsertSorted(s, x, keys) ==
    IF s = <<>> THEN <<x>>
    ELSE IF Less(x, Head(s), keys) THEN <<x>> \o s
    ELSE <<Head(s)>> \o InsertSorted(Tail(s), x, keys)

SortStable(s, keys) ==
    LET F[i \in 0..Len(s)] == IF i = 0 THEN <<>> ELSE InsertSorted(F[i - 1], s[Len(s) - i + 1], keys)
    IN  F[Len(s)]

KeyTuple(x, keys) == [i \in 1..Len(keys) |-> PathGet(x, keys[i].key)]

\* TRUE iff the order of the output is not determined by the keys alone
HasTies(s, keys) == \E i, j \in DOMAIN s : i < j /\ s[i] # s[j] /\ ~Less(s[i], s[j], keys) /\ ~Less(s[j], s[i], keys)

---------------------------------------------------------------------------
\* expressions and queries (mutually recursive)

RECURSIVE Ev(_, _, _), RunQ(_, _), EvList(_, _, _), Pipeline(_, _, _), Source(_, _), BindCtes(_, _)
RECURSIVE StWhere(_, _, _), StSelect(_, _, _), JoinRows(_, _)

ItemName(it) == IF it.as # "" THEN it.as
                ELSE IF it.e.k = "col" THEN it.e.p[Len(it.e.p)] ELSE "?"

\* the row as an expression sees it while its query runs on `data`
Marked(row, data) == Put(row, "<-", data)

EvList(es, row, data) == [i \in 1..Len(es) |-> Ev(es[i], row, data)]

Ev(e, row, data) ==
    CASE e.k = "col" -> PathGet(row, e.p)
      [] e.k = "lit" -> e.v
      [] e.k = "bin" ->
            LET a == Ev(e.l, row, data)
                b == Ev(e.r, row, data)
            \* as coded: a NULL left operand yields NULL before the right operand is looked at
            IN  IF IsErr(a) THEN Err
                ELSE IF IsNull(a) THEN Null
                ELSE IF ~IsNum(a) \/ IsErr(b) THEN Err
                ELSE IF IsNull(b) THEN Null
                ELSE IF ~IsNum(b) THEN Err
                ELSE Arith(e.op, a, b)
      [] e.k = "un" ->
            LET a == Ev(e.e, row, data)
            IN  IF IsErr(a) \/ IsNull(a) THEN Err
                ELSE IF e.op = "-" THEN (IF IsNum(a) THEN RNeg(a) ELSE Err)
                ELSE IF e.op = "~" THEN (IF IsNum(a) THEN NumV(-Trunc(a) - 1) ELSE Err)
                ELSE IF e.op = "!" THEN (IF IsBool(a) THEN BoolV(~a.b) ELSE Err)
                ELSE Err
      \* SUBSTR(s, from, len) as coded: the bytes from .. from+len of a string (positions from 0, both truncated);
      \* anything else - a NULL or non-string s, a non-numeric position, a range outside the string - is an error.
      \* Bytes and code points coincide for ASCII only: other strings are left open
      [] e.k = "substr" ->
            LET s == Ev(e.s, row, data)
                f == Ev(e.from, row, data)
                n == Ev(e.len, row, data)
            IN  IF IsErr(s) \/ IsErr(f) \/ IsErr(n) THEN Err
                ELSE IF ~IsStr(s) \/ ~IsNum(f) \/ ~IsNum(n) THEN Err
                ELSE IF \E i \in DOMAIN s.c : s.c[i] > 127 THEN Unspec
                ELSE LET lo == Trunc(f)
                         hi == Trunc(RAdd(f, n))
                     IN  IF lo < 0 \/ hi > Len(s.c) \/ lo > hi THEN Err ELSE StrV(SubSeq(s.c, lo + 1, hi))
      [] e.k = "cmp" ->
            LET a == Ev(e.l, Marked(row, data), data)
                b == Ev(e.r, Marked(row, data), data)
            IN  IF IsErr(a) \/ IsErr(b) THEN Err
                ELSE IF ~IsScalar(a) \/ ~IsScalar(b) THEN Err
                ELSE BoolV(CmpHolds(e.op, Cmp(a, b)))
      [] e.k = "like" ->
            LET a == Ev(e.l, row, data)
                b == Ev(e.r, row, data)
            IN  IF IsErr(a) \/ IsErr(b) \/ ~IsScalar(a) \/ ~IsScalar(b) THEN Err
                ELSE BoolV(LikeM(Text(a), Text(b)) # e.neg)
      [] e.k = "in" ->
            LET a  == Ev(e.l, row, data)
                vs == EvList(e.list, row, data)
            IN  IF IsErr(a) \/ AnyErr(vs) \/ ~IsScalar(a) THEN Err
                ELSE BoolV((\E i \in DOMAIN vs : IsScalar(vs[i]) /\ Cmp(a, vs[i]) = 0) # e.neg)
      [] e.k = "insub" ->
            LET a  == Ev(e.l, Marked(row, data), data)
                rs == RunQ(e.q, Marked(row, data))
            IN  IF IsErr(a) \/ IsErr(rs) \/ ~IsArr(rs) THEN Err
                \* (NOT IN over a subquery - field neg, optional - is the complement)
                ELSE BoolV((\E i \in DOMAIN rs.e :
                             /\ IsObj(rs.e[i])
                             /\ \E kk \in Keys(rs.e[i]) : Cmp(a, rs.e[i].f[kk]) = 0) # ("neg" \in DOMAIN e /\ e.neg))
      [] e.k = "between" ->
            LET a  == Ev(e.e, row, data)
                lo == Ev(e.lo, row, data)
                hi == Ev(e.hi, row, data)
            IN  IF IsErr(a) \/ IsErr(lo) \/ IsErr(hi) \/ ~IsScalar(a) \/ ~IsScalar(lo) \/ ~IsScalar(hi) THEN Err
                ELSE BoolV((Cmp(a, lo) >= 0 /\ Cmp(a, hi) <= 0) # e.neg)
      [] e.k = "is" ->
            LET a == Ev(e.e, row, data)
            IN  IF IsErr(a) THEN Err
                ELSE IF e.op = "null" THEN BoolV(IsNull(a))
                ELSE IF e.op = "notnull" THEN BoolV(~IsNull(a))
                ELSE IF ~IsBool(a) THEN Err
                ELSE IF e.op \in {"true", "notfalse"} THEN BoolV(a.b)
                ELSE BoolV(~a.b)
      [] e.k \in {"and", "or"} ->
            LET a == Ev(e.l, row, data)
                b == Ev(e.r, row, data)
            IN  IF ~IsBool(a) \/ ~IsBool(b) THEN Err
                ELSE BoolV(IF e.k = "and" THEN a.b /\ b.b ELSE a.b \/ b.b)
      [] e.k = "not" ->
            LET a == Ev(e.e, row, data)
            IN  IF ~IsBool(a) THEN Err ELSE BoolV(~a.b)
      [] e.k = "case" ->
            LET cs == [i \in 1..Len(e.whens) |-> Ev(e.whens[i].c, row, data)]
                \* the engine evaluates conditions in order and stops at the first true one
                hit == {i \in DOMAIN cs : IsBool(cs[i]) /\ cs[i].b}
                bad == {i \in DOMAIN cs : ~IsBool(cs[i])}
                first == IF hit = {} THEN Len(cs) + 1 ELSE CHOOSE i \in hit : \A j \in hit : i <= j
            IN  IF \E i \in bad : i < first THEN Err
                ELSE IF hit # {} THEN Ev(e.whens[first].v, row, data)
                ELSE IF IsNone(e.els) THEN Null
                ELSE Ev(e.els, row, data)
      [] e.k = "agg" ->
            LET members == Get(row, "*")
            IN  IF ~IsArr(members) THEN Err
                ELSE IF e.p = <<>> THEN Aggregate(e.f, <<>>, Len(members.e))
                ELSE LET col == PathGet(members, e.p)
                     IN  IF ~IsArr(col) THEN Err ELSE Aggregate(e.f, col.e, Len(col.e))
      [] e.k = "fn" ->
            \* execution strategies change timing, not values (C14): ASYNC / SCOPED evaluate to the
            \* call's value, SPIN / SPINASYNC contribute no column; ONCE is stateful and left open here
            LET qual == IF "qual" \in DOMAIN e THEN e.qual ELSE ""
                v    == Builtin(e.f, EvList(e.args, row, data), Null)
            IN  IF qual \in {"spin", "spinasync"} THEN (IF IsErr(v) THEN Err ELSE [t |-> "omit"])
                ELSE IF qual = "once" THEN Unspec
                ELSE v
      [] e.k = "sub" -> RunQ(e.q, Marked(row, data))
      [] e.k = "exists" ->
            \* the subquery's source rows, each extended with the outer row's columns
            LET outer == Marked(row, data)
                src   == Source(e.q.from, outer)
            IN  IF ~IsArr(src) THEN Err
                ELSE IF \E i \in DOMAIN src.e : ~IsObj(src.e[i]) THEN Err
                ELSE LET ext == [i \in 1..Len(src.e) |-> Merge(outer, src.e[i])]   \* the element's own columns hide the outer row's
                         rs  == Pipeline(e.q, outer, ext)
                     IN  IF IsErr(rs) THEN Err ELSE BoolV(Len(rs.e) > 0)
      [] OTHER -> Err

---------------------------------------------------------------------------
\* FROM

Wrap(rows, as) == IF as = "" THEN rows ELSE [i \in 1..Len(rows) |-> Obj1(as, rows[i])]

AsRows(v) == IF IsArr(v) THEN v.e ELSE IF IsObj(v) THEN <<v>> ELSE <<>>

Source(from, data) ==
    CASE from.k = "table" ->
            LET v == PathGet(data, from.p)
            IN  IF IsErr(v) THEN Err
                ELSE IF IsNull(v) THEN ArrV(<<>>)
                ELSE IF IsArr(v) \/ IsObj(v) THEN ArrV(Wrap(AsRows(v), from.as))
                ELSE Err
      [] from.k = "sel" ->
            \* a FROM path in the selector language (Selector.tla), e.g. `c[0].n`
            LET v == EvalSel(data, from.sel)
            IN  IF IsErr(v) \/ IsAny(v) THEN Err
                ELSE IF IsNull(v) THEN ArrV(<<>>)
                ELSE IF IsArr(v) \/ IsObj(v) THEN ArrV(Wrap(AsRows(v), from.as))
                ELSE Err
      [] from.k = "derived" ->
            LET v == RunQ(from.q, data)
            IN  IF IsErr(v) THEN Err ELSE ArrV(Wrap(AsRows(v), from.as))
      [] from.k = "join" -> JoinRows(from, data)
      [] OTHER -> Err

\* WITH: each CTE sees the document extended with the CTEs before it
BindCtes(with, data) ==
    IF with = <<>> THEN data
    ELSE LET v == RunQ(Head(with).q, data)
         IN  IF IsErr(v) THEN Err ELSE BindCtes(Tail(with), Put(data, Head(with).name, v))

---------------------------------------------------------------------------
\* pipeline stages (each returns ArrV(rows) or Err)

RowPasses(q, data, row) ==
    IF IsNone(q.where) THEN BoolV(TRUE) ELSE Ev(q.where, row, data)

\* WHERE over a flat source; an element that is itself an array is a further
\* dimension: the whole query is applied inside it (property C08)
StWhere(q, data, rows) ==
    LET r == [i \in 1..Len(rows) |->
                 IF IsArr(rows[i]) THEN Pipeline(q, data, rows[i].e)
                 ELSE IF IsObj(rows[i]) THEN RowPasses(q, data, rows[i])
                 ELSE BoolV(FALSE)]
    IN  IF \E i \in DOMAIN r : IsErr(r[i]) \/ (IsObj(rows[i]) /\ ~IsBool(r[i])) THEN Err
        ELSE ArrV(Concat([i \in 1..Len(rows) |->
                     IF IsArr(rows[i]) THEN <<r[i]>>
                     ELSE IF r[i].b THEN <<rows[i]>> ELSE <<>>]))

\* grouping columns are plain column names (q.group \in Seq(STRING)); over an aliased table they are written with the
\* alias as their qualifier (q.gqual, optional): GROUP BY r.g reads r.g, and the group row holds the key where the select
\* list, HAVING and ORDER BY read it back - under r
GQual(q) == IF "gqual" \in DOMAIN q THEN q.gqual ELSE ""
\* the ORDER BY of a union (optional field)
UOrder(q) == IF "order" \in DOMAIN q THEN q.order ELSE <<>>
GroupKey(q, row) == [i \in 1..Len(q.group) |-> IF GQual(q) = "" THEN Get(row, q.group[i]) ELSE PathGet(row, <<GQual(q), q.group[i]>>)]

\* groups in order of first appearance; each group row = grouping columns + "*" -> members
StGroup(q, data, rows) ==
    IF q.group = <<>> THEN ArrV(rows)
    ELSE LET ks   == [i \in 1..Len(rows) |-> GroupKey(q, rows[i])]
             dk   == Dedup(ks)
             grow(k) == LET mem == FilterSeq(rows, {i \in DOMAIN rows : ks[i] = k})
                            keys == [x \in Range(q.group) |-> k[CHOOSE j \in DOMAIN q.group : q.group[j] = x]]
                        IN  IF GQual(q) = ""
                            THEN ObjV([x \in Range(q.group) \cup {"*"} |-> IF x = "*" THEN ArrV(mem) ELSE keys[x]])
                            ELSE ObjV([x \in {GQual(q), "*"} |-> IF x = "*" THEN ArrV(mem) ELSE ObjV(keys)])
             all  == [i \in 1..Len(dk) |-> grow(dk[i])]
             hv   == [i \in 1..Len(all) |-> IF IsNone(q.having) THEN BoolV(TRUE) ELSE Ev(q.having, all[i], data)]
         IN  IF \E i \in DOMAIN ks : AnyErr(ks[i]) THEN Err
             ELSE IF \E i \in DOMAIN hv : ~IsBool(hv[i]) THEN Err
             ELSE ArrV(FilterSeq(all, {i \in DOMAIN all : hv[i].b}))

IsAllAggr(q) == /\ q.sel # <<>>
                /\ \A i \in DOMAIN q.sel : q.sel[i].k = "item" /\ q.sel[i].e.k = "agg"

\* FUSE(obj) as a select item blends the keys of obj into the output row - under "<alias>.<key>" when the item has an
\* alias (SelectExpr); FUSE(NULL) is an ordinary NULL column
IsFuse(it) == it.k = "item" /\ it.e.k = "fn" /\ it.e.f = "fuse" /\ ~("qual" \in DOMAIN it.e)
FuseName(it, k) == IF it.as = "" THEN k ELSE it.as \o "." \o k

\* the columns select item i contributes to the output row (a function name -> value): a star all columns of the source
\* row, an item whose value is the omit marker (SETVAR, SPIN ...) none, a FUSE item the keys of its object, any other
\* item the one column that carries its name
Contrib(q, row, vals, i) ==
    LET it == q.sel[i] IN
    IF it.k = "star" THEN NoMarker(row).f
    ELSE IF vals[i].t = "omit" THEN [x \in {} |-> Null]
    ELSE IF IsFuse(it) /\ IsObj(vals[i])
         THEN LET ks == Keys(vals[i])
              IN  [x \in {FuseName(it, k) : k \in ks} |-> vals[i].f[CHOOSE k \in ks : FuseName(it, k) = x]]
    ELSE [x \in {ItemName(it)} |-> vals[i]]

\* one projected row: the items write their columns in select-list order, a later one over an earlier one
Project(q, data, row) ==
    LET vals == [i \in 1..Len(q.sel) |->
                    IF q.sel[i].k = "star" THEN Null ELSE Ev(q.sel[i].e, row, data)]
        c(i)  == Contrib(q, row, vals, i)
        names == UNION {DOMAIN c(i) : i \in DOMAIN q.sel}
        last(x) == CHOOSE i \in DOMAIN q.sel : x \in DOMAIN c(i) /\ \A j \in DOMAIN q.sel : x \in DOMAIN c(j) => j <= i
    IN  IF AnyErr(vals) THEN Err
        ELSE ObjV([x \in names |-> c(last(x))[x]])

StSelect(q, data, rows) ==
    IF q.group = <<>> /\ IsAllAggr(q)
    THEN LET r == Project(q, data, Obj1("*", ArrV(rows)))
         IN  IF IsErr(r) THEN Err ELSE ArrV(<<r>>)
    ELSE LET r == [i \in 1..Len(rows) |->
                     IF IsArr(rows[i]) THEN rows[i]          \* inner dimension: already projected
                     ELSE IF IsObj(rows[i]) THEN Project(q, data, rows[i])
                     ELSE Err]
         IN  IF AnyErr(r) THEN Err ELSE ArrV(r)

StDistinct(q, rows) == IF q.distinct THEN ArrV(Dedup(rows)) ELSE ArrV(rows)

\* canonical choice; the engine may return any sequence satisfying OrderOK
StOrder(q, rows) == IF q.order = <<>> THEN ArrV(rows) ELSE ArrV(SortStable(rows, q.order))

\* the OFFSET / LIMIT arithmetic of exec as coded (m, n = -1: clause absent)
WindowModel(s, m, n) ==
    LET offset == IF m # -1 THEN m ELSE 0
        limit  == IF n # -1 THEN n ELSE Len(s)
    IN  IF offset >= Len(s) THEN <<>>
        ELSE LET t == SubSeq(s, offset + 1, Len(s))
             IN  IF limit < Len(t) THEN SubSeq(t, 1, limit) ELSE t

StWindow(q, rows) == ArrV(Window(rows, q.offset, q.limit))

Pipeline(q, data, rows) ==
    LET w == StWhere(q, data, rows) IN
    IF IsErr(w) THEN Err ELSE
    LET g == StGroup(q, data, w.e) IN
    IF IsErr(g) THEN Err ELSE
    LET s == StSelect(q, data, g.e) IN
    IF IsErr(s) THEN Err ELSE
    StWindow(q, StOrder(q, StDistinct(q, s.e).e).e)

\* the value New + Exec return for query q on document data (ArrV(rows) or Err)
RunQ(q, data) ==
    IF q.k = "union" THEN
        LET a == RunQ(q.l, data)
            b == RunQ(q.r, data)
        IN  IF IsErr(a) \/ IsErr(b) THEN Err
            ELSE LET c == AsRows(a) \o AsRows(b)
                     u == IF q.all THEN c ELSE Dedup(c)
                 \* an ORDER BY behind the last branch (q.order, optional) sorts the combined result, the window comes last
                 IN  ArrV(Window(IF UOrder(q) = <<>> THEN u ELSE SortStable(u, UOrder(q)), q.offset, q.limit))
    ELSE IF q.from.k = "dual" THEN
        \* FROM dual: the document itself is the one row (the statement's own CTEs are no columns of it); as coded,
        \* exec runs the select list on it and returns that one OBJECT - a row-scoped subquery over dual therefore
        \* yields an object, and New + Exec wrap it into a one-row result (TopRun). WHERE / ORDER BY / LIMIT are not
        \* looked at on this path.
        LET d == BindCtes(q.with, data) IN
        IF IsErr(d) THEN Err ELSE Project(q, d, NoMarker(data))
    ELSE
        LET d == BindCtes(q.with, data) IN
        IF IsErr(d) THEN Err ELSE
        LET src == Source(q.from, d) IN
        IF IsErr(src) THEN Err ELSE Pipeline(q, d, src.e)

\* what the caller gets from New + Exec: always an array of rows
TopRun(q, data) == LET r == RunQ(q, data) IN IF IsObj(r) THEN ArrV(<<r>>) ELSE r

---------------------------------------------------------------------------
\* joins: textbook meaning (the operational models of the code's hash join and
\* nested loop are in Joins.tla and are checked to refine this)

OnHolds(on, l, r, data) == Ev(on, Merge(l, r), data)

\* JOIN ... USING (c1, ..., cn) has no ON: as coded (BuildJoin) the condition is built from the two aliases,
\* ((TRUE AND l.c1 = r.c1) AND l.c2 = r.c2) ... - and TRUE AND TRUE when the list is empty
RECURSIVE UsingOn(_, _, _)
UsingOn(la, ra, cols) ==
    LET eq(c) == [k |-> "cmp", op |-> "=", l |-> [k |-> "col", p |-> <<la, c>>], r |-> [k |-> "col", p |-> <<ra, c>>]]
        T == [k |-> "lit", v |-> BoolV(TRUE)]
    IN  IF cols = <<>> THEN [k |-> "and", l |-> T, r |-> T]
        ELSE IF Len(cols) = 1 THEN [k |-> "and", l |-> T, r |-> eq(cols[1])]
        ELSE [k |-> "and", l |-> UsingOn(la, ra, SubSeq(cols, 1, Len(cols) - 1)), r |-> eq(cols[Len(cols)])]
JoinOn(from) == IF "using" \in DOMAIN from THEN UsingOn(from.l.as, from.r.as, from.using) ELSE from.on

JoinRows(from, data) ==
    LET L == Source(from.l, data)
        R == Source(from.r, data)
    IN  IF IsErr(L) \/ IsErr(R) THEN Err ELSE
    LET ls == L.e
        rs == R.e
        m  == [i \in 1..Len(ls) |-> [j \in 1..Len(rs) |-> OnHolds(JoinOn(from), ls[i], rs[j], data)]]
    IN  IF \E i \in DOMAIN ls : \E j \in DOMAIN rs : ~IsBool(m[i][j]) THEN Err ELSE
    LET pairs == Concat([i \in 1..Len(ls) |->
                    Concat([j \in 1..Len(rs) |-> IF m[i][j].b THEN <<Merge(ls[i], rs[j])>> ELSE <<>>])])
        lonely == IF from.type = "left"
                  THEN Concat([i \in 1..Len(ls) |->
                          IF \E j \in DOMAIN rs : m[i][j].b THEN <<>>
                          ELSE <<Put(ls[i], from.r.as, Null)>>])
                  ELSE IF from.type = "right"
                  THEN Concat([j \in 1..Len(rs) |->
                          IF \E i \in DOMAIN ls : m[i][j].b THEN <<>>
                          ELSE <<Put(rs[j], from.l.as, Null)>>])
                  ELSE <<>>
    IN  ArrV(pairs \o lonely)
=============================================================================
