------------------------------- MODULE MC_C03 -------------------------------
(* C03 - GROUP BY partitions the rows that passed WHERE; one output row per   *)
(* group satisfying HAVING, groups in order of first appearance; aggregates   *)
(* cover exactly their group; without GROUP BY an all-aggregate select list   *)
(* yields one row over the rows that passed WHERE.                            *)
EXTENDS Gen

CONSTANTS MaxRows,   \* rows per table
          Pool       \* how many of the pool rows are used

\* g, h: plain grouping columns; z: a grouping column with NULL keys and with values of
\* different kinds whose %v texts coincide (1 / "1", NULL / "<nil>"); a: numeric;
\* b: numeric with NULLs (SUM / MIN / MAX skip them)
One  == StrV(<<49>>)
NilS == StrV(<<60, 110, 105, 108, 62>>)
X == StrV(<<120>>)
Y == StrV(<<121>>)
R(g, h, z, a, b) == Row([g |-> NumV(g), h |-> h, z |-> z, a |-> NumV(a), b |-> b])
PoolRows == << R(0, X, Null, 1, NumV(2)), R(1, Y, NumV(1), 2, Null), R(0, Y, One, 5, NumV(4)),
               R(1, X, Null, 2, Null),    R(0, X, NilS, 3, NumV(2)), R(1, Y, NumV(1), 1, NumV(7)),
               R(0, Y, NumV(1), 4, Null), R(1, X, One, 2, NumV(1)) >>
Rows == {PoolRows[i] : i \in 1..Pool}

GroupSets == {<<"g">>, <<"h">>, <<"z">>, <<"g", "h">>, <<"z", "g">>}
ColItems(gs) == [i \in 1..Len(gs) |-> Item(Col(gs[i]), "")]
AI(f, c, as) == Item(Agg(f, IF c = "" THEN <<>> ELSE <<c>>), as)
Lists(gs) == {ColItems(gs) \o <<AI("count", "", "c")>>,
              ColItems(gs) \o <<AI("sum", "a", "s"), AI("sum", "b", "s2")>>,
              ColItems(gs) \o <<AI("min", "a", "mn"), AI("max", "a", "mx"), AI("max", "b", "mb")>>,
              ColItems(gs) \o <<AI("avg", "a", "av"), AI("count", "a", "ca")>>,
              <<AI("count", "", "c"), AI("sum", "a", "s")>>,
              \* aggregates over a grouping column itself: constant in its group, SUM and COUNT still cover every member
              ColItems(gs) \o <<AI("sum", "g", "sg"), AI("count", gs[1], "cg"), AI("avg", "g", "ag")>>,
              <<Star>>,
              <<AI("min", "b", "m"), AI("sum", "b", "s")>> \o ColItems(gs),
              \* several aggregates over one column, AVG first (its own value is open when the column has NULLs)
              ColItems(gs) \o <<AI("avg", "b", "av"), AI("sum", "b", "s"), AI("max", "b", "mx"), AI("count", "", "c")>>}
WH == {<<None, None>>,
       <<CmpE(">", Col("a"), LN(1)), None>>,
       <<None, CmpE(">", Agg("count", <<>>), LN(1))>>,
       <<CmpE("=", Col("g"), LN(0)), CmpE(">", Agg("sum", <<"a">>), LN(3))>>,
       <<None, CmpE(">", Agg("sum", <<"g">>), LN(1))>>,
       <<CmpE(">", Col("a"), LN(1)), CmpE("<=", Agg("max", <<"a">>), LN(2))>>}

\* without GROUP BY: select lists made only of aggregates
AggLists == {<<AI("avg", "b", "av"), AI("sum", "b", "s"), AI("min", "b", "m")>>,
             <<AI("count", "", "c")>>,
             <<AI("sum", "a", "s"), AI("sum", "b", "s2")>>,
             <<AI("min", "a", "mn"), AI("max", "b", "mb"), AI("avg", "a", "av"), AI("count", "", "c")>>,
             <<AI("sum", "a", "x"), AI("sum", "a", "y"), AI("min", "b", "m")>>}
AggWheres == {None, CmpE(">", Col("a"), LN(1)), CmpE(">", Col("a"), LN(100)), CmpE("=", Col("g"), LN(0)),
              AndE(CmpE("=", Col("h"), LS(<<120>>)), CmpE("<", Col("a"), LN(3)))}

\* the table under an alias, every column written with the alias as its qualifier (GROUP BY r.g): the grouping
\* columns, the aggregates' arguments, WHERE - among them WHERE r.z IS NULL, which leaves NULL keys only
QC(c) == ColP(<<"r", c>>)
QItems(gs) == [i \in 1..Len(gs) |-> Item(QC(gs[i]), "")]
QAI(f, c, as) == Item(Agg(f, IF c = "" THEN <<>> ELSE <<"r", c>>), as)
QLists(gs) == {QItems(gs) \o <<QAI("count", "", "c")>>,
               QItems(gs) \o <<QAI("sum", "a", "s"), QAI("max", "b", "mb")>>,
               QItems(gs) \o <<QAI("sum", "g", "sg"), QAI("count", gs[1], "cg")>>,
               <<QAI("count", "", "c"), QAI("min", "a", "mn")>>}
QWH == {<<None, None>>, <<IsE("null", QC("z")), None>>,
        <<CmpE(">", QC("a"), LN(1)), CmpE(">", Agg("count", <<>>), LN(1))>>}
QGroupSets == {<<"g">>, <<"z">>, <<"z", "g">>}

\* many groups on one column: more than eight distinct keys, later ones recurring
ManyKeys == {<<1, 2, 3, 4, 5, 6, 7, 8, 9, 9, 10, 3, 9>>, <<1, 2, 3, 4, 5, 6, 7, 8, 9, 10, 11, 10, 9, 1>>, <<9, 8, 7, 6, 5, 4, 3, 2, 1, 0, 1, 0>>}
ManyTable(ks) == [i \in 1..Len(ks) |-> R(ks[i], X, Null, i, IF i % 3 = 0 THEN Null ELSE NumV(i))]

\* two string grouping columns whose values, written one after the other, read the same for different rows:
\* ("a b", "c") / ("a", "b c"), ("1", "12") / ("11", "2")
Sp(c) == StrV(c)
SpRows == << R(0, Sp(<<97, 32, 98>>), Sp(<<99>>), 1, NumV(1)), R(0, Sp(<<97>>), Sp(<<98, 32, 99>>), 2, NumV(1)),
             R(0, Sp(<<97, 32, 98>>), Sp(<<99>>), 3, NumV(1)), R(0, Sp(<<49>>), Sp(<<49, 50>>), 4, NumV(1)),
             R(0, Sp(<<49, 49>>), Sp(<<50>>), 5, NumV(1)), R(0, Sp(<<97>>), Sp(<<98, 32, 99>>), 6, NumV(1)) >>
Init ==
    /\ \/ \E gs \in {<<"h", "z">>, <<"z", "h">>, <<"g", "h", "z">>} : \E sl \in {ColItems(gs) \o <<AI("count", "", "c"), AI("sum", "a", "s")>>, <<Star>>} : \E n \in {3, 6} :
            cs = [fam |-> "group", doc |-> Doc1("t", SubSeq(SpRows, 1, n)),
                  q |-> [BaseQ EXCEPT !.sel = sl, !.group = gs]]
       \/ \E ks \in ManyKeys : \E sl \in Lists(<<"g">>) : \E wh \in {<<None, None>>, <<CmpE(">", Col("a"), LN(1)), None>>} :
            cs = [fam |-> "group", doc |-> Doc1("t", ManyTable(ks)),
                  q |-> [BaseQ EXCEPT !.sel = sl, !.group = <<"g">>, !.where = wh[1], !.having = wh[2]]]
       \/ \E tbl \in SeqsUpTo(Rows, MaxRows) : \E gs \in GroupSets : \E sl \in Lists(gs) : \E wh \in WH :
            cs = [fam |-> "group", doc |-> Doc1("t", tbl),
                  q |-> [BaseQ EXCEPT !.sel = sl, !.group = gs, !.where = wh[1], !.having = wh[2]]]
       \/ \E tbl \in SeqsUpTo(Rows, MaxRows) : \E gs \in QGroupSets : \E sl \in QLists(gs) : \E wh \in QWH :
            cs = [fam |-> "group", doc |-> Doc1("t", tbl),
                  q |-> [gqual |-> "r"] @@ [BaseQ EXCEPT !.from = Table(<<"t">>, "r"), !.sel = sl, !.group = gs, !.where = wh[1], !.having = wh[2]]]
       \/ \E tbl \in SeqsUpTo(Rows, MaxRows) : \E sl \in AggLists : \E w \in AggWheres :
            cs = [fam |-> "whole", doc |-> Doc1("t", tbl), q |-> [BaseQ EXCEPT !.sel = sl, !.where = w]]
    /\ EngineInit

Next == EngineNext
Spec == Init /\ [][Next]_vars

---------------------------------------------------------------------------
Kept   == Stage("where")
Groups == Stage("group")                              \* after HAVING
AllGroups == StGroup([cs.q EXCEPT !.having = None], cs.doc, Kept).e
GS     == cs.q.group
\* (of a source row and of a group row alike: both hold the grouping columns under the qualifier, if there is one)
KeyOf(r)  == [i \in 1..Len(GS) |-> IF GQual(cs.q) = "" THEN Get(r, GS[i]) ELSE PathGet(r, <<GQual(cs.q), GS[i]>>)]
Members(g) == g.f["*"].e

Total == Done => ~IsErr(res)

\* every kept row lands in exactly one group; members keep source order
Partition ==
    (HasStage("group") /\ GS # <<>>) =>
        /\ BagEq(Concat([i \in 1..Len(AllGroups) |-> Members(AllGroups[i])]), Kept)
        /\ \A i \in DOMAIN AllGroups :
               Members(AllGroups[i]) = FilterSeq(Kept, {j \in DOMAIN Kept : KeyOf(Kept[j]) = KeyOf(AllGroups[i])})
        /\ \A i \in DOMAIN AllGroups : Members(AllGroups[i]) # <<>>

\* two rows share a group iff they agree on every grouping column; keys pairwise distinct
KeysDistinct ==
    (HasStage("group") /\ GS # <<>>) =>
        \A i, j \in DOMAIN AllGroups : i # j => KeyOf(AllGroups[i]) # KeyOf(AllGroups[j])

\* groups in order of first appearance of their key
FirstIdx(g) == CHOOSE j \in DOMAIN Kept : KeyOf(Kept[j]) = KeyOf(g) /\ \A k \in 1..(j - 1) : KeyOf(Kept[k]) # KeyOf(g)
FirstAppearance ==
    (HasStage("group") /\ GS # <<>>) =>
        \A i, j \in DOMAIN AllGroups : i < j => FirstIdx(AllGroups[i]) < FirstIdx(AllGroups[j])

\* HAVING keeps a subsequence of the groups
HavingFilters ==
    (HasStage("group") /\ GS # <<>>) =>
        Groups = FilterSeq(AllGroups, {i \in DOMAIN AllGroups :
                     IsNone(cs.q.having) \/ Ev(cs.q.having, AllGroups[i], cs.doc) = BoolV(TRUE)})

\* one output row per surviving group; sum of the group counts = rows that passed WHERE
OneRowPerGroup == (Ok /\ GS # <<>>) => Len(res.e) = Len(Groups)
CountsAddUp ==
    (HasStage("group") /\ GS # <<>>) =>
        SumSeq([i \in 1..Len(AllGroups) |-> Aggregate("count", <<>>, Len(Members(AllGroups[i])))]) = NumV(Len(Kept))

\* every aggregate call is computed from its own argument over its own group / the filtered rows
OwnArgument ==
    Ok => \A i \in DOMAIN res.e : \A j \in DOMAIN cs.q.sel :
            (cs.q.sel[j].k = "item" /\ cs.q.sel[j].e.k = "agg") =>
                LET e   == cs.q.sel[j].e
                    mem == IF GS = <<>> THEN Kept ELSE Members(Groups[i])
                    col == [k \in 1..Len(mem) |-> PathGet(mem[k], e.p)]
                IN  res.e[i].f[cs.q.sel[j].as] = Aggregate(e.f, IF e.p = <<>> THEN <<>> ELSE col, Len(mem))

\* without GROUP BY an all-aggregate select list yields exactly one row
WholeTable == (Ok /\ GS = <<>>) => Len(res.e) = 1

Export ==
    Done => PrintT(ToJson([q |-> cs.q, doc |-> cs.doc, fam |-> cs.fam, hist |-> hist, res |-> res,
                           ngroups |-> IF GS = <<>> THEN 0 ELSE Len(AllGroups)]))
=============================================================================
